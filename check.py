#!/usr/bin/env python3
"""Orchestrator: python3 check.py <property id> [--tier quick|thorough] [--repo DIR] [--list]

Decides the structural clauses claimed for one property (see DESIGN.md) from the type-checked
program of /repo's current working tree. Exit 0 = all clauses hold (known findings are printed as
KNOWN-FINDING lines); exit 1 = `VIOLATION property=<id> replay=<file>` for every finding that is
not a listed known finding, or for lost coverage (a rule decides fewer instances than its floor);
exit 2 = the machinery itself could not run (repository does not compile, driver missing).
"""
import argparse
import json
import os
import sys
import time

VERIF = os.path.dirname(os.path.abspath(__file__))
sys.path.insert(0, VERIF)

from vlib import facts  # noqa: E402
from vlib.core import HOLDS, VIOLATES, UNDECIDED  # noqa: E402
from vlib import registry  # noqa: E402


def load_known():
    p = os.path.join(VERIF, "known_findings.json")
    if not os.path.exists(p):
        return []
    with open(p) as fh:
        return json.load(fh)["findings"]


def run_property(pid, tier, repo, work, quiet=False):
    t0 = time.time()
    spec = registry.PROPERTIES[pid]
    prog = facts.load(repo, work)
    known = [k for k in load_known() if k["property"] == pid]
    open_known = {k["key"]: k for k in known if k.get("status") == "open"}

    rule_reports = []
    violations = []
    known_hits = []
    all_instances = []
    for use in spec["rules"]:
        out = registry.run_rule(prog, use["rule"])
        items = [i for i in out.items if use.get("filter") is None or use["filter"](i)]
        definite = [i for i in items if i.verdict != UNDECIDED]
        bad = [i for i in items if i.verdict == VIOLATES]
        # props.py records the number of instances decided on the triaged tree; half of them may legitimately disappear
        # through refactoring before the check fails closed (a macro used at 16 sites that becomes one generic function turns
        # 32 per-site instances into 2 - refactor round T; the floor is there to catch a rule that went vacuous, not a merge)
        counted_floor = use.get("floor", 1)
        floor = counted_floor if counted_floor <= 2 else counted_floor - max(1, counted_floor // 2)
        fns = sorted(set(i.key.split(":", 2)[1] if i.key.count(":") >= 2 else "" for i in items))
        rep = {"rule": use["rule"], "clause": use.get("clause", ""), "instances": len(items),
               "functions_analysed": len(fns), "functions_sample": fns[:5],
               "decided": len(definite), "holds": len([i for i in items if i.verdict == HOLDS]),
               "violates": len(bad), "undecided": len(items) - len(definite), "floor": floor, "counted_on_triaged_tree": counted_floor}
        rule_reports.append(rep)
        all_instances.extend(items)
        for i in bad:
            fkey = "%s:%s" % (pid, i.key)
            if fkey in open_known:
                known_hits.append((open_known[fkey], i))
            else:
                violations.append((fkey, i))
        # anchors reported missing are already VIOLATES instances; the floor catches silent loss
        counted = len([i for i in definite if "anchor" not in i.tags])
        if counted < floor:
            msg = "coverage-lost rule=%s expected>=%d got=%d" % (use["rule"], floor, counted)
            from vlib.core import Instance
            violations.append(("%s:%s:coverage-lost" % (pid, use["rule"]),
                               Instance(use["rule"], "%s:coverage-lost" % use["rule"], VIOLATES, "", msg)))

    # ---- output
    # replay files of runs against a scratch copy (mutant tools) stay in that run's work directory
    rdir = os.path.join(VERIF, "evidence", "replay") if repo == facts.REPO else os.path.join(work, "replay")
    os.makedirs(rdir, exist_ok=True)
    for f in os.listdir(rdir):
        if f.startswith(pid + "-"):
            os.remove(os.path.join(rdir, f))
    for kf, inst in known_hits:
        print("KNOWN-FINDING: property=%s %s [%s]" % (pid, kf["what"], inst.loc))
    for n, (fkey, inst) in enumerate(violations):
        path = os.path.join(rdir, "%s-%d.txt" % (pid, n))
        with open(path, "w") as fh:
            fh.write("property: %s\nfinding-key: %s\nrule: %s\nlocation: %s\nmessage: %s\n"
                     "re-run: cd /verif && python3 check.py %s --tier %s\n"
                     % (pid, fkey, inst.rule, inst.loc, inst.msg, pid, tier))
        print("VIOLATION property=%s replay=%s" % (pid, path))
        if not quiet:
            print("  %s @ %s\n  %s" % (fkey, inst.loc, inst.msg))

    decided = [i for i in all_instances if i.verdict != UNDECIDED]
    discharged = len([i for i in all_instances if i.verdict == HOLDS]) + len(known_hits)
    samples = [i.as_dict() for i in decided[:6]] + [i.as_dict() for _, i in violations[:6]]
    evidence = {
        "property_id": pid,
        "tier": tier,
        "seed": int(os.environ.get("VERIF_SEED", "0") or 0),
        "level": "other",
        "coverage": {
            "explanation": spec["explanation"],
            "obligations": len(decided),
            "discharged": discharged,
            "evaluations": len(all_instances),
            "distinct_nontrivial": len(set(i.key for i in decided)),
            "rule": "one obligation per rule instance enumerated from the type-checked program of the current "
                    "tree; non-trivial = the rule reached a definite verdict (holds/violates), distinct = distinct "
                    "line-free instance key",
            "samples": samples,
            "rules": rule_reports,
            "undecided": len(all_instances) - len(decided),
            "known_findings_hit": [k["key"] for k, _ in known_hits],
            "analysed": {c.name: {"bodies": len(c.bodies), "adts": len(c.adts), "impls": len(c.impls)}
                         for c in prog.crates.values()},
            "tree_hash": facts.tree_hash(repo),
            "checker_cmd": "python3 check.py %s --tier %s" % (pid, tier),
            "trusted_base": ["rustc nightly type checker (typed HIR exported by /verif/splint)",
                             "rule tables in /verif/vlib (anchors resolved by def-path and type)"],
            "exhaustive": True,
        },
        "assumptions": spec.get("assumptions", []),
        "wall_s": round(time.time() - t0, 2),
        "violations": len(violations),
    }
    edir = os.path.join(VERIF, "evidence")
    if repo == facts.REPO:
        with open(os.path.join(edir, pid + ".json"), "w") as fh:
            json.dump(evidence, fh, indent=1)
    return violations, known_hits, evidence


def main():
    ap = argparse.ArgumentParser()
    ap.add_argument("property", nargs="?")
    ap.add_argument("--tier", default=os.environ.get("VERIF_TIER", "quick"))
    ap.add_argument("--repo", default=facts.REPO)
    ap.add_argument("--work", default=facts.WORK)
    ap.add_argument("--list", action="store_true")
    ap.add_argument("--all", action="store_true")
    ap.add_argument("--warm", action="store_true", help="only (re)generate the facts for the current tree")
    ap.add_argument("--verbose", "-v", action="store_true")
    a = ap.parse_args()
    if a.warm:
        try:
            facts.load(a.repo, a.work)
        except facts.FactsError as e:
            print("ERROR: %s" % e, file=sys.stderr)
            return 2
        return 0
    if a.list:
        for pid, spec in sorted(registry.PROPERTIES.items()):
            print(pid, [u["rule"] for u in spec["rules"]])
        return 0
    pids = sorted(registry.PROPERTIES) if a.all else [a.property]
    rc = 0
    for pid in pids:
        if pid not in registry.PROPERTIES:
            print("unknown or unclaimed property %s" % pid, file=sys.stderr)
            return 2
        try:
            violations, known_hits, ev = run_property(pid, a.tier, a.repo, a.work)
        except facts.FactsError as e:
            print("ERROR: %s" % e, file=sys.stderr)
            return 2
        if a.tier == "thorough":
            from vlib import thorough
            extra = thorough.run(pid, a.repo, a.work)
            if extra:
                violations = violations + extra
        cov = ev["coverage"]
        print("%s: %d obligations, %d discharged, %d undecided, %d violations, %d known findings (%.1fs)"
              % (pid, cov["obligations"], cov["discharged"], cov["undecided"], len(violations), len(known_hits),
                 ev["wall_s"]))
        if a.verbose:
            for r in cov["rules"]:
                print("   ", r)
        if violations:
            rc = 1
    return rc


if __name__ == "__main__":
    try:
        rc_ = main()
    except SystemExit:
        raise
    except BaseException:
        # an error of the machinery is not a verdict about the code: exit status 3, no VIOLATION line
        import traceback
        traceback.print_exc()
        print("INTERNAL-ERROR: the checker itself failed; nothing is claimed about the tree", file=sys.stderr)
        sys.exit(3)
    sys.exit(rc_)
