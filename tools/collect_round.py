#!/usr/bin/env python3
"""Collect the deliverables of a seeding round from the agents' scratch worktrees into /verif/seeded.

usage: collect_round.py <round letter> <base commit> [--changes changes.json]
  /tmp/seed/C<NN><r>/SEED/{patch.diff,demo.diff,demo/,run_demo.sh,README.md,SIDE_FINDINGS.md}
    -> /verif/seeded/C<NN>-<r>/..., side findings -> /verif/seeded/_side_findings_<r>/C<NN><r>.md
changes.json: {"C01": "one-line description of the change", ...} (written by hand from the agents' reports)
"""
import json
import os
import shutil
import sys


def main():
    r, base = sys.argv[1], sys.argv[2]
    changes = {}
    if "--changes" in sys.argv:
        changes = json.load(open(sys.argv[sys.argv.index("--changes") + 1]))
    side = "/verif/seeded/_side_findings_%s" % r
    os.makedirs(side, exist_ok=True)
    n = 0
    for i in range(1, 21):
        pid = "C%02d" % i
        src = "/tmp/seed/%s%s/SEED" % (pid, r)
        if not os.path.exists(os.path.join(src, "patch.diff")):
            print("missing", pid)
            continue
        dst = "/verif/seeded/%s-%s" % (pid, r)
        if os.path.exists(dst):
            shutil.rmtree(dst)
        os.makedirs(dst)
        for f in ("patch.diff", "demo.diff", "run_demo.sh", "README.md"):
            if os.path.exists(os.path.join(src, f)):
                shutil.copy(os.path.join(src, f), dst)
        if os.path.isdir(os.path.join(src, "demo")):
            shutil.copytree(os.path.join(src, "demo"), os.path.join(dst, "demo"))
        sf = os.path.join(src, "SIDE_FINDINGS.md")
        if os.path.exists(sf):
            shutil.copy(sf, os.path.join(side, "%s%s.md" % (pid, r)))
        json.dump({"property": pid, "change": changes.get(pid, "(see README.md)"),
                   "origin": "independent sub-agent given only the property text and a scratch worktree of /repo at %s (round %s)" % (base, r)},
                  open(os.path.join(dst, "meta.json"), "w"), indent=1)
        n += 1
    print("collected", n)


if __name__ == "__main__":
    main()
