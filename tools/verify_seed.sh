#!/bin/bash
# usage: verify_seed.sh <seed dir under /verif/seeded> [base commit]   -- independent confirmation of a seeded change
# exit 0 iff: demo passes on base, suite passes with patch, demo fails with patch
set -u
S=/verif/seeded/$1; BASE=${2:-63b46ad}; W=/tmp/vs/$1
rm -rf $W; mkdir -p /tmp/vs; git -C /repo worktree prune; git -C /repo worktree add --detach $W $BASE -q || exit 2
cp -r /repo/target $W/target 2>/dev/null
cd $W
git apply $S/demo.diff 2>/dev/null || patch -p1 -s -F 3 --no-backup-if-mismatch < $S/demo.diff || { echo "$1 demo.diff does not apply"; cd /; git -C /repo worktree remove --force $W; exit 2; }
mkdir -p $W/SEED && cp $S/run_demo.sh $W/SEED/run_demo.sh
bash SEED/run_demo.sh > $W/demo_base.log 2>&1; a=$?
P=$S/patch.diff; [ -f $S/patch_rebased.diff ] && [ "$BASE" = "HEAD" ] && P=$S/patch_rebased.diff
git apply $P 2>/dev/null || patch -p1 -s -F 3 --no-backup-if-mismatch < $P || { echo "$1 base=$BASE patch does not apply"; cd /; git -C /repo worktree remove --force $W; exit 2; }
cargo test --workspace --offline --no-fail-fast --lib --bins -- --skip seed_demo > $W/suite.log 2>&1; b=$?
npass=$(grep -E "^test result" $W/suite.log | awk '{s+=$4} END {print s}')
bash SEED/run_demo.sh > $W/demo_patched.log 2>&1; c=$?
echo "$1 base=$BASE demo_on_base=$a suite_with_patch=$b (passed=$npass) demo_with_patch=$c"
cd /; git -C /repo worktree remove --force $W
[ $a -eq 0 ] && [ $b -eq 0 ] && [ "$npass" = "142" ] && [ $c -ne 0 ]
