#!/bin/bash
# usage: sc.sh <patch> <prop>...   -> run the listed checks on a scratch copy with the patch applied
p=$1; shift
d=$(/verif/tools/scratch.sh "$p") || exit 3
for x in "$@"; do python3 /verif/check.py $x --repo $d --work /verif/.work/sc 2>&1 | grep -v "^KNOWN" | tail -${TAILN:-6}; done
rm -rf "$d"
