#!/usr/bin/env python3
"""Regenerates /verif/MANIFEST.json from vlib/props.py (kept in sync with the registry)."""
import json, os, sys
VERIF = os.path.dirname(os.path.dirname(os.path.abspath(__file__)))
sys.path.insert(0, VERIF)
from vlib import registry

TECH = {
 "C01": "typed-HIR dataflow (old/new token position provenance), statement-order and who-may-strip rules, ADT-graph exhaustive-descent check",
 "C02": "typed-HIR guard/dominance rules (empty-range arm, is_default sibling rule), who-may-call process::exit, lookup-unwrap rule",
 "C03": "abstract interpretation over reference frames (shift-once discipline), variant-construction census, exhaustive-descent check",
 "C04": "call-graph shape rule on the precedence-climbing parser + operator table agreement",
 "C05": "set-inclusion rule on the look-ahead macro expansions, who-may-consume rule for tokens and declaration keywords",
 "C06": "literal table extraction from typed HIR and prefix/order comparison",
 "C07": "struct-update typestate rule (range => errors), look-ahead table rule, length-unit rule",
 "C08": "adaptor no-drop rule, batch ordering rule, UTF-16 column rule, length-unit rule",
 "C09": "abstract interpretation over reference frames (token slice re-basing), exhaustive-descent check of Format impls, operator lexeme table agreement",
 "C10": "comment pairing rule: own-token count of each node parser vs. comment helper applied by its Format impl",
 "C11": "purity/who-may-read rule on the printer + option mapping rule",
 "C12": "abstract interpretation with entry frames (same-entry rule), scope-order rule, entry guard rule",
 "C13": "exhaustive-descent check of the finder walkers on the ADT graph + reference-frame interpretation",
 "C14": "reference-frame interpretation of the call-statement descent + exhaustive-descent check",
 "C15": "legend/discriminant table agreement, unit/frame interpretation, delta-base pairing rule",
 "C16": "reference-frame interpretation of completion's slice hand-offs + lookup provenance rule",
 "C17": "reference-frame interpretation of the fold range computation",
 "C18": "path enumeration over the structured HIR of the phase loops (one split/into/send per request path), who-may-construct, sender release rule",
 "C19": "statement-order/dominance rule on the codec (no consumption before Ok(None), guarded slice, byte length)",
 "C20": "broker state rules (guarded notify, injective map key), who-may-spawn",
}

checks = []
for pid, spec in sorted(registry.PROPERTIES.items()):
    checks.append({
        "property_id": pid,
        "quick_cmd": "python3 check.py %s --tier quick" % pid,
        "thorough_cmd": "python3 check.py %s --tier thorough" % pid,
        "evidence_file": "/verif/evidence/%s.json" % pid,
        "replay_cmd_template": "cat {path}; python3 check.py %s --tier quick" % pid,
        "engine": "splint",
        "level_claimed": {"category": "other",
                          "text": "Static analysis: " + spec["explanation"] + " Rules used: " + ", ".join(u["rule"] for u in spec["rules"]) +
                                  ". Every rule instance is enumerated from the current tree on every run; undecided instances never alarm; "
                                  "a run deciding fewer instances than the hand-counted floor fails closed.",
                          "design_ref": "DESIGN.md §4 (rule catalogue), §5 (" + pid + ")"},
        "level_note": "Trusted: rustc's type checker and the HIR/typeck facts exported by splint; the rule tables in /verif/vlib "
                      "(anchors resolved by def-path and type, never by line or text); the frozen SPL/LSP spec tables named in DESIGN.md. "
                      "Not decided: the behaviour beyond the named clauses (see DESIGN.md §5 'does not decide').",
        "technique": "static analysis: " + TECH[pid],
    })
manifest = {
    "version": 1,
    "setup_cmd": "cd /verif/splint && cargo build --release --offline && cd /verif && python3 check.py --warm",
    "hooks": {"guard": "lsp4spl_verif", "enable": "none needed: the analysis reads the unmodified sources through a rustc wrapper "
              "(RUSTC_WORKSPACE_WRAPPER=/verif/splint/target/release/splint cargo +nightly check --offline --workspace)",
              "baseline_off_cmd": "cd /repo && cargo test --workspace --no-fail-fast --offline",
              "source_commits": [], "add_only": True},
    "engines": [{"name": "splint", "path": "/verif/splint", "serves_properties": sorted(registry.PROPERTIES),
                 "kind_free_text": "rustc_private driver (nightly) exporting typed HIR, ADT and impl tables as JSON; rules in /verif/vlib/*.py "
                                   "(table extraction, path enumeration, exhaustive-descent check, reference-frame abstract interpreter)"}],
    "checks": checks,
    "not_applicable": [],
    "notes": "All 20 properties are claimed through necessary structural clauses only (level `other`). Genuine defects found on the pinned "
             "tree were repaired in /repo as `fix:` commits and are listed (status fixed) in known_findings.json; comment loss in the "
             "formatter (C10) is recorded as six open known findings.",
}
json.dump(manifest, open(os.path.join(VERIF, "MANIFEST.json"), "w"), indent=1)
print("MANIFEST.json written:", len(checks), "checks")
