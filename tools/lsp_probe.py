#!/usr/bin/env python3
"""Triage helper (NOT part of any check): drive a built lsp4spl binary over stdio.
usage: lsp_probe.py <binary> <script.json>   script = list of messages (dicts without jsonrpc); prints responses."""
import json, subprocess, sys, time, threading

def frame(msg):
    body = json.dumps(dict(msg, jsonrpc="2.0")).encode()
    return b"Content-Length: %d\r\n\r\n" % len(body) + body

def run(binary, msgs, wait=1.0, chunks=None):
    p = subprocess.Popen([binary], stdin=subprocess.PIPE, stdout=subprocess.PIPE, stderr=subprocess.DEVNULL)
    out = bytearray()
    def reader():
        while True:
            b = p.stdout.read(1)
            if not b: break
            out.extend(b)
    t = threading.Thread(target=reader, daemon=True); t.start()
    for m in msgs:
        p.stdin.write(frame(m)); p.stdin.flush()
        time.sleep(0.02)
    time.sleep(wait)
    try:
        p.stdin.close()
    except Exception: pass
    try:
        rc = p.wait(timeout=3)
    except subprocess.TimeoutExpired:
        p.kill(); rc = "hang"
    t.join(timeout=1)
    res = []
    data = bytes(out)
    while data:
        i = data.find(b"\r\n\r\n")
        if i < 0: break
        n = int(data[:i].split(b":")[1])
        res.append(json.loads(data[i+4:i+4+n])); data = data[i+4+n:]
    return rc, res

INIT = [{"id": 1, "method": "initialize", "params": {"capabilities": {"textDocument": {"publishDiagnostics": {}}}}},
        {"method": "initialized", "params": {}}]

def open_doc(uri, text):
    return {"method": "textDocument/didOpen", "params": {"textDocument": {"uri": uri, "languageId": "spl", "version": 1, "text": text}}}

def change(uri, changes, version=2):
    return {"method": "textDocument/didChange", "params": {"textDocument": {"uri": uri, "version": version}, "contentChanges": changes}}

def req(id, method, uri, line=None, ch=None, **extra):
    params = {"textDocument": {"uri": uri}}
    if line is not None: params["position"] = {"line": line, "character": ch}
    params.update(extra)
    return {"id": id, "method": method, "params": params}

if __name__ == "__main__":
    rc, res = run(sys.argv[1], INIT + json.load(open(sys.argv[2])))
    print(rc); print(json.dumps(res, indent=1))
