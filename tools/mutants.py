#!/usr/bin/env python3
"""Checker self-validation: apply stored mutants / seeded patches to a scratch copy of /repo's current
tree and run the checks on the copy.

usage: mutants.py [--only NAME_SUBSTR] [--seeds] [--jobs N]
Each mutant: {"name", "file", "old", "new", "expect": [property ids that must report a violation],
              "key": substring expected in some finding key}
A mutant whose `old` text is not found exactly once in the current tree is *skipped* (tree changed).
"""
import argparse
import json
import os
import shutil
import subprocess
import sys
import tempfile
from concurrent.futures import ThreadPoolExecutor

VERIF = os.path.dirname(os.path.dirname(os.path.abspath(__file__)))
REPO = "/repo"


def copy_repo(dst):
    subprocess.check_call(["rsync", "-a", "--exclude", "target", "--exclude", ".git", REPO + "/", dst + "/"])


def run_checks(repo, work, props):
    res = {}
    if sorted(props) == all_props():
        # one process for all properties: every rule is computed once and shared (check.py caches rule results per process)
        r = subprocess.run([sys.executable, os.path.join(VERIF, "check.py"), "--all", "--repo", repo, "--work", work],
                           capture_output=True, text=True)
        for pid in props:
            res[pid] = {"rc": 2 if r.returncode == 2 else 0, "keys": [], "err": r.stderr[-2000:] if r.returncode == 2 else ""}
        if r.returncode not in (0, 1, 2):
            for pid in props:
                res[pid]["rc"] = 2
                res[pid]["err"] = (r.stderr or r.stdout)[-2000:]
        cur = None
        for l in r.stdout.splitlines():
            if l.startswith("VIOLATION property="):
                cur = l.split("property=")[1].split()[0]
                if cur in res:
                    res[cur]["rc"] = 1
            elif l.startswith("  ") and ":" in l and " @ " in l and cur in res:
                res[cur]["keys"].append(l.strip().split(" @ ")[0])
        return res
    for pid in props:
        r = subprocess.run([sys.executable, os.path.join(VERIF, "check.py"), pid, "--repo", repo, "--work", work],
                           capture_output=True, text=True)
        keys = [l.strip().split(" @ ")[0] for l in r.stdout.splitlines() if l.startswith("  ") and ":" in l and " @ " in l]
        res[pid] = {"rc": r.returncode, "keys": keys, "err": r.stderr[-2000:] if r.returncode == 2 else ""}
    return res


def all_props():
    sys.path.insert(0, VERIF)
    from vlib import registry
    return sorted(registry.PROPERTIES)


_USED_WORK = set()


def _cleanup_work():
    for w in sorted(_USED_WORK):
        shutil.rmtree(w, ignore_errors=True)


def _scratch_base():
    # one scratch area per copy of /verif (a `vp run` snapshot and the working copy must not share slots: their locks differ)
    import hashlib
    return os.path.join(tempfile.gettempdir(), "splint_mut_" + hashlib.sha1(VERIF.encode()).hexdigest()[:8])


def do_mutant(m, slot):
    base = _scratch_base()
    d = os.path.join(base, "m%d" % slot)
    # a slot (scratch copy + its cargo target dir) is used by one mutants.py process at a time
    import fcntl
    os.makedirs(os.path.join(VERIF, ".work"), exist_ok=True)
    lock_fh = open(os.path.join(VERIF, ".work", "mut%d.lock" % slot), "w")
    fcntl.flock(lock_fh, fcntl.LOCK_EX)
    try:
        return _do_mutant_locked(m, slot, d)
    finally:
        fcntl.flock(lock_fh, fcntl.LOCK_UN)
        lock_fh.close()


def _do_mutant_locked(m, slot, d):
    shutil.rmtree(d, ignore_errors=True)
    os.makedirs(d)
    copy_repo(d)
    try:
        if "patch" in m:
            r = subprocess.run(["git", "apply", "--unsafe-paths", "--directory", d, m["patch"]], capture_output=True, text=True, cwd="/")
            if r.returncode != 0:
                r = subprocess.run(["patch", "-p1", "-d", d, "-i", m["patch"], "--no-backup-if-mismatch", "-F", "3"],
                                   capture_output=True, text=True)
                if r.returncode != 0:
                    return {"name": m["name"], "status": "skipped", "why": "patch does not apply: " + r.stdout[-300:]}
        elif "rename" in m:
            import re
            p = os.path.join(d, m["file"])
            s = open(p).read()
            s2 = re.sub(r"(?<![A-Za-z0-9_])(?<![A-Za-z0-9_)\]]\.)" + re.escape(m["rename"]) + r"(?![A-Za-z0-9_])", m["to"], s)
            if s2 == s:
                return {"name": m["name"], "status": "skipped", "why": "identifier not found"}
            open(p, "w").write(s2)
        else:
            p = os.path.join(d, m["file"])
            s = open(p).read()
            if s.count(m["old"]) != 1:
                return {"name": m["name"], "status": "skipped", "why": "anchor text found %d times" % s.count(m["old"])}
            open(p, "w").write(s.replace(m["old"], m["new"]))
        # facts and cargo target directory of the checks on the scratch copy: outside /verif and /repo, removed when the sweep ends
        work = os.path.join(_scratch_base(), "w%d" % slot)
        _USED_WORK.add(work)
        props = m.get("props") or all_props()
        res = run_checks(d, work, props)
        flagged = sorted(p for p, v in res.items() if v["rc"] == 1)
        broken = sorted(p for p, v in res.items() if v["rc"] == 2)
        keys = [k for v in res.values() for k in v["keys"]]
        ok = bool(flagged) and all(e in flagged for e in m.get("expect", [])) and \
            (not m.get("key") or any(m["key"] in k for k in keys))
        status = "caught" if ok else ("compile-error" if broken and not flagged else "MISSED")
        if m.get("harmless"):
            status = "compile-error" if broken else ("FALSE-ALARM" if flagged else "silent")
            # a redesign that removes what a rule is anchored on: the check is *expected* to fail closed (and with nothing else)
            if status == "FALSE-ALARM" and m.get("fail_closed") and all(("coverage-lost" in k or "anchor-missing" in k) for k in keys):
                status = "fail-closed"
        return {"name": m["name"], "status": status, "flagged": flagged, "keys": keys[:8],
                "err": [res[p]["err"][-400:] for p in broken][:1]}
    finally:
        shutil.rmtree(d, ignore_errors=True)


def main():
    ap = argparse.ArgumentParser()
    ap.add_argument("--only")
    ap.add_argument("--seeds", action="store_true")
    ap.add_argument("--jobs", type=int, default=4)
    ap.add_argument("--json")
    ap.add_argument("--file")
    ap.add_argument("--refactors", action="store_true", help="run the independently produced behaviour-preserving patches in /verif/refactors")
    a = ap.parse_args()
    ms = []
    if a.refactors:
        rd = os.path.join(VERIF, "refactors")
        fc = {}
        if os.path.exists(os.path.join(rd, "EXPECTED_FAIL_CLOSED.json")):
            fc = json.load(open(os.path.join(rd, "EXPECTED_FAIL_CLOSED.json")))
        for n in sorted(os.listdir(rd)):
            if n.endswith(".diff"):
                ms.append({"name": "refactor:" + n[:-5], "patch": os.path.join(rd, n), "harmless": True, "fail_closed": n[:-5] in fc})
    elif a.seeds:
        sd = os.path.join(VERIF, "seeded")
        for n in sorted(os.listdir(sd)):
            meta = os.path.join(sd, n, "meta.json")
            pf = os.path.join(sd, n, "patch.diff")
            # a seed whose patch no longer applies because a later fix: commit touched the same lines is kept in a version
            # re-based onto the repaired tree (same fault, same lines)
            if os.path.exists(os.path.join(sd, n, "patch_rebased.diff")):
                pf = os.path.join(sd, n, "patch_rebased.diff")
            if not os.path.exists(pf):
                continue
            exp = []
            silent = False
            if os.path.exists(meta):
                md = json.load(open(meta))
                exp = [md.get("property")]
                # a seeded change that a later fix: commit made harmless must now be *silent*
                silent = bool(md.get("expect_silent_on_current_tree"))
            ms.append({"name": "seed:" + n, "patch": pf, "expect": [] if silent else [e for e in exp if e], "harmless": silent})
    else:
        ms = json.load(open(a.file or os.path.join(VERIF, "mutants", "mutants.json")))
    if a.only:
        ms = [m for m in ms if a.only in m["name"]]
    results = []
    slots = list(range(a.jobs))

    def worker(args):
        i, m = args
        return do_mutant(m, i % a.jobs)

    # one mutant per slot at a time
    import threading
    locks = [threading.Lock() for _ in range(a.jobs)]

    def guarded(args):
        i, m = args
        with locks[i % a.jobs]:
            return do_mutant(m, i % a.jobs)

    import atexit
    atexit.register(_cleanup_work)
    with ThreadPoolExecutor(max_workers=a.jobs) as ex:
        for r in ex.map(guarded, list(enumerate(ms))):
            results.append(r)
            print("%-8s %-60s %s %s" % (r["status"], r["name"], r.get("flagged", ""), r.get("why", "")))
            if r["status"] in ("MISSED", "compile-error", "FALSE-ALARM", "fail-closed"):
                for k in r.get("keys", []):
                    print("      ", k)
                for e in r.get("err", []):
                    print("      ", e)
    if a.json:
        json.dump(results, open(a.json, "w"), indent=1)
    bad = [r for r in results if r["status"] in ("MISSED", "FALSE-ALARM")]
    return 1 if bad else 0


if __name__ == "__main__":
    sys.exit(main())
