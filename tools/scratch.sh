#!/bin/bash
# usage: scratch.sh <patch-file> -> prints scratch dir (copy of /repo with patch applied)
set -e
f=$(realpath "$1"); n=$(basename "$1" .diff)
d=/tmp/sc/$n
rm -rf "$d"; mkdir -p "$d"
rsync -a --exclude target --exclude .git /repo/ "$d/"
(cd / && git apply --unsafe-paths --directory "$d" "$f") || patch -p1 -d "$d" -i "$f" --no-backup-if-mismatch -F 3 >/dev/null
echo "$d"
