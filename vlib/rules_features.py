"""Rules on the LSP feature handlers: SCOPE-ORDER, ENTRY-GUARD, LOOKUP-NOPANIC, ENTRY-KIND, LEN-UNITS,
SEMTOK-PAIRING, FMT-PURE, COMMENT-PAIRING, SAME-FINDER."""
from . import hir
from .core import Out
from .rules_tables import last, match_tables, find_fn, tag_parsers
from .rules_struct import place, calls_in
from . import roles

GT = "spl_frontend::table::GlobalTable"
LT = "spl_frontend::table::LookupTable"
ENTRY = "spl_frontend::table::Entry"
GENTRY = "spl_frontend::table::GlobalEntry"


def _is_cursor_ident(c, key_expr):
    """Is the lookup key `<x>.value` where x is the identifier under the cursor (type features::Ident)?"""
    e = hir.strip_ref(key_expr)
    if e.get("k") == "Field" and e["name"] == "value":
        t = hir.peel(c, e["base"]["t"])
        for a in e["base"].get("adj") or []:
            t = hir.peel(c, a["to"])
        # (the feature layer's identifier-under-the-cursor type, wherever in lsp4spl::features it is declared)
        return t["k"] == "adt" and t["p"].startswith("lsp4spl::features::") and t["p"].endswith("::Ident")
    return False


def _ctx_pats(parents):
    """patterns that are known to have matched around a node: enclosing match arms and `if let` / `let .. else` heads"""
    res = []
    for i, p in enumerate(parents):
        if p.get("k") == "Arm":
            res.append(p["pat"])
        elif p.get("k") == "If":
            nxt = parents[i + 1] if i + 1 < len(parents) else None
            if nxt is not None and nxt is p.get("then"):
                res += [x["pat"] for x in hir.nodes(p["cond"], "LetExpr")]
    return res


def _in_ctx(parents, variant):
    return any(variant in hir.pat_variants_all(pt) for pt in _ctx_pats(parents))


def feature_bodies(prog):
    c = prog.lsp
    return [b for b in c.bodies if b["p"].startswith("lsp4spl::features") and "/tests" not in c.file_of(b["sp"])
            and b["k"] in ("fn", "assoc_fn")]


def _recv_adt(c, n):
    t = hir.peel(c, n["recv"]["t"])
    for a in n["recv"].get("adj") or []:
        pass
    return t["p"] if t["k"] == "adt" else None


def _lookup_priority(prog, fc, b):
    """Which table decides the answer of LookupTable::lookup, in order of priority: ['L', 'G'] = a local hit wins, the global table is
    the fallback.  None: a shape this evaluation does not follow."""
    envs = {}
    cur = [b["p"]]

    def bind(hb):
        # (binding ids are per body)
        env_ = envs.setdefault(hb["p"], {})
        for n in hir.nodes(hb["body"]):
            if n.get("k") in ("Let", "LetExpr") and n.get("init") is not None and n.get("pat"):
                for bd in hir.pat_bindings(n["pat"]):
                    env_.setdefault(bd["id"], n["init"])

    bind(b)
    seen_src = {}

    def srcs(e, depth=0):
        r = set()
        if e is None or depth > 6:
            return r
        env = envs[cur[0]]
        for n in hir.nodes_deep(prog, e, 3, crate=fc):
            if n.get("k") == "Field" and n["name"] in ("local_table", "global_table") and hir.adt_path(fc, hir.strip(n["base"])["t"]) == LT:
                r.add("L" if n["name"] == "local_table" else "G")
        for n in hir.nodes(e):
            if n.get("k") == "Path" and n["res"].get("k") == "Local" and n["res"]["id"] in env:
                i_ = (cur[0], n["res"]["id"])
                if i_ not in seen_src:
                    seen_src[i_] = set()
                    seen_src[i_] = srcs(env[i_[1]], depth + 1)
                r |= seen_src[i_]
        return r

    def into(hb, depth):
        bind(hb)
        old = cur[0]
        cur[0] = hb["p"]
        try:
            return ev(hb["body"], depth + 2)
        finally:
            cur[0] = old

    def cat(*parts):
        res = []
        for p_ in parts:
            if p_ is None:
                return None
            for x in p_:
                if x not in res:
                    res.append(x)
        return res

    def some_pat(p_):
        return p_ is not None and p_.get("k") == "TupleStruct" and any(v.endswith("Option::Some") for v in hir.pat_variants_all(p_))

    def ev(e, depth=0):
        if e is None:
            return []
        if depth > 12:
            return None
        e = hir.strip_ref(hir.strip(e))
        s_ = srcs(e)
        if len(s_) <= 1:
            return sorted(s_)
        k = e.get("k")
        if k == "MethodCall":
            m = e["m"]
            if m in ("or_else", "or") and e["args"]:
                return cat(ev(e["recv"], depth + 1), ev(e["args"][0], depth + 1))
            if m == "map_or_else" and len(e["args"]) == 2 and not srcs(e["args"][1]):
                return cat(ev(e["recv"], depth + 1), ev(e["args"][0], depth + 1))
            if m == "map_or" and len(e["args"]) == 2 and not srcs(e["args"][1]):
                return cat(ev(e["recv"], depth + 1), ev(e["args"][0], depth + 1))
            if m in ("map", "and_then", "cloned", "copied", "filter", "inspect", "into", "as_ref", "as_deref") and not any(srcs(a_) for a_ in e["args"]):
                return ev(e["recv"], depth + 1)
            hb = hir.local_callee_body(prog, e)
            if hb is not None and hb["_crate"] is fc and not srcs(e["recv"]) - srcs(hb["body"]) and not any(srcs(a_) for a_ in e["args"]):
                return into(hb, depth)
            return None
        if k == "Closure":
            return ev(e["body"], depth + 1)
        if k in ("Try", "Await", "Ret"):
            return ev(e.get("e"), depth + 1)
        if k == "Call":
            if last((hir.path_def(e["f"]) or {}).get("ctor_of", "")) == "Some" and e["args"]:
                return ev(e["args"][0], depth + 1)
            if sum(1 for a_ in e["args"] if srcs(a_)) == 1 and hir.local_callee_body(prog, e) is None:
                # a conversion of the one argument that carries the answer (`Entry::from(x)`)
                return ev([a_ for a_ in e["args"] if srcs(a_)][0], depth + 1)
            hb = hir.local_callee_body(prog, e)
            if hb is not None and hb["_crate"] is fc and not any(srcs(a_) for a_ in e["args"]):
                return into(hb, depth)
            return None
        if k == "Path" and e["res"].get("k") == "Local" and e["res"]["id"] in envs[cur[0]]:
            return ev(envs[cur[0]][e["res"]["id"]], depth + 1)
        if k == "BlockExpr" or k == "Block":
            blk = e["b"] if k == "BlockExpr" else e
            order = []
            for st in blk["stmts"]:
                if st.get("k") == "Let":
                    if st.get("els") is not None and srcs(st["els"]):
                        return None
                    continue  # evaluated where the binding is used: what counts is which value wins, not which is computed first
                inner = hir.strip(hir.stmt_inner(st) or {})
                if not srcs(inner):
                    continue
                if inner.get("k") == "If" and inner.get("else") is None and hir.strip(inner["cond"]).get("k") == "LetExpr" and \
                        some_pat(hir.strip(inner["cond"])["pat"]) and any(True for _ in hir.nodes(inner["then"], "Ret")):
                    cnd = hir.strip(inner["cond"])
                    if srcs(inner["then"]) - srcs(cnd["init"]):
                        return None
                    order = cat(order, ev(cnd["init"], depth + 1))
                    continue
                return None
            return cat(order, ev(blk.get("expr"), depth + 1))
        if k == "If" and e.get("else") is not None:
            cnd = hir.strip(e["cond"])
            if cnd.get("k") == "LetExpr" and some_pat(cnd["pat"]) and not (srcs(e["then"]) - srcs(cnd["init"])):
                return cat(ev(cnd["init"], depth + 1), ev(e["else"], depth + 1))
            return None
        if k == "Match" and len(e["arms"]) == 2:
            a_some = [a_ for a_ in e["arms"] if some_pat(a_["pat"])]
            a_none = [a_ for a_ in e["arms"] if not some_pat(a_["pat"])]
            if len(a_some) == 1 and len(a_none) == 1 and not a_some[0].get("guard") and not (srcs(a_some[0]["body"]) - srcs(e["scrut"])):
                return cat(ev(e["scrut"], depth + 1), ev(a_none[0]["body"], depth + 1))
            return None
        return None

    return ev(b["body"])



# ------------------------------------------------------------------ SCOPE-ORDER

def rule_scope_order(prog):
    out = Out("SCOPE-ORDER")
    c = prog.lsp
    fc = prog.front
    # (1) LookupTable::lookup consults the local table first, the global one only as fallback
    lk = [b for b in fc.bodies if b["d"].startswith("table::LookupTable") and b["name"] == "lookup"]
    if len(lk) != 1:
        out.missing("table::LookupTable::lookup")
    else:
        b = lk[0]
        order = _lookup_priority(prog, fc, b)
        if order is None:
            ok, why = None, "the order in which the two tables decide the answer is not of a shape this rule follows"
        elif order == ["L", "G"]:
            ok, why = True, "a hit in the local table wins, the global table is the fallback"
        else:
            ok, why = False, "the answer is decided by the tables in the order %s (L = local, G = global): a local variable or parameter " \
                "no longer shadows a global declaration of the same name, or globals are not found at all" % order
        out.add("table::LookupTable::lookup", "local table is consulted before the global table", ok, fc.loc(b["sp"]), why, ("order",))
    # (2) inside a procedure context the cursor identifier is resolved through a LookupTable built from that procedure
    n_sites = 0
    for b in feature_bodies(prog) + [x for x in fc.bodies if x["p"].startswith("spl_frontend::table::semantic")]:
        bc = b["_crate"]
        for n, parents in hir.walk(b["body"]):
            if n.get("k") != "MethodCall" or n["m"] != "lookup" or not n["args"]:
                continue
            key = hir.strip_ref(n["args"][0])
            kp = place(key) or ""
            recv_t = _recv_adt(bc, n)
            # procedure-context arm?
            proc_bind = None
            for pt in _ctx_pats(parents):
                if (GENTRY + "::Procedure") in hir.pat_variants_all(pt):
                    bs = list(hir.pat_bindings(pt))
                    if bs:
                        proc_bind = "%s#%s" % (bs[0]["name"], bs[0]["id"])
            if recv_t == LT:
                n_sites += 1
                # where was the LookupTable built? find the struct literal bound to the receiver local
                rp = place(n["recv"])
                lit = None
                for s in hir.nodes(b["body"], "Let"):
                    if s["pat"].get("k") == "Binding" and "%s#%s" % (s["pat"]["name"], s["pat"]["id"]) == rp and s.get("init"):
                        for st in hir.nodes(s["init"], "Struct"):
                            if st.get("adt") == LT:
                                lit = st
                if lit is None:
                    # receiver is a parameter (`table: &LookupTable`): provenance checked at the construction sites
                    out.add(b["d"], "lookup of `%s` goes through a LookupTable" % kp.split("#")[0], True, bc.loc(n["sp"]), "", ("site",))
                    continue
                f = {x["name"]: x["e"] for x in lit["fields"]}
                lt = hir.strip(f.get("local_table", {}))
                ok = None
                src = None
                if lt.get("k") == "Call" and hir.path_def(lt["f"]) and last(hir.path_def(lt["f"]).get("ctor_of", "")) == "Some":
                    src = place(lt["args"][0])
                    if proc_bind is not None:
                        ok = src == proc_bind + ".local_table"
                    else:
                        ok = (src or "").endswith(".local_table")
                elif lt.get("k") == "Call" and (hir.callee_display(lt) or "").endswith("get_local_table"):
                    ok = True
                    src = "get_local_table(..)"
                elif lt.get("k") == "Path" and last(lt["res"].get("ctor_of", "")) == "None":
                    has_proc = proc_bind is not None or any(
                        hir.adt_path(bc, pp["bt"]) in ("spl_frontend::ast::ProcedureDeclaration", "spl_frontend::table::ProcedureEntry")
                        for q in b["params"] for pp in hir.pat_bindings(q))
                    ok = not has_proc
                    src = "None"
                    if has_proc:
                        # a global-only table next to the scoped one that is consulted only where the position admits nothing but a
                        # global entity (decided like the literal clause below)
                        for y_, yps_ in hir.walk(b["body"]):
                            if y_ is lit:
                                og_ = _only_used_in_global_position(prog, b, lit, yps_)
                                ok = True if og_ else (None if og_ is None else False)
                out.add(b["d"], "LookupTable for `%s` is built from the enclosing procedure's local table" % kp.split("#")[0],
                        ok, bc.loc(n["sp"]), "local_table = %s, procedure context = %s" % (src, proc_bind), ("site",))
            elif recv_t == GT and (proc_bind is not None or _in_ctx(parents, GENTRY + "::Procedure")) and _is_cursor_ident(bc, n["args"][0]):
                n_sites += 1
                out.add(b["d"], "cursor identifier is not resolved against the global table inside a procedure", False,
                        bc.loc(n["sp"]),
                        "inside the context of procedure `%s` the identifier under the cursor is looked up directly in the "
                        "global table: locals and parameters no longer shadow globals" % (proc_bind or "_").split("#")[0], ("site",))
    # every LookupTable literal (also those only handed on to helpers)
    for b in feature_bodies(prog) + [x for x in fc.bodies if x["p"].startswith("spl_frontend::table::semantic")]:
        bc = b["_crate"]
        for st, parents in hir.walk(b["body"]):
            if st.get("k") != "Struct" or st.get("adt") != LT:
                continue
            f = {x["name"]: x["e"] for x in st["fields"]}
            lt = hir.strip(f.get("local_table", {}))
            proc_here = _in_ctx(parents, GENTRY + "::Procedure") or any(
                hir.adt_path(bc, pp["bt"]) in ("spl_frontend::ast::ProcedureDeclaration", "spl_frontend::table::ProcedureEntry")
                for q in b["params"] for pp in hir.pat_bindings(q))
            is_none = lt.get("k") == "Path" and last(lt["res"].get("ctor_of", "")) == "None"
            n_sites += 1
            undec = False
            if is_none and proc_here:
                og = _only_used_in_global_position(prog, b, st, parents)
                if og:
                    # a global-only table next to the scoped one, consulted only where the syntactic position (type expression)
                    # admits nothing but a global entity: that is what SPL scoping asks for (clause `position` below)
                    is_none = False
                elif og is None:
                    undec = True   # chosen by a `match` on a position classification this rule cannot orient
            out.add(b["d"], "LookupTable literal carries the local table of the procedure in scope", None if undec else not (is_none and proc_here),
                    bc.loc(st["sp"]), "a LookupTable without local table is built where a procedure is in scope: its parameters "
                    "and variables are invisible to whatever is resolved or proposed through it", ("literal",))
    # the test that tells a "global name" position from the token in front of the identifier names only tokens behind which nothing
    # but a global entity can stand (`:`, `of`, `proc`, `type`).  A token that also precedes identifiers in statements and expressions
    # (`=`, `:=`, `(`, `,`, an operator ..) takes the local scope away from variables and parameters in ordinary code
    EXPR_TOKENS = {"Eq", "Neq", "Lt", "Le", "Gt", "Ge", "Plus", "Minus", "Times", "Divide", "Assign", "LParen", "LBracket", "Comma", "Semic",
                   "LCurly", "RCurly", "RParen", "RBracket", "If", "While", "Else"}
    for b in feature_bodies(prog):
        for x in hir.nodes(b["body"]):
            pats = [a["pat"] for a in x["arms"]] if x.get("k") == "Match" else [x["pat"]] if x.get("k") == "LetExpr" else []
            for pt in pats:
                vs = {last(v) for v in hir.pat_variants_all(pt) if v.startswith(TT_)}
                if not {"Colon", "Of"} <= vs:
                    continue
                extra = sorted(vs & EXPR_TOKENS)
                out.add(b["d"], "a global-name position is recognised only by tokens that cannot stand in front of a local name", not extra,
                        b["_crate"].loc(x["sp"]), "the position test accepts %s in front of the identifier: inside a procedure that token also "
                        "precedes variables and parameters (`if (i = j)`), whose occurrences there are then resolved without the local scope - "
                        "go-to, hover, references and rename answer nothing or the wrong entity for them" % ", ".join(extra), ("position", "postokens"))
    # find_referenced_identifiers: global-first resolution (a GlobalTable lookup of the cursor ident anywhere in a
    # function that also has the procedure's local table at hand)
    for b in feature_bodies(prog):
        bc = b["_crate"]
        has_local = any(x.get("k") == "Field" and x["name"] == "local_table" for x in hir.nodes(b["body"]))
        if not has_local:
            continue
        for n, parents in hir.walk(b["body"]):
            if n.get("k") == "MethodCall" and n["m"] == "lookup" and n["args"] and _recv_adt(bc, n) == GT:
                kp = place(hir.strip_ref(n["args"][0])) or ""
                in_proc_arm = _in_ctx(parents, GENTRY + "::Procedure")
                is_cur = _is_cursor_ident(bc, n["args"][0])
                if is_cur and in_proc_arm:
                    continue  # already reported above
                if is_cur and not _in_ctx(parents, GENTRY + "::Type"):
                    n_sites += 1
                    out.add(b["d"], "cursor identifier is not resolved against the global table where a local table is in scope",
                            False, bc.loc(n["sp"]), "global lookup of the cursor identifier next to a procedure's local table", ("site",))
    # (3b) the scope a declaration's *type expression* is resolved in (frozen from the SPL scoping the front end implements:
    #      type declarations and parameter types see the global scope only - earlier parameters must not shadow a type
    #      name in a later parameter's type; local variable types are resolved inside the procedure scope)
    TYPE_SCOPE = {"TypeDeclaration": "None", "ParameterDeclaration": "None", "VariableDeclaration": "Some"}
    resolvers = set()
    for b in fc.bodies:
        if b["k"] == "fn" and "sig_in" in b and b["p"].startswith("spl_frontend::table::"):
            ins = [fc.tstr(t) for t in b["sig_in"]]
            if "DataType" in fc.tstr(b["sig_out"]) and any("LookupTable" in i for i in ins) and any("TypeExpression" in i for i in ins):
                resolvers.add(b["p"])
    # a helper that puts the LookupTable together from an `Option<&LocalTable>` it is handed and calls a resolver: the scope is decided
    # where the helper is called (`local_data_type(.., None)` / `local_data_type(.., Some(local_table))`)
    wrappers = {}
    for b in fc.bodies:
        if b["k"] != "fn" or not b["p"].startswith("spl_frontend::table::") or b["p"] in resolvers:
            continue
        pidx_ = {bd["id"]: i_ for i_, q in enumerate(b["params"]) for bd in hir.pat_bindings(q)
                 if "LocalTable" in fc.tstr(bd["bt"]) and "Option<" in fc.tstr(bd["bt"])}
        if not pidx_:
            continue
        for lit_ in hir.nodes(b["body"], "Struct"):
            if lit_.get("adt") != LT:
                continue
            f_ = {x["name"]: x["e"] for x in lit_["fields"]}
            pl_ = hir.path_local(hir.strip(f_.get("local_table", {})))
            if pl_ and pl_["id"] in pidx_ and any((hir.callee(cl_) or "") in resolvers for cl_ in hir.nodes(b["body"], "Call")):
                wrappers[b["p"]] = pidx_[pl_["id"]]
    n_ts = 0
    for b in fc.bodies:
        if not b["p"].startswith("spl_frontend::table::") or b["p"] in resolvers or b["p"] in wrappers:
            continue
        owner = None
        if "impl_self" in b:
            st = fc.ty(b["impl_self"])
            if st["k"] == "adt" and last(st["p"]) in TYPE_SCOPE:
                owner = last(st["p"])
        for q in b["params"]:
            for pp in hir.pat_bindings(q):
                t = fc.tstr(pp["bt"])
                for k_ in TYPE_SCOPE:
                    if "ast::" + k_ in t:
                        owner = k_
        defs_ = {}
        for l in hir.nodes(b["body"], "Let"):
            if l["pat"].get("k") == "Binding" and l.get("init") is not None:
                defs_[l["pat"]["id"]] = l["init"]
        for call in hir.nodes(b["body"], "Call"):
            if (hir.callee(call) or "") in wrappers and owner is not None:
                j_ = wrappers[hir.callee(call)]
                a_ = hir.strip(call["args"][j_]) if j_ < len(call["args"]) else {}
                found = "?"
                if a_.get("k") == "Path" and last(a_["res"].get("ctor_of", "")) == "None":
                    found = "None"
                elif a_.get("k") == "Call" and hir.path_def(a_["f"]) and last(hir.path_def(a_["f"]).get("ctor_of", "")) == "Some":
                    found = "Some"
                n_ts += 1
                out.add(b["d"], "type expression of a %s is resolved in the %s scope" % (owner, "procedure" if TYPE_SCOPE[owner] == "Some" else "global"),
                        (found == TYPE_SCOPE[owner]) if found != "?" else None, fc.loc(call["sp"]),
                        "the local table handed to `%s` is %s(..) here: %s" % (last(hir.callee(call)), found,
                            "an earlier parameter / local named like a type shadows the type in this declaration's type expression, "
                            "so a valid program gets a `not a type` diagnostic" if found == "Some" else
                            "a local declaration cannot see the procedure's scope"), ("typescope",))
                continue
            if (hir.callee(call) or "") not in resolvers:
                continue
            lit = None
            for a in call["args"]:
                a_ = hir.strip_ref(a)
                pl = hir.path_local(a_)
                if pl and pl["id"] in defs_:
                    a_ = hir.strip_ref(defs_[pl["id"]])
                if a_.get("k") == "Struct" and a_.get("adt") == LT:
                    lit = a_
            if owner is None:
                continue
            n_ts += 1
            ok = None
            found = "?"
            if lit is not None:
                f = {x["name"]: x["e"] for x in lit["fields"]}
                lt = hir.strip(f.get("local_table", {}))
                if lt.get("k") == "Path" and last(lt["res"].get("ctor_of", "")) == "None":
                    found = "None"
                elif lt.get("k") == "Call" and hir.path_def(lt["f"]) and last(hir.path_def(lt["f"]).get("ctor_of", "")) == "Some":
                    found = "Some"
                if found != "?":
                    ok = found == TYPE_SCOPE[owner]
            out.add(b["d"], "type expression of a %s is resolved in the %s scope" % (owner, "procedure" if TYPE_SCOPE[owner] == "Some" else "global"),
                    ok, fc.loc(call["sp"]), "LookupTable.local_table is %s(..) here: %s" % (
                        found, "an earlier parameter / local named like a type shadows the type in this declaration's type expression, "
                        "so a valid program gets a `not a type` diagnostic" if found == "Some" else
                        "a local declaration cannot see the procedure's scope"), ("typescope",))
    if n_ts < 3:
        out.missing("type-expression resolution sites in table::build (found %d)" % n_ts)
    # (4) while a LookupTable with the procedure's local table is in scope, nothing is resolved directly against the
    #     global table - except the creator of an array type, which always names a global type declaration
    for b in feature_bodies(prog):
        bc = b["_crate"]
        for blk in hir.nodes(b["body"], "Block"):
            live_from = None
            for i, st in enumerate(blk["stmts"]):
                if st.get("k") == "Let" and st.get("init") is not None:
                    for lit in hir.nodes(st["init"], "Struct"):
                        if lit.get("adt") == LT:
                            f = {x["name"]: x["e"] for x in lit["fields"]}
                            ltv = hir.strip(f.get("local_table", {}))
                            if not (ltv.get("k") == "Path" and last(ltv["res"].get("ctor_of", "")) == "None"):
                                live_from = i
                                break
                if live_from is not None:
                    break
            if live_from is None:
                continue
            rest = blk["stmts"][live_from + 1:] + ([blk["expr"]] if blk.get("expr") else [])
            for st in rest:
                for lk in hir.nodes(st, "MethodCall"):
                    if lk["m"] != "lookup" or not lk["args"]:
                        continue
                    kl = hir.path_local(hir.strip_ref(lk["args"][0]))
                    is_creator = bool(kl) and kl["name"] == "creator"
                    recv_t = _recv_adt(bc, lk)
                    if is_creator:
                        n_sites += 1
                        out.add(b["d"], "the creator of an array type is resolved against the global table", recv_t == GT, bc.loc(lk["sp"]),
                                "DataType::Array.creator names a global type declaration; resolved through the scoped table a local "
                                "variable or parameter of the same name hides it", ("site",))
                    elif recv_t == GT:
                        n_sites += 1
                        out.add(b["d"], "no direct global lookup while the procedure's LookupTable is in scope", False, bc.loc(lk["sp"]),
                                "a name inside a procedure is looked up in the global table although a LookupTable with the "
                                "procedure's local table is at hand: locals and parameters no longer shadow globals", ("site",))
    # (4b) DataType::Array.creator is the name of a type declaration *or*, for an anonymous array, the variable's own name: before a
    #      handler looks the creator up it rules the anonymous case out by looking at the declared type expression (ArrayType)
    for b in feature_bodies(prog):
        bc = b["_crate"]
        for lk, parents in hir.walk(b["body"]):
            if lk.get("k") != "MethodCall" or lk["m"] != "lookup" or not lk["args"]:
                continue
            kl = hir.path_local(hir.strip_ref(lk["args"][0]))
            if not (kl and kl["name"] == "creator"):
                continue
            ruled_out = False
            chain = list(parents) + [lk]
            for i_, pr in enumerate(chain[:-1]):
                if pr.get("k") != "Block":
                    continue
                kids = list(pr["stmts"]) + ([pr["expr"]] if pr.get("expr") else [])
                idx = [j for j, k_ in enumerate(kids) if k_ is chain[i_ + 1]]
                for k_ in kids[:idx[0]] if idx else []:
                    iff = hir.strip(hir.stmt_inner(k_) or k_) if k_.get("k") in ("Semi", "Expr") else hir.strip(k_)
                    if iff.get("k") == "If" and any(True for _ in hir.nodes(iff["then"], "Ret")):
                        for m_ in hir.nodes_deep(prog, iff["cond"], 4, crate=bc, values=True):
                            pats = [a_["pat"] for a_ in m_["arms"]] if m_.get("k") == "Match" else [m_["pat"]] if m_.get("k") in ("LetExpr", "Let") and m_.get("pat") else []
                            if any(v.endswith("ast::TypeExpression::ArrayType") for pt in pats for v in hir.pat_variants_all(pt)):
                                ruled_out = True
            n_sites += 1
            out.add(b["d"], "an anonymous array (creator = the variable itself) is ruled out before the creator is looked up", ruled_out,
                    bc.loc(lk["sp"]), "for `var x: array [3] of int` the creator is `x`; looked up in the global table it finds an unrelated "
                    "`type x` (or the predefined `int` for a variable named int): go-to-type-definition answers with a wrong declaration", ("site",))
    # (5) the semantic analysis of a procedure body receives the scoped LookupTable: a function that has one as parameter
    #     never resolves a name directly against the global table
    for b in fc.bodies:
        if not b["p"].startswith("spl_frontend::table::semantic") or "/tests" in fc.file_of(b["sp"]):
            continue
        has_lt = any(hir.adt_path(fc, pp["bt"]) == LT for q in b["params"] for pp in hir.pat_bindings(q))
        if not has_lt:
            continue
        for lk in hir.nodes(b["body"], "MethodCall"):
            if lk["m"] != "lookup" or not lk["args"]:
                continue
            recv_t = _recv_adt(fc, lk)
            if recv_t in (GT, LT):
                n_sites += 1
                out.add(b["d"], "names in a procedure body are resolved through the scoped LookupTable", recv_t == LT, fc.loc(lk["sp"]),
                        "the analysis has the procedure's LookupTable but asks the global table directly: a local variable or parameter "
                        "of that name no longer shadows the global declaration (wrong or missing diagnostic)", ("site", "semantic"))
    # (5b) the entry a declaration is analysed with is its own: where the analysis fetches the procedure entry *by the name* of the
    #      declaration at hand and takes its local table, it first makes sure the entry was built from this very declaration (ranges
    #      compared) - a redeclaration finds the first declaration's entry under its name
    for b in fc.bodies:
        if not b["p"].startswith("spl_frontend::table::semantic") or "/tests" in fc.file_of(b["sp"]):
            continue
        for st, parents in hir.walk(b["body"]):
            if st.get("k") != "Struct" or st.get("adt") != LT:
                continue
            f = {x["name"]: x["e"] for x in st["fields"]}
            src = [x for x in hir.nodes(f.get("local_table", {})) if x.get("k") == "Field" and x["name"] == "local_table"]
            if not src:
                continue
            ent = hir.path_local(hir.strip_ref(src[0]["base"]))
            if not ent:
                continue
            # the entry binding comes from a by-name lookup?
            by_name = False
            for n2 in hir.nodes(b["body"], "MethodCall"):
                if n2["m"] == "lookup" and n2["args"] and _recv_adt(fc, n2) == GT:
                    kp2 = place(hir.strip_ref(n2["args"][0])) or ""
                    if kp2.endswith(".value"):
                        by_name = True
            if not by_name:
                continue
            guarded = False
            for pr_ in parents:
                pass
            # (the comparison may sit in a small predicate: `if is_redeclaration(procedure, offset, entry) { return; }`)
            b_inl = hir.inline_calls(prog, b["body"], fc, depth=2)
            for iff in list(hir.nodes(b["body"], "If")) + list(hir.nodes(b_inl, "If")):
                for bn in hir.nodes(iff["cond"], "Binary"):
                    if bn["op"] in ("!=", "==", "Ne", "Eq"):
                        sides = [bn["l"], bn["r"]]
                        has_entry_range = any(x.get("k") == "Field" and x["name"] == "range" and (hir.path_local(hir.strip_ref(x["base"])) or {}).get("id") == ent["id"]
                                              for sd in sides for x in hir.nodes(sd))
                        has_decl_range = any(x.get("k") == "MethodCall" and x["m"] in ("to_range", "to_text_range") for sd in sides for x in hir.nodes(sd)) or \
                            any(x.get("k") == "Field" and x["name"] == "offset" for sd in sides for x in hir.nodes(sd))
                        if has_entry_range and has_decl_range:
                            guarded = True
            n_sites += 1
            out.add(b["d"], "a procedure body is analysed with the entry built from this very declaration", guarded, fc.loc(st["sp"]),
                    "the entry is fetched by the declaration's name and its local table is used unchecked: the body of a redeclared procedure "
                    "(`proc p(a: int) {}  proc p(b: int) { b := 1; }`) is checked against the first declaration's parameters and variables and "
                    "gets spurious `undefined variable` diagnostics besides the redeclaration error", ("site", "semantic"))
    # (3c) type identity: every array type expression creates a new type.  The creator of the anonymous array type of a parameter /
    #      variable must not be derived from the declaration's own name alone (two declarations of the same name in different
    #      procedures, or a type declaration of that name, would then be the *same* type and a prescribed mismatch goes unreported)
    for b in fc.bodies:
        if not b["p"].startswith("spl_frontend::table::") or b["p"] in resolvers:
            continue
        owner = None
        decl_ids = set()
        for q in b["params"]:
            for pp in hir.pat_bindings(q):
                t = fc.tstr(pp["bt"])
                for k_ in ("ParameterDeclaration", "VariableDeclaration"):
                    if "ast::" + k_ in t:
                        owner = k_
                        decl_ids.add(pp["id"])
        if owner is None:
            continue
        param_ids = {pp["id"] for q in b["params"] for pp in hir.pat_bindings(q)}
        for call in hir.nodes(b["body"], "Call"):
            if (hir.callee(call) or "") not in resolvers:
                continue
            # the creator argument: neither the type expression nor the table
            cands = []
            for a in call["args"]:
                ts = fc.tstr(a["t"])
                if "TypeExpression" in ts or "LookupTable" in ts:
                    continue
                cands.append(a)
            if len(cands) != 1:
                continue
            srcs = _value_sources(prog, cands[0], fc)
            outside = (srcs & param_ids) - decl_ids
            n_ts += 1
            out.add(b["d"], "the anonymous array type of a %s gets an identity of its own" % owner, bool(outside), fc.loc(call["sp"]),
                    "the creator handed to the type resolver is computed from the declaration alone (its name): `ref a: array [3] of int` in one "
                    "procedure and `var a: array [3] of int` in another are then the same type and `p(a)` is not reported as a type mismatch",
                    ("typescope", "typeident"))
    # (6) position: types are global entities only and a procedure is not in its own local table.  A handler that resolves a *raw
    #     identifier token* (cursor identifier, token of the stream) through the scoped table must first tell the syntactic position:
    #     in a type position (`x: T`, `array [n] of T`) the table builder binds the name in the global scope, so a parameter or
    #     variable of the same name must not capture it.  Necessary condition decided here: what controls the lookup (conditions,
    #     guards and the values computed before it - followed into local callees and, for a helper, into its callers) inspects the
    #     token kinds `:` and `of` (or the NamedType node of the AST); a cursor lookup also the `proc` keyword in front of a header name.
    n_pos = 0
    cmap = hir.callers_map(prog, "lsp4spl")
    for b in feature_bodies(prog):
        bc = b["_crate"]
        for n, parents in hir.walk(b["body"]):
            if n.get("k") != "MethodCall" or n["m"] != "lookup" or not n["args"] or _recv_adt(bc, n) != LT:
                continue
            cursor = _is_cursor_ident(bc, n["args"][0])
            kl = hir.path_local(hir.strip_ref(n["args"][0]))
            raw_tok = False
            if kl:
                for pt in _ctx_pats(parents):
                    if any(x["id"] == kl["id"] for x in hir.pat_bindings(pt)) and \
                            any(v.endswith("tokens::TokenType::Ident") for v in hir.pat_variants_all(pt)):
                        raw_tok = True
            if not (cursor or raw_tok):
                continue
            ms = _position_markers_at(prog, b, n, parents, cmap, 2)
            n_pos += 1
            type_ok = {"Colon", "Of"} <= ms or "NamedType" in ms
            out.add(b["d"], "an identifier in type position is not captured by the local scope", type_ok, bc.loc(n["sp"]),
                    "the raw identifier is resolved locals-first and nothing that controls this lookup tells a type position (`:` / `of` in "
                    "front of the identifier, or the NamedType node) from a variable position (found: %s): in `proc p(a: a)` / `var a: a` the "
                    "type name is answered with the parameter / variable of the same name" % (", ".join(sorted(ms)) or "no position test"),
                    ("site", "position"))
            if type_ok:
                eff = _position_effect(prog, b, n, parents, cmap, 2)
                n_pos += 1
                out.add(b["d"], "where the position test answers `global entity`, the local scope is left out", eff, bc.loc(n["sp"]),
                        "a test for the type position exists, but the branch it guards still carries the procedure's local table (no empty / "
                        "absent local table, no global lookup there): the test has no effect on the scope the identifier is resolved in",
                        ("site", "position"))
            if cursor:
                n_pos += 1
                out.add(b["d"], "the name in a procedure header is not captured by a parameter or variable of the same name",
                        "Proc" in ms or "HeaderName" in ms, bc.loc(n["sp"]),
                        "in `proc a(a: int)` the declared name `a` is resolved through the procedure's own local table and comes back as "
                        "the parameter: nothing that controls this lookup tells the header name (`proc` in front of it) apart",
                        ("site", "position"))
    if n_pos < 8:
        out.missing("scoped lookups of raw identifier tokens in feature handlers (found %d)" % n_pos)
    # (6b) index origin: a token index found by searching a slice (`X.iter().position(..)`, `X.iter().enumerate()`) is an index *into X*.
    #      Where it is handed to a function together with a token slice S (which that function indexes), X and S are the same slice -
    #      an index into `tokens[p.range]` says nothing about `tokens`
    def slice_sig(e):
        e = hir.strip_ref(e)
        while e.get("k") == "MethodCall" and e["m"] in ("iter", "as_slice", "as_ref", "into_iter", "clone", "borrow", "deref") and not e["args"]:
            e = hir.strip_ref(e["recv"])
        if e.get("k") == "Index":
            idx = hir.strip(e["idx"])
            rsig = "[%s]" % ",".join(sorted((place(hir.strip_ref(f["e"])) or hir.callee_display(hir.strip(f["e"])) or "?") for f in idx.get("fields", [])) or ["?"])
            b_ = slice_sig(e["base"])
            return (b_[0] + rsig) if b_ else None
        pl = place(e)
        return (pl,) if pl else None
    n_idx = 0
    for b in feature_bodies(prog):
        bc = b["_crate"]
        fed = {}    # binding id -> slice signature of the searched slice
        for mc, parents in hir.walk(b["body"]):
            if mc.get("k") != "MethodCall" or mc["m"] not in ("position", "rposition", "enumerate"):
                continue
            if "Token" not in bc.tstr(hir.strip(mc["recv"])["t"]):
                continue
            sig = slice_sig(mc["recv"])
            if sig is None:
                continue
            # bindings fed by this search: closure parameters of the adaptors applied to it, patterns it is matched / bound with
            chain = list(parents)
            child = mc
            for pr in reversed(chain):
                if pr.get("k") == "MethodCall" and any(x is child for x in hir.nodes(pr["recv"])):
                    for a_ in pr["args"]:
                        a_ = hir.strip(a_)
                        if a_.get("k") == "Closure":
                            for q in a_["params"]:
                                for bd in hir.pat_bindings(q):
                                    if "usize" in bc.tstr(bd["bt"]):
                                        fed[bd["id"]] = sig
                    child = pr
                elif pr.get("k") in ("LetExpr", "Let") and pr.get("init") is not None and any(x is mc for x in hir.nodes(pr["init"])):
                    for bd in hir.pat_bindings(pr["pat"]):
                        if "usize" in bc.tstr(bd["bt"]):
                            fed[bd["id"]] = sig
                    break
                elif pr.get("k") in ("Block", "Closure"):
                    break
        if not fed:
            continue
        for call in hir.nodes(b["body"], "Call"):
            hb = hir.local_callee_body(prog, call)
            if hb is None or hb["_crate"] is not bc:
                continue
            idx_args = [a_ for a_ in call["args"] if (hir.path_local(hir.strip_ref(a_)) or {}).get("id") in fed]
            sl_args = [a_ for a_ in call["args"] if "[spl_frontend::tokens::Token]" in bc.tstr(a_["t"]).replace("tokens::Token", "spl_frontend::tokens::Token").replace("spl_frontend::spl_frontend::", "spl_frontend::")
                       or "Vec<" in bc.tstr(a_["t"]) and "Token" in bc.tstr(a_["t"])]
            if not idx_args or not sl_args:
                continue
            want = fed[hir.path_local(hir.strip_ref(idx_args[0]))["id"]]
            got = slice_sig(sl_args[0])
            n_idx += 1
            n_sites += 1
            out.add(b["d"], "a token index is used with the slice it was found in", None if got is None else got == want, bc.loc(call["sp"]),
                    "the index was found in `%s` but is handed on together with `%s`: it is off by the start of the searched slice - wrong for "
                    "every declaration but the first" % ("".join(want).split("#")[0], "".join(got or ("?",)).split("#")[0]), ("site", "position"))
    # (7) preempt: the binding of the cursor identifier is decided by the scoped lookup, not by comparing its text with the name of the
    #     enclosing procedure first (a variable named like its procedure is a legal local that shadows the procedure)
    for b in feature_bodies(prog):
        bc = b["_crate"]
        lks = [n for n in hir.nodes(b["body"], "MethodCall") if n["m"] == "lookup" and n["args"] and _recv_adt(bc, n) == LT
               and _is_cursor_ident(bc, n["args"][0])]
        if not lks:
            continue
        kp = place(hir.strip_ref(lks[0]["args"][0]))
        pre = None
        branches = [(x["cond"], x["then"], x) for x in hir.nodes(b["body"], "If")] + \
                   [(x["guard"], x["body"], x) for x in hir.nodes(b["body"], "Arm") if x.get("guard") is not None]
        for cond, then, iff in branches:
            cmp_ = [x for x in hir.nodes(cond, "Binary") if x["op"] in ("Eq", "==") and
                    kp in (place(hir.strip_ref(x["l"])), place(hir.strip_ref(x["r"])))]
            if not cmp_:
                continue
            if any(x.get("k") == "Field" and x["name"] == "local_table" for x in hir.nodes(cond)) or \
                    any(x.get("k") == "MethodCall" and x["m"] == "lookup" for x in hir.nodes(cond)):
                continue
            then_has_lookup = any(x is l_ for x in hir.nodes(then) for l_ in lks)
            then_uses_key = any(place(hir.strip_ref(a)) == kp for x in hir.nodes(then, "Call") for a in x["args"])
            if not then_has_lookup and then_uses_key:
                pre = iff
        n_sites += 1
        out.add(b["d"], "the scoped lookup decides the binding of the cursor identifier (no name comparison in front of it)", pre is None,
                bc.loc((pre or lks[0])["sp"]),
                "the identifier's text is compared with a name and, on equality, resolved without the local table: a local variable or "
                "parameter that has the name of the enclosing procedure is answered as the procedure", ("site", "preempt"))
    if n_sites < 5:
        out.missing("LookupTable lookups in feature handlers (found %d)" % n_sites)
    return out


def _fmt_impl_has_helper(prog, c, helper_ps, node):
    """does `impl Format for <node>` (one level of local helpers deep) apply a comment helper or print a raw token slice?"""
    for b in c.bodies:
        if not (b["p"].startswith("lsp4spl::features::formatting") and b["name"] == "fmt" and "impl_self" in b):
            continue
        st = c.ty(b["impl_self"])
        if not (st["k"] == "adt" and last(st["p"]) == node):
            continue
        for x in hir.nodes_deep(prog, b["body"], 1, crate=c):
            if x.get("k") == "Call" and (hir.callee(x) or "") in helper_ps:
                return True
    return False


def _value_sources(prog, e, crate, depth=2):
    """ids of the locals a value is computed from; an argument of a local helper counts only if the helper uses that parameter"""
    res = set()
    e = hir.strip(e)
    if e.get("k") in ("Call", "MethodCall"):
        hb = hir.local_callee_body(prog, e)
        args = ([e["recv"]] if e.get("recv") else []) + list(e.get("args") or [])
        if hb is not None and hb["_crate"] is crate and depth > 0 and len(hb["params"]) == len(args):
            for a, q in zip(args, hb["params"]):
                ids = {pp["id"] for pp in hir.pat_bindings(q)}
                used = any((hir.path_local(x) or {}).get("id") in ids for x in hir.nodes(hb["body"]))
                if used:
                    res |= _value_sources(prog, a, crate, depth - 1)
            return res
    pl = hir.path_local(e)
    if pl:
        res.add(pl["id"])
    for ch in hir.children(e):
        res |= _value_sources(prog, ch, crate, depth)
    return res


TT_ = "spl_frontend::tokens::TokenType::"


def _markers_in(prog, root, crate):
    """Which syntactic-position tests does `root` (followed three levels into local callees) make?"""
    ms = set()
    for n in hir.nodes_deep(prog, root, 6, crate=crate, values=True):
        pats = []
        k = n.get("k")
        if k == "Match":
            pats = [a["pat"] for a in n["arms"]]
        elif k == "LetExpr":
            pats = [n["pat"]]
        elif k == "Let" and n.get("els"):
            pats = [n["pat"]]
        for pt in pats:
            for v in hir.pat_variants_all(pt):
                if v.startswith(TT_):
                    ms.add(last(v))
                elif v.endswith("ast::TypeExpression::NamedType"):
                    ms.add("NamedType")
        if k == "Path" and n["res"].get("k") == "Def" and (n["res"].get("ctor_of") or "").startswith(TT_):
            ms.add(last(n["res"]["ctor_of"]))
        if k == "Binary" and n["op"] in ("Eq", "==", "Ne", "!="):
            # range of the cursor identifier compared with the range of a declaration's name
            def name_range(e):
                fs = [x for x in hir.nodes(e) if x.get("k") == "Field" and x["name"] == "name"]
                rg = [x for x in hir.nodes(e) if (x.get("k") == "Field" and x["name"] == "range") or
                      (x.get("k") == "MethodCall" and x["m"] in ("to_range", "to_text_range"))]
                return bool(fs) and bool(rg)
            if name_range(n["l"]) or name_range(n["r"]):
                ms.add("HeaderName")
    return ms


def _controls(b, node, parents, prog=None):
    """Expressions evaluated before `node` that can influence what it computes: preceding statements of the enclosing blocks,
    conditions / guards / scrutinees of the enclosing branches, receivers of enclosing method chains, and the node itself."""
    # the node's own operands (not the callee's body: what the callee does happens afterwards)
    res = list(node.get("args") or []) + ([node["recv"]] if node.get("recv") else [])
    chain = list(parents) + [node]
    for i, p in enumerate(chain[:-1]):
        nxt = chain[i + 1]
        k = p.get("k")
        if k == "Block":
            for s_ in p["stmts"]:
                if s_ is nxt:
                    break
                res.append(s_)
        elif k == "If" and nxt is not p.get("cond"):
            res.append(p["cond"])
        elif k == "Match" and nxt is not p.get("scrut"):
            res.append(p["scrut"])
        elif k == "Arm" and p.get("guard") is not None and nxt is not p["guard"]:
            res.append(p["guard"])
        elif k == "MethodCall" and nxt is not p.get("recv"):
            res.append(p["recv"])
        if prog is not None and k in ("Call", "MethodCall") and hir.strip(nxt).get("k") == "Closure":
            # the code stands in a closure that is handed to a local function (`locate(doctx, params, |uri, ident, scope, doc| ..)`):
            # what that function does before it calls the closure comes first
            hb = hir.local_callee_body(prog, p)
            if hb is not None and hb["_crate"] is b["_crate"]:
                res.append(hb["body"])
    return res


def _call_sites(prog, b, cmap):
    """(body, call node, parents) of every place where function b is invoked: direct calls, and - when b is handed to a local
    function as a function value (`goto(doctx, params, declared_at)`) - the calls of the receiving parameter inside that function."""
    bc = b["_crate"]
    res = []
    for cp in sorted(cmap.get(b["p"], set()) - {b["p"]}):
        cb = prog.body(cp)
        if cb is None or cb["_crate"] is not bc:
            continue
        for cn, cparents in hir.walk(cb["body"]):
            if cn.get("k") not in ("Call", "MethodCall"):
                continue
            if hir.callee(cn) == b["p"]:
                res.append((cb, cn, cparents))
                continue
            args_ = ([cn["recv"]] if cn.get("k") == "MethodCall" else []) + list(cn.get("args") or [])
            for j_, a_ in enumerate(args_):
                a_ = hir.strip(a_)
                if a_.get("k") == "Path" and a_["res"].get("k") == "Def" and (a_["res"].get("rp") or a_["res"].get("p")) == b["p"]:
                    hb = hir.local_callee_body(prog, cn)
                    if hb is None and cn.get("k") == "MethodCall" and cn["m"] in ("and_then", "map", "map_or", "map_or_else", "filter_map", "find_map", "then"):
                        # handed to a std combinator (`cursor.and_then(hover_at)`): invoked right there, with what the receiver holds
                        res.append((cb, cn, cparents))
                        continue
                    if hb is None or hb["_crate"] is not bc or j_ >= len(hb["params"]) or hb["params"][j_].get("k") != "Binding":
                        continue
                    pid = hb["params"][j_]["id"]
                    # async fns re-bind their parameters inside the coroutine (`let f = f;`)
                    ids = {pid}
                    for l_ in hir.nodes(hb["body"], "Let"):
                        if l_["pat"].get("k") == "Binding" and l_.get("init") is not None and (hir.path_local(hir.strip(l_["init"])) or {}).get("id") in ids:
                            ids.add(l_["pat"]["id"])
                    for n2, p2 in hir.walk(hb["body"]):
                        if n2.get("k") == "Call" and (hir.path_local(hir.strip(n2["f"])) or {}).get("id") in ids:
                            res.append((hb, n2, p2))
    return res


def _position_markers_at(prog, b, node, parents, cmap, depth):
    bc = b["_crate"]
    ms = set()
    for r in _controls(b, node, parents, prog):
        ms |= _markers_in(prog, r, bc)
    param_ids = {pp["id"] for q in b["params"] for pp in hir.pat_bindings(q)}
    operands = {(hir.path_local(x) or {}).get("id") for r in (list(node.get("args") or []) + ([node["recv"]] if node.get("recv") else []))
                for x in hir.nodes(r)}
    if depth > 0 and not (operands & param_ids):
        # (the operands may be taken out of a parameter first: `let ident = cursor.ident()?;`)
        defs_ = {}
        for l_ in hir.nodes(b["body"]):
            if l_.get("k") in ("Let", "LetExpr") and l_.get("init") is not None and l_.get("pat"):
                for bd in hir.pat_bindings(l_["pat"]):
                    defs_.setdefault(bd["id"], l_["init"])
        front, seen_ = set(operands), set()
        for _ in range(4):
            nxt_ = set()
            for i_ in front - seen_:
                seen_.add(i_)
                if i_ in defs_:
                    nxt_ |= {(hir.path_local(x) or {}).get("id") for x in hir.nodes(defs_[i_])}
            front = nxt_ - {None}
            operands = operands | front
    if depth > 0 and (operands & param_ids):
        # a helper that receives the identifier / the context: what its callers did before the call counts as well (all of them)
        per = []
        for cb, cn, cparents in _call_sites(prog, b, cmap):
            per.append(_position_markers_at(prog, cb, cn, cparents, cmap, depth - 1))
        if per:
            ms |= set.intersection(*per)
    return ms


def _drops_local_scope(prog, root, crate, none_tables):
    for x in hir.nodes_deep(prog, root, 1, crate=crate):
        k = x.get("k")
        if k == "Struct":
            for f in x["fields"]:
                if f["name"] == "local_table":
                    v = hir.strip(f["e"])
                    from_local = any(y.get("k") == "Field" and y["name"] == "local_table" for y in hir.nodes(v)) or \
                        any((hir.callee_display(y) or "").endswith("get_local_table") for y in hir.nodes(v, "Call"))
                    if not from_local:
                        return True
        elif k == "MethodCall" and x["m"] == "lookup" and _recv_adt(crate, x) == GT:
            return True
        elif k == "Path" and (hir.path_local(x) or {}).get("id") in none_tables:
            return True
    return False


def _position_effect(prog, b, node, parents, cmap, depth):
    """True / False / None: does a branch guarded by a type-position test drop the local scope?"""
    bc = b["_crate"]
    roots = list(_controls(b, node, parents, prog))
    param_ids = {pp["id"] for q in b["params"] for pp in hir.pat_bindings(q)}
    operands = {(hir.path_local(x) or {}).get("id") for r in (list(node.get("args") or []) + ([node["recv"]] if node.get("recv") else []))
                for x in hir.nodes(r)}
    if depth > 0 and (operands & param_ids):
        for cb, cn, cparents in _call_sites(prog, b, cmap):
            roots += _controls(cb, cn, cparents, prog)
    seen_guard = False
    for r in roots:
        all_nodes = list(hir.nodes_deep(prog, r, 5, crate=bc))
        none_tables = set()
        for x in all_nodes + list(hir.nodes(b["body"])):
            if x.get("k") == "Let" and x["pat"].get("k") == "Binding" and x.get("init") is not None:
                iv = hir.strip(x["init"])
                if iv.get("k") == "Struct" and iv.get("adt") == LT:
                    f = {y["name"]: y["e"] for y in iv["fields"]}
                    ltv = hir.strip(f.get("local_table", {}))
                    if ltv.get("k") == "Path" and last(ltv["res"].get("ctor_of", "")) == "None":
                        none_tables.add(x["pat"]["id"])
        for x in all_nodes:
            guarded = None
            if x.get("k") == "If":
                cond, guarded = x["cond"], x["then"]
                if hir.strip(cond).get("k") == "Unary":
                    guarded = x.get("else")
            elif x.get("k") == "Arm" and x.get("guard") is not None:
                cond, guarded = x["guard"], x["body"]
            else:
                continue
            ms = _markers_in(prog, cond, bc)
            if not ({"Colon", "Of"} <= ms or "NamedType" in ms) or guarded is None:
                continue
            # the guarded branch may only *classify* the position (`.. { Scopes::GlobalOnly } else { Scopes::LocalThenGlobal }`): the
            # effect then sits in the arm of a `match` on that classification
            gv = hir.strip(guarded)
            if gv.get("k") == "BlockExpr" and not gv["b"].get("stmts") and gv["b"].get("expr") is not None:
                gv = hir.strip(gv["b"]["expr"])
            if gv.get("k") == "Ret" and gv.get("e") is not None:
                gv = hir.strip(gv["e"])
            cls_variant = None
            if gv.get("k") == "Path" and str((gv.get("res") or {}).get("dk", "")).startswith("Ctor(Variant, Const)") and \
                    ((gv["res"].get("ctor_of") or "").startswith("lsp4spl::")):
                cls_variant = gv["res"]["ctor_of"]
            if cls_variant is not None:
                for r2 in roots:
                    for y in hir.nodes_deep(prog, r2, 5, crate=bc):
                        if y.get("k") == "Arm" and cls_variant in hir.pat_variants_all(y["pat"]) and _drops_local_scope(prog, y["body"], bc, none_tables):
                            return True
                continue
            seen_guard = True
            if _drops_local_scope(prog, guarded, bc, none_tables):
                return True
    return False if seen_guard else None


def _only_used_in_global_position(prog, b, lit, parents):
    """Is the LookupTable literal `lit` (bound to a local) consulted only in the then-branch of a test for a type position?"""
    bc = b["_crate"]
    let = None
    for p in reversed(parents):
        if p.get("k") == "Let" and p["pat"].get("k") == "Binding":
            let = p
            break
    uses = []
    # (the literal may be a field of a small struct that bundles the scoped and the global-only table: its uses are the reads of that
    # field, wherever they are)
    holder = None
    for p in reversed(parents):
        if p.get("k") == "Struct" and p is not lit and (p.get("adt") or "").startswith("lsp4spl::"):
            fl_ = [f_["name"] for f_ in p["fields"] if any(x_ is lit for x_ in hir.nodes(f_["e"]))]
            if len(fl_) == 1:
                holder = (p["adt"], fl_[0])
            break
        if p.get("k") == "Let":
            break
    if holder is not None:
        for y in bc.bodies:
            if "/tests" in bc.file_of(y["sp"]) or y["k"] == "closure":
                continue
            for n, ps in hir.walk(y["body"]):
                if n.get("k") == "Field" and n["name"] == holder[1]:
                    bt_ = hir.strip(n["base"])
                    t_ = hir.adt_path(bc, bt_["t"])
                    for ad_ in bt_.get("adj") or []:
                        t_ = hir.adt_path(bc, ad_["to"]) or t_
                    if t_ == holder[0]:
                        uses.append((y, n, ps))
    elif let is None:
        return False
    else:
        lid = let["pat"]["id"]
        uses = [(b, n, ps) for n, ps in hir.walk(b["body"]) if (hir.path_local(n) or {}).get("id") == lid]
    if not uses:
        return False
    unsure = False
    for b, n, ps in uses:
        ok = False
        chain = list(ps) + [n]
        for i, p in enumerate(chain[:-1]):
            if p.get("k") == "If" and chain[i + 1] is p.get("then"):
                ms = _markers_in(prog, p["cond"], bc)
                neg = hir.strip(p["cond"]).get("k") == "Unary"
                if not neg and ({"Colon", "Of"} <= ms or "NamedType" in ms):
                    ok = True
            if p.get("k") == "Match" and chain[i + 1] is not p.get("scrut"):
                # `match name_scope(tokens, index) { Global => &global_table, Enclosing => &scoped }`: the classification is an enum
                # computed by a local function; the arm is the type-position one if its variant is what that function answers
                # under its `:`/`of` test
                scrut_ = hir.strip(p["scrut"])
                # (the classification may be computed one statement earlier: `let scope = if names_global_entity(..) { Global } else { Local };`)
                spl_ = hir.path_local(scrut_)
                if spl_:
                    for l_ in hir.nodes(b["body"], "Let"):
                        if l_["pat"].get("k") == "Binding" and l_["pat"]["id"] == spl_["id"] and l_.get("init") is not None:
                            scrut_ = hir.strip(l_["init"])
                ms = _markers_in(prog, scrut_, bc)
                if not ({"Colon", "Of"} <= ms or "NamedType" in ms):
                    continue
                arm = chain[i + 1] if chain[i + 1].get("k") == "Arm" else None
                gv = _position_variant(prog, scrut_, bc)
                if gv is None and scrut_.get("k") == "If" and hir.strip(scrut_["cond"]).get("k") != "Unary":
                    t_ = hir.strip(scrut_["then"])
                    r_ = (t_.get("res") or {}) if t_.get("k") == "Path" else {}
                    if r_.get("k") == "Def" and str(r_.get("dk", "")).startswith("Ctor(Variant, Const)"):
                        gv = r_.get("ctor_of")
                if arm is None or gv is None:
                    unsure = True
                    ok = True
                    continue
                vs = hir.pat_variants_all(arm["pat"])
                if vs and all(v == gv for v in vs):
                    ok = True
        if not ok:
            return False
    return None if unsure else True


def _position_variant(prog, call, crate):
    """The unit enum variant a local classification function answers with where it sees `:` / `of` in front of the identifier."""
    if call.get("k") not in ("Call", "MethodCall"):
        return None
    hb = hir.local_callee_body(prog, call)
    if hb is None or hb["_crate"] is not crate:
        return None

    def variant_of(e):
        e = hir.strip(e)
        if e.get("k") == "Path":
            r = e.get("res") or {}
            if r.get("k") == "Def" and str(r.get("dk", "")).startswith("Ctor(Variant, Const)"):
                return r.get("ctor_of")
        return None
    found = set()
    for m in hir.nodes(hb["body"], "Match"):
        for arm in m["arms"]:
            ms = {last(v) for v in hir.pat_variants_all(arm["pat"]) if v.startswith(TT_)}
            if {"Colon", "Of"} <= ms:
                v = variant_of(arm["body"])
                if v:
                    found.add(v)
    for iff in hir.nodes(hb["body"], "If"):
        ms = _markers_in(prog, iff["cond"], crate)
        if {"Colon", "Of"} <= ms and hir.strip(iff["cond"]).get("k") != "Unary":
            v = variant_of(iff["then"])
            if v:
                found.add(v)
    return found.pop() if len(found) == 1 else None


# ------------------------------------------------------------------ ENTRY-GUARD / LOOKUP-NOPANIC / ENTRY-KIND

def _dominating_stmts(root, target):
    """Statements that precede (in every enclosing block) the statement containing `target`, plus enclosing arms/ifs."""
    res = []
    anc = None
    for n, parents in hir.walk(root):
        if n is target:
            anc = parents
            break
    if anc is None:
        return [], []
    chain = list(anc) + [target]
    for i, p in enumerate(chain[:-1]):
        if p.get("k") == "Block":
            nxt = chain[i + 1]
            for s in p["stmts"]:
                if s is nxt or any(x is nxt for x in hir.nodes(s)):
                    break
                res.append(s)
    return res, anc


def _returns_none(block):
    for r in hir.nodes(block, "Ret"):
        return True
    return False


def rule_entry_guard(prog):
    out = Out("ENTRY-GUARD")
    c = prog.lsp
    n = 0
    # a generic helper that turns its (type-parameter typed) argument into a text range: its call sites are the sites
    wrappers = {}
    for b in feature_bodies(prog):
        for call in hir.nodes(b["body"], "MethodCall"):
            if call["m"] != "to_text_range":
                continue
            rt = hir.peel(c, call["recv"]["t"])
            for a_ in hir.strip(call["recv"]).get("adj") or []:
                rt = hir.peel(c, a_["to"]) if hir.peel(c, a_["to"])["k"] in ("param", "adt") else rt
            rp = hir.path_local(hir.strip_ref(hir.strip(call["recv"])))
            if rt["k"] == "param" and rp:
                for j_, q_ in enumerate(b["params"]):
                    if q_.get("k") == "Binding" and q_["id"] == rp["id"]:
                        wrappers[b["p"]] = j_
    for b in feature_bodies(prog):
        sites = []
        for call in hir.nodes(b["body"]):
            if call.get("k") == "MethodCall" and call["m"] == "to_text_range":
                sites.append((call, call["recv"]))
            elif call.get("k") == "Call" and (hir.callee(call) or "") in wrappers and wrappers[hir.callee(call)] < len(call["args"]):
                sites.append((call, call["args"][wrappers[hir.callee(call)]]))
        for call, recv_ in sites:
            rt = hir.peel(c, hir.strip(recv_)["t"])
            for a_ in hir.strip(recv_).get("adj") or []:
                if hir.peel(c, a_["to"])["k"] == "adt":
                    rt = hir.peel(c, a_["to"])
            if rt["k"] != "adt" or not rt["p"].startswith("spl_frontend::table::"):
                continue
            n += 1
            ep = place(hir.strip_ref(hir.strip(recv_)))
            before, anc = _dominating_stmts(b["body"], call)
            guarded = None
            why = ""
            # (a) `<entry>.is_default()` early return, for this entry (possibly through a local bool)
            bools = {}
            for s in before:
                if s.get("k") == "Let" and s["pat"].get("k") == "Binding" and s.get("init") is not None:
                    bools[s["pat"]["id"]] = s["init"]
            for s in before:
                for iff in hir.nodes(s, "If"):
                    cond = hir.strip(iff["cond"])
                    pl_ = hir.path_local(cond)
                    if pl_ and pl_["id"] in bools:
                        cond = hir.strip(bools[pl_["id"]])
                    if cond.get("k") == "MethodCall" and cond["m"] == "is_default" and _returns_none(iff["then"]):
                        subj = hir.strip_ref(cond["recv"])
                        sp_ = place(subj)
                        if sp_ is None and subj.get("k") == "Call" and subj.get("args"):
                            sp_ = place(subj["args"][0])  # Entry::from(entry)
                        if sp_ == ep:
                            guarded, why = True, "is_default() early return"
            # (b) `ident.value == "int"` early return and the entry is known to be a type (int is the only predefined type)
            if guarded is None:
                int_ret = False
                for s in before:
                    for iff in hir.nodes(s, "If"):
                        cond = hir.strip(iff["cond"])
                        if cond.get("k") == "Binary" and cond["op"] == "==" and "int" in (hir.lit_value(cond["l"]), hir.lit_value(cond["r"])) \
                                and _returns_none(iff["then"]):
                            int_ret = True
                type_only = False
                for p in anc:
                    if p.get("k") == "Arm":
                        pvs = [hir.pat_variant(p["pat"]) or ""]
                        if hir.pat_strip(p["pat"]).get("k") == "Binding":      # `entry @ Entry::Type(_)`
                            pvs = hir.pat_variants_all(p["pat"])
                        if pvs and all(last(pv) == "Type" and pv.startswith("spl_frontend::table::") for pv in pvs):
                            # the arm must destructure *this* entry
                            type_only = True
                # (`let GlobalEntry::Type(t) = entry else { return None };` in front of the conversion establishes the same)
                for s in before:
                    if s.get("k") == "Let" and s.get("els") is not None and s.get("init") is not None:
                        pvs = hir.pat_variants_all(s["pat"])
                        if pvs and all(last(pv) == "Type" and pv.startswith("spl_frontend::table::") for pv in pvs) and \
                                place(hir.strip_ref(s["init"])) == ep:
                            type_only = True
                if int_ret and type_only:
                    guarded, why = True, "`int` early return in a type-only arm"
            # (c) combinator form: `lookup(..).filter(|entry| !entry.is_default()).map(|entry| .. entry.to_text_range(..))`
            if guarded is None:
                anc_l = list(anc)
                for i_, p_ in enumerate(anc_l):
                    if p_.get("k") != "Closure" or i_ == 0:
                        continue
                    par_ = anc_l[i_ - 1]
                    if par_.get("k") != "MethodCall" or par_["m"] not in ("map", "and_then", "filter_map", "map_or", "map_or_else"):
                        continue
                    pids_ = {bd["id"] for q_ in p_.get("params") or [] for bd in hir.pat_bindings(q_)}
                    if (hir.path_local(hir.strip_ref(hir.strip(recv_))) or {}).get("id") not in pids_:
                        continue
                    r_ = hir.strip(par_["recv"])
                    while r_.get("k") == "MethodCall":
                        if r_["m"] == "filter" and r_["args"] and hir.strip(r_["args"][0]).get("k") == "Closure":
                            fb_ = hir.strip(hir.strip(r_["args"][0])["body"])
                            if fb_.get("k") == "Unary" and str(fb_.get("op")) in ("!", "Not", "not") and any(
                                    x_.get("k") == "MethodCall" and x_["m"] == "is_default" for x_ in hir.nodes(fb_)):
                                guarded, why = True, "filter(!is_default()) in front of the conversion"
                        r_ = hir.strip(r_["recv"])
            # (an entry looked up by the creator of an array type is no exception: an anonymous array's creator is the variable's own
            #  name, which may coincide with a predefined entry such as `int`)
            out.add(b["d"], "location of entry `%s` is produced only for user declarations" % (ep or "?").split("#")[0],
                    bool(guarded), c.loc(call["sp"]),
                    why or "predefined entries (printi, int, ...) have the empty range 0..0: turning them into a location "
                    "yields a bogus range or indexes an empty token slice; the sibling handlers test is_default() first")
    if n == 0:
        out.missing("entry.to_text_range(..) sites in feature handlers")
    # go-to-type-definition: a name that is bound to a *type* is answered with that type's own declaration; a name bound to a variable
    # or parameter with the declaration its data type was created by.  One arm that takes both kinds computes one of the two for both
    # (for `type b = a;` the creator of b's data type is a).
    td = [b for b in c.bodies if b["p"].startswith("lsp4spl::features::goto") and "/tests" not in c.file_of(b["sp"]) and
          ("type_definition" in b["p"] or "type_def" in b["name"])]
    merged, n_arms = None, 0
    for b in td:
        for m_ in hir.nodes_deep(prog, b["body"], 2, crate=c):
            if m_.get("k") != "Match":
                continue
            for a_ in m_["arms"]:
                vs_ = {last(v_) for v_ in hir.pat_variants_all(a_["pat"]) if v_.startswith("spl_frontend::table::Entry::") or
                       v_.startswith("spl_frontend::table::GlobalEntry::")}
                if vs_:
                    n_arms += 1
                if "Type" in vs_ and vs_ & {"Variable", "Parameter"}:
                    merged = merged or (b, a_)
    if n_arms:
        out.add("features::goto::type_definition", "a type entry and a variable entry are answered by arms of their own", merged is None,
                c.loc(merged[1]["sp"]) if merged else "", "one arm takes `Entry::Type` together with `Entry::Variable` / `Entry::Parameter`: the type "
                "identifier is resolved through the creator of its data type like a variable - `type b = a;` answers the declaration of `a`, "
                "an alias of `int` answers nothing (%d arms looked at)" % n_arms, ("typeentry",))
    return out


def rule_lookup_nopanic(prog):
    """A table lookup driven by request data may fail: its result must not be unwrapped."""
    out = Out("LOOKUP-NOPANIC")
    c = prog.lsp
    n = 0
    for b in feature_bodies(prog):
        for call, parents in hir.walk(b["body"]):
            if call.get("k") != "MethodCall" or call["m"] != "lookup":
                continue
            rt = hir.peel(c, call["recv"]["t"])
            if rt["k"] != "adt" or not rt["p"].startswith("spl_frontend::table::"):
                continue
            n += 1
            # climb through element-preserving adaptors
            i = len(parents) - 1
            cur = call
            bad = None
            while i >= 0:
                p = parents[i]
                if p.get("k") == "MethodCall" and hir.strip(p["recv"]) is cur:
                    if p["m"] in ("expect", "unwrap"):
                        bad = p
                        break
                    if p["m"] in ("cloned", "copied", "as_ref", "map", "clone"):
                        cur = p
                        i -= 1
                        continue
                if p.get("k") in ("Paren", "AddrOf"):
                    cur = p
                    i -= 1
                    continue
                break
            out.add(b["d"], "result of lookup(%s) is not unwrapped" % (place(hir.strip_ref(call["args"][0])) or "..").split("#")[0],
                    bad is None, c.loc((bad or call)["sp"]),
                    "`lookup(..).%s(..)` panics when the name is not in the table; a panic in a handler kills the server"
                    % (bad["m"] if bad else ""))
        # explicit panic!/unreachable! in handlers on table data
        for m in hir.nodes(b["body"], "Match"):
            sc_t = hir.peel(c, m["scrut"]["t"])
            if sc_t["k"] == "adt" and sc_t["p"].startswith("spl_frontend::table::"):
                for arm in m["arms"]:
                    pan = [x for x in hir.nodes(arm["body"], "Call") if (hir.callee(x) or "").endswith("panicking::panic_fmt")
                           or (hir.callee(x) or "").endswith("panicking::panic")]
                    if pan:
                        n += 1
                        out.add(b["d"], "no panic on the kind of a looked-up entry", False, c.loc(arm["sp"]),
                                "a match on a table entry panics in one arm; which kind of entry a name resolves to depends on the document")
    if n == 0:
        out.missing("lookup sites in feature handlers")
    # a handler answers "nothing to report" with Ok(None) / an empty list.  An `Err` is what the reader loop propagates with `?`: it
    # ends the main phase, the request stays unanswered and the process exits.  The only errors a handler may return are the ones it
    # propagates from the document channel; it constructs none of its own from what it finds in the document or the request
    for b in feature_bodies(prog):
        if b["p"].startswith("lsp4spl::features::formatting::fmt"):
            continue
        for call in hir.nodes(b["body"], "Call"):
            d_ = hir.path_def(call["f"])
            if d_ and (d_.get("ctor_of") or "").endswith("result::Result::Err") and not any(
                    m_ in ("?", "try", "TryDesugar", "QuestionMark") for m_ in (call.get("mx") or [])):
                # `Err(report) => return Err(report)` / `Err(e.into())` hands an error on that came from somewhere else (the channel)
                a_ = hir.strip_ref(hir.strip(call["args"][0])) if call["args"] else {}
                while a_.get("k") == "MethodCall" and a_["m"] in ("into", "wrap_err", "wrap_err_with", "context", "with_context", "from"):
                    a_ = hir.strip_ref(hir.strip(a_["recv"]))
                if hir.path_local(a_):
                    continue
                out.add(b["d"], "a handler constructs no error of its own (an Err ends the reader loop)", False, c.loc(call["sp"]),
                        "`Err(..)` built in a feature handler: the server's dispatch propagates a handler error with `?`, so this request gets "
                        "no response, the main phase ends and every later request meets a closed pipe - for a condition that depends on "
                        "the document or the request (answer `Ok(None)` or an error *response* instead)", ("handler-err",))
    return out


def rule_entry_kind(prog):
    """Entry::is_default may only hold for global (type/procedure) entries: locals can legally shadow builtin names."""
    out = Out("ENTRY-KIND")
    fc = prog.front
    bs = [b for b in fc.bodies if b["name"] == "is_default" and "table" in b["p"]]
    if len(bs) != 1:
        out.missing("table::Entry::is_default")
        return out
    b = bs[0]
    tabs = match_tables(prog, b, ENTRY)
    if len(tabs) != 1:
        # no dispatch on the entry kind at all => the answer is the same for every kind, and it can be `true`
        mentions = False
        for x in hir.nodes(b["body"]):
            pats = []
            if x.get("k") == "Match":
                pats = [a["pat"] for a in x["arms"]]
            elif x.get("k") == "LetExpr":
                pats = [x["pat"]]
            for p_ in pats:
                for alt in hir.pat_alternatives(p_):
                    if (hir.pat_variant(alt) or "").startswith(ENTRY + "::"):
                        mentions = True
        from .rules_tables import eval_for_variant
        for kind in ("Variable", "Parameter"):
            # the answer for this kind, computed through helpers and early returns (`let Some(name) = self.global_name() else { return false }`)
            val = eval_for_variant(prog, b, ENTRY, kind)
            if val is False or str(val) == "False":
                out.add("table::Entry::is_default", "%s entries are never predefined" % kind, True, fc.loc(b["sp"]), "")
                continue
            out.add("table::Entry::is_default", "%s entries are never predefined" % kind, None if mentions else False, fc.loc(b["sp"]),
                    "is_default() does not distinguish entry kinds any more: a local variable or parameter that is named like "
                    "a builtin (`time`, `exit`, ...) counts as predefined and go-to returns nothing for it")
        return out
    m, table, default, has_default = tabs[0]
    for kind in ("Variable", "Parameter"):
        v = table.get(kind, default if has_default else None)
        out.add("table::Entry::is_default", "%s entries are never predefined" % kind, v is False, fc.loc(m["sp"]),
                "a local variable or parameter may legally be named like a builtin (`time`, `exit`, ...); treating it as "
                "predefined makes go-to return nothing for it")
    for kind in ("Type", "Procedure"):
        out.add("table::Entry::is_default", "%s entries are tested against DEFAULT_ENTRIES" % kind, kind in table and table[kind] is not False,
                fc.loc(m["sp"]), "")
    return out


# ------------------------------------------------------------------ LEN-UNITS

def _len_unit(c, e, _depth=0):
    """Unit of a length expression: 'byte' | 'char' | 'utf16' | None."""
    e = hir.strip(e)
    k = e.get("k")
    if k == "Cast":
        return _len_unit(c, e["e"])
    if k == "MethodCall":
        m = e["m"]
        d = e.get("d") or ""
        if m == "len":
            rt = hir.peel(c, e["recv"]["t"])
            for a in e["recv"].get("adj") or []:
                rt = hir.peel(c, a["to"])
            if rt["s"] in ("str",) or (rt["k"] == "adt" and rt["p"] == "alloc::string::String"):
                return "byte"
            if rt["k"] == "adt" and rt["p"] == "core::ops::range::Range":
                pl = place(e["recv"]) or ""
                if pl.endswith(".range") or ".range" in pl:
                    return "byte"   # Token.range / TextChange.range are byte ranges
            return None
        if m == "count":
            r = hir.strip(e["recv"])
            if r.get("k") == "MethodCall":
                if r["m"] in ("chars", "char_indices"):
                    return "char"
                if r["m"] == "encode_utf16":
                    return "utf16"
        if m == "len_utf16":
            return "utf16"
        if m == "len_utf8":
            return "byte"
        if m in ("try_into", "into", "unwrap", "expect", "try_from"):
            return _len_unit(c, e["recv"], _depth)
    if k == "Call":
        d = hir.callee(e) or ""
        if last(d) in ("from", "try_from") and e["args"]:
            return _len_unit(c, e["args"][0])
    if k in ("Call", "MethodCall") and _LEN_PROG.get("prog") is not None and _depth < 3:
        # a local helper that is nothing but a length computation (`fn utf16_length(token, text) -> u32 { text[..].encode_utf16().count().. }`)
        hb = hir.local_callee_body(_LEN_PROG["prog"], e)
        if hb is not None and hb["_crate"] is c and hb["k"] in ("fn", "assoc_fn"):
            hbody = hir.strip(hb["body"])      # (strip() removes a statement-less block)
            if hbody.get("k") != "BlockExpr":
                return _len_unit(c, hbody, _depth + 1)
    return None


_LEN_PROG = {}


def rule_len_units(prog):
    """Lengths in bytes, chars and UTF-16 units are all `usize`; mixing them is a defect for non-ASCII text."""
    out = Out("LEN-UNITS")
    _LEN_PROG["prog"] = prog
    n = 0
    for b in prog.bodies():
        c = b["_crate"]
        f = c.file_of(b["sp"])
        if "/tests" in f or b["k"] not in ("fn", "assoc_fn") or "_serde" in b["d"]:
            continue
        env = {}
        for l in hir.nodes(b["body"], "Let"):
            if l["pat"].get("k") == "Binding" and l.get("init"):
                init = hir.strip(l["init"])
                if init.get("k") == "BlockExpr":
                    # `let x: isize = { let a = ..; let b = ..; a - b }` handled through inner lets
                    pass
                u = _len_unit(c, init)
                if u:
                    env[l["pat"]["id"]] = u

        def unit(e):
            e = hir.strip(e)
            if e.get("k") == "Path" and e["res"].get("k") == "Local":
                return env.get(e["res"]["id"])
            return _len_unit(c, e)

        for x in hir.nodes(b["body"], "Binary"):
            if x["op"] not in ("+", "-", "==", "!=", "<", "<=", ">", ">="):
                continue
            ua, ub = unit(x["l"]), unit(x["r"])
            if ua and ub:
                n += 1
                out.add(b["d"], "`%s` combines lengths of one unit" % x["op"], ua == ub, c.loc(x["sp"]),
                        "left operand counts %ss, right operand counts %ss: equal only for ASCII text" % (ua, ub), ("arith",))
        # byte-range sinks: TextChange.range / String::replace_range take byte offsets
        for s in hir.nodes(b["body"], "Struct"):
            if (s.get("adt") or "") == "spl_frontend::TextChange":
                for fl in s["fields"]:
                    if fl["name"] == "range":
                        for r in hir.nodes(fl["e"], "Struct"):
                            if (r.get("adt") or "").startswith("core::ops::range::Range"):
                                for rf in r["fields"]:
                                    u = unit(rf["e"])
                                    if u:
                                        n += 1
                                        out.add(b["d"], "TextChange.range bounds are byte offsets", u == "byte", c.loc(r["sp"]),
                                                "a bound of the change range counts %ss; text ranges are byte ranges" % u, ("arith",))
        # LSP sinks: SemanticToken.length / delta_start must be UTF-16
        for s in hir.nodes(b["body"], "Struct"):
            if (s.get("adt") or "").endswith("lsp_types::semantic_tokens::SemanticToken"):
                for fl in s["fields"]:
                    if fl["name"] == "length":
                        u = unit(fl["e"])
                        # the text whose units are counted: when it is the text of the whole token range (`text[token.range]`), the
                        # line break that the lexer puts inside a comment token must be cut off first - a semantic token stays on its line
                        roots_, seen_l = [fl["e"]], set()
                        slices, trims = [], False
                        defs_l = {l_["pat"]["id"]: l_["init"] for l_ in hir.nodes(b["body"], "Let") if l_["pat"].get("k") == "Binding" and l_.get("init") is not None}
                        while roots_:
                            r_ = roots_.pop()
                            for x in hir.nodes_deep(prog, r_, 1, crate=c):
                                pl_ = hir.path_local(x) if x.get("k") == "Path" else None
                                if pl_ and pl_["id"] in defs_l and pl_["id"] not in seen_l:
                                    seen_l.add(pl_["id"])
                                    roots_.append(defs_l[pl_["id"]])
                                if x.get("k") == "Index" and "str" in c.tstr(hir.strip(x["base"])["t"]) + "".join(
                                        c.tstr(a_["to"]) for a_ in hir.strip(x["base"]).get("adj") or []) and any(
                                        f_.get("k") == "Field" and f_["name"] == "range" for f_ in hir.nodes(x["idx"])):
                                    slices.append(x)
                                if x.get("k") == "MethodCall" and x["m"] in ("trim_end_matches", "trim_end", "strip_suffix", "trim_matches", "lines", "trim"):
                                    trims = True
                        if slices:
                            n += 1
                            out.add(b["d"], "SemanticToken.length does not count the line break inside a comment token", trims, c.loc(slices[0]["sp"]),
                                    "the length is the number of units of `text[token.range]`; the range of a comment token includes the line break "
                                    "that ends it (Comment::lex), so the token of a comment reaches beyond its line - a multi-line token, which the "
                                    "server never negotiated", ("lsp", "eol"))
                        n += 1
                        out.add(b["d"], "SemanticToken.length counts UTF-16 code units", (u == "utf16") if u else None,
                                c.loc(s["sp"]), "the value stored counts %ss; LSP token lengths are UTF-16 code units, so any "
                                "non-ASCII comment or literal gets a wrong length" % u, ("lsp",))
    if n == 0:
        out.missing("length computations")
    return out


# ------------------------------------------------------------------ SEMTOK-PAIRING

def rule_semtok_pairing(prog):
    out = Out("SEMTOK-PAIRING")
    c = prog.lsp
    # by role: the functions of the module that yield the semantic tokens of a part of the document
    fns = [b for b in c.bodies if b["p"].startswith("lsp4spl::features::semantic_tokens::") and b["k"] == "fn" and "/tests" not in c.file_of(b["sp"]) and
           (b["name"].startswith("collect_") or ("sig_out" in b and "Vec<lsp_types::SemanticToken>" in c.tstr(b["sig_out"]).replace(" ", "")))]
    if len(fns) < 2:
        # the collectors may be methods of an emitter that owns the output vector: functions of the module that are handed a token slice
        # and answer with nothing
        fns = [b for b in c.bodies if b["p"].startswith("lsp4spl::features::semantic_tokens::") and b["k"] in ("fn", "assoc_fn") and
               "/tests" not in c.file_of(b["sp"]) and "sig_in" in b and c.tstr(b["sig_out"]).strip() == "()" and
               any("[spl_frontend::tokens::Token]" in c.tstr(t_).replace(" ", "") for t_ in b["sig_in"])]
    if len(fns) < 2:
        out.missing("semantic_tokens::collect_* (found %d)" % len(fns))
        return out
    # the handler itself: everything behind the last declaration (comments in front of end-of-file belong to no declaration) is
    # visited as well - a slice of the document's tokens that starts where the last declaration ends
    handler = [b for b in c.bodies if b["p"].startswith("lsp4spl::features::semantic_tokens::") and b["k"] in ("fn",) and
               any((hir.callee(n) or "") in [f["p"] for f in fns] for n in hir.nodes(b["body"], "Call"))]
    tail_clo = None
    if not handler:
        out.missing("semantic token handler (caller of collect_*)")
    else:
        # (the caller of the collectors that also cuts the document's tokens behind the last declaration, if there are several)
        def _cuts_tail(h_):
            return any(ix_.get("k") == "Index" and "RangeFrom" in (hir.strip(ix_["idx"]).get("adt") or "") and
                       any(x_.get("k") == "MethodCall" and x_["m"] == "last" for x_ in hir.nodes(h_["body"]))
                       for ix_ in hir.nodes(h_["body"]))
        handler = sorted(handler, key=lambda h_: 0 if _cuts_tail(h_) else 1)
        hb = handler[0]
        defs_ = {}
        for l in hir.nodes(hb["body"], "Let"):
            if l["pat"].get("k") == "Binding" and l.get("init") is not None:
                defs_[l["pat"]["id"]] = l["init"]
        covered = False
        for ix, parents in hir.walk(hb["body"]):
            if ix.get("k") != "Index" or "Token" not in c.tstr(hir.strip(ix["base"])["t"]):
                continue
            rng = hir.strip(ix["idx"])
            if not (rng.get("k") == "Struct" and "RangeFrom" in (rng.get("adt") or "")):
                continue
            start = rng["fields"][0]["e"]
            roots = [start]
            pl = hir.path_local(hir.strip(start))
            if pl and pl["id"] in defs_:
                roots.append(defs_[pl["id"]])
            def _decls(e_):
                if any(f.get("k") == "Field" and f["name"] == "global_declarations" for f in hir.nodes(e_)):
                    return True
                pl_ = hir.path_local(hir.strip_ref(hir.strip(e_)))
                return bool(pl_) and pl_["id"] in defs_ and any(
                    f.get("k") == "Field" and f["name"] == "global_declarations" for f in hir.nodes(defs_[pl_["id"]]))
            if any(x.get("k") == "MethodCall" and x["m"] == "last" and _decls(x["recv"])
                   for r in roots for x in hir.nodes(r)):
                covered = True
                # the closure that turns these tokens into semantic tokens
                for pr in reversed(parents):
                    if pr.get("k") == "MethodCall":
                        for a in pr["args"]:
                            for cl in hir.nodes(a, "Closure"):
                                tail_clo = (hb, cl)
        out.add(hb["d"], "the tokens behind the last declaration are visited", covered, c.loc(hb["sp"]),
                "semantic tokens are produced per global declaration only: a comment behind the last declaration (or in a document without "
                "declarations) belongs to no declaration and never gets its `comment` token", ("tail",))
    # The delta base: a Position that is assigned inside the per-token code (a closure handed to an iterator adaptor, or the body of
    # a loop over the tokens).  Wherever the module assigns such a Position:
    #   - it is assigned once per token, under the test that this token produced a semantic token (`x.is_some()` on the value the
    #     closure yields, or `if let Some(x) = <classification>` whose binding is what is emitted),
    #   - the new value is as_position(<that token>.range.start, ..).
    asp = roles.conv(prog).get("as_position")
    mod_bodies = [b for b in c.bodies if b["p"].startswith("lsp4spl::features::semantic_tokens::") and b["k"] in ("fn", "assoc_fn")
                  and "/tests" not in c.file_of(b["sp"])]

    def is_position(e):
        e_ = hir.strip(e)
        return c.tstr(e_["t"]).replace(" ", "") == "lsp_types::Position"

    n_units = 0
    for b in mod_bodies:
        by_scope = {}
        for n, parents in hir.walk(b["body"]):
            if n.get("k") != "Assign" or not is_position(n["l"]):
                continue
            scope = None
            for pr in reversed(parents):
                if pr.get("k") in ("Closure", "ForLoop", "While", "Loop"):
                    scope = pr
                    break
            if scope is None:
                continue
            by_scope.setdefault(id(scope), (scope, []))[1].append((n, list(parents)))
        for scope, assigns in by_scope.values():
            # per-token code: the scope iterates tokens (or indices); a closure over the *declarations* that stores the base a collector
            # handed back is not per-token code
            sp_bds_ = [bd for pp in (list(scope.get("params") or []) + ([scope["pat"]] if scope.get("pat") else [])) for bd in hir.pat_bindings(pp)]
            if sp_bds_ and not any(hir.adt_path(c, bd["bt"]) == "spl_frontend::tokens::Token" or
                                   c.tstr(bd["bt"]).replace("&", "").strip() in ("usize", "u32", "u64", "i32") for bd in sp_bds_):
                continue
            n_units += 1
            prev = place(assigns[0][0]["l"])
            same = [x for x in assigns if place(x[0]["l"]) == prev]
            ok = len(same) == 1 and len(assigns) == 1
            loc_ = c.loc(assigns[0][0]["sp"])
            # a function that is handed the base (`&mut Position`) advances *that* one, not a copy of it
            threaded = ["%s#%s" % (p_["name"], p_["id"]) for p_ in b["params"]
                        if p_.get("k") == "Binding" and c.tstr(p_["bt"]).replace(" ", "") == "&mutlsp_types::Position"]
            if ok and threaded and prev not in threaded:
                out.add(b["d"], "previous position advances exactly when a semantic token is emitted, to that token's start", False, loc_,
                        "the function receives the running delta base as `&mut Position` but advances `%s`, a copy: the caller's base stays "
                        "where it was and every token behind this region is encoded relative to a stale position" % (prev or "?").split("#")[0])
                continue
            if ok:
                n, parents = assigns[0]
                inner = parents[[i_ for i_, p_ in enumerate(parents) if p_ is scope][0] + 1:]
                # the token of this iteration
                toks = set()
                pats = list(scope.get("params") or []) + ([scope["pat"]] if scope.get("pat") else [])
                for pp in pats:
                    for bd in hir.pat_bindings(pp):
                        if hir.adt_path(c, bd["bt"]) == "spl_frontend::tokens::Token":
                            toks.add("%s#%s" % (bd["name"], bd["id"]))
                r = hir.strip(n["r"])
                pos_ok = r.get("k") == "Call" and asp is not None and (hir.callee(r) or "") == asp["p"] and \
                    any((place(r["args"][0]) or "") == "%s.range.start" % t_ for t_ in toks)
                if not pos_ok and r.get("k") == "Call" and asp is not None and (hir.callee(r) or "") == asp["p"]:
                    # the iteration runs over the indices: `(0..tokens.len()).filter_map(|index| ..)` - this token is `tokens[index]`
                    a0_ = hir.strip(r["args"][0])
                    if a0_.get("k") == "Field" and a0_["name"] == "start" and hir.strip(a0_["base"]).get("k") == "Field" and \
                            hir.strip(a0_["base"])["name"] == "range":
                        ixe_ = hir.strip(hir.strip(a0_["base"])["base"])
                        if ixe_.get("k") == "Index" and "Token" in c.tstr(hir.strip(ixe_["base"])["t"]):
                            il_ = hir.path_local(hir.strip(ixe_["idx"]))
                            pids_ = [bd["id"] for pp in pats for bd in hir.pat_bindings(pp)]
                            if il_ and il_["id"] in pids_:
                                pos_ok = True
                # the guard
                body_ = scope["body"]
                blk = hir.strip(body_)
                blk = blk["b"] if blk.get("k") == "BlockExpr" else None
                tail = place(blk["expr"]) if blk and blk.get("expr") and scope.get("k") == "Closure" else None
                g_ok = False
                for g in [p_ for p_ in inner if p_.get("k") == "If"]:
                    cond = hir.strip(g["cond"])
                    in_then = any(x is n for x in hir.nodes(g["then"]))
                    if not in_then:
                        continue
                    if cond.get("k") == "MethodCall" and cond["m"] == "is_some" and tail is not None and place(cond["recv"]) == tail:
                        g_ok = True
                    # loop form: the tested value is what is handed to the output afterwards (`out.extend(semantic_token)`)
                    if cond.get("k") == "MethodCall" and cond["m"] == "is_some" and place(cond["recv"]) and scope.get("k") != "Closure" and any(
                            x.get("k") == "MethodCall" and x["m"] in ("push", "extend", "push_back") and
                            any(place(a_) == place(cond["recv"]) for a_ in x["args"]) for x in hir.nodes(scope["body"])):
                        g_ok = True
                    if cond.get("k") == "LetExpr" and any(v.endswith("Option::Some") for v in hir.pat_variants_all(cond["pat"])):
                        bds = ["%s#%s" % (bd["name"], bd["id"]) for bd in hir.pat_bindings(cond["pat"])]
                        # ... and the bound token is what is emitted: pushed / extended / yielded in the same branch
                        emitted = any(x.get("k") == "MethodCall" and x["m"] in ("push", "extend", "push_back", "insert") and
                                      any(place(a_) in bds for a_ in x["args"]) for x in hir.nodes(g["then"])) or \
                            any(x.get("k") == "Call" and last(hir.path_def(x["f"]).get("ctor_of", "") if hir.path_def(x["f"]) else "") == "Some" and
                                any(place(a_) in bds for a_ in x["args"]) for x in hir.nodes(g["then"]))
                        produces = "SemanticToken" in c.tstr(hir.strip(cond["init"])["t"])
                        if emitted and produces:
                            g_ok = True
                # `let Some(token) = classified else { continue };  *base = as_position(..);  out.push(token);`
                for blk_ in [p_ for p_ in inner if p_.get("k") == "Block"] + ([blk] if blk else []):
                    stmts_ = list(blk_.get("stmts") or [])
                    pos_i = next((i_ for i_, st_ in enumerate(stmts_) if any(x is n for x in hir.nodes(st_))), None)
                    if pos_i is None:
                        continue
                    for st_ in stmts_[:pos_i]:
                        # `let token = if .. { create(..) } else { match classify(..) { Some(t) => t, None => continue } };`: whoever gets
                        # past this statement holds a token (the binding is a SemanticToken, not an Option of one)
                        if st_.get("k") == "Let" and st_.get("els") is None and st_.get("init") is not None and st_["pat"].get("k") == "Binding" and \
                                c.tstr(st_["pat"]["bt"]).replace(" ", "") in ("lsp_types::SemanticToken",):
                            bds = ["%s#%s" % (st_["pat"]["name"], st_["pat"]["id"])]
                            rest_ = stmts_[pos_i:] + ([blk_["expr"]] if blk_.get("expr") else [])
                            if any(x.get("k") == "MethodCall" and x["m"] in ("push", "extend", "push_back", "insert") and
                                   any(place(a_) in bds for a_ in x["args"]) for r_ in rest_ for x in hir.nodes(r_)):
                                g_ok = True
                        if st_.get("k") == "Let" and st_.get("els") is not None and st_.get("init") is not None and \
                                any(v.endswith("Option::Some") for v in hir.pat_variants_all(st_["pat"])) and \
                                any(x.get("k") in ("Continue", "Ret", "Break") for x in hir.nodes(st_["els"])) and \
                                "SemanticToken" in c.tstr(hir.strip(st_["init"])["t"]):
                            bds = ["%s#%s" % (bd["name"], bd["id"]) for bd in hir.pat_bindings(st_["pat"])]
                            rest_ = stmts_[pos_i:] + ([blk_["expr"]] if blk_.get("expr") else [])
                            if any(x.get("k") == "MethodCall" and x["m"] in ("push", "extend", "push_back", "insert") and
                                   any(place(a_) in bds for a_ in x["args"]) for r_ in rest_ for x in hir.nodes(r_)):
                                g_ok = True
                ok = g_ok and pos_ok
            out.add(b["d"], "previous position advances exactly when a semantic token is emitted, to that token's start", ok, loc_,
                    "delta encoding is stateful: the base must be updated iff a token is emitted for this source token, with the start of that token")
    # the `declaration` modifier: the name range of a *table entry* counts tokens from the first token of the declaration that owns the
    # entry.  Compared with an index into the tokens that are being walked it needs that entry's `range.start` beside it
    # (`param.range.start + param.name.to_range().end == index + 1`) - on its own it is only meaningful for the node that is walked
    # (`td.name.to_range().end == index + 1`), not for whatever entry a name in it was looked up to
    n_decl, bad_decl = 0, None
    for b in c.bodies:
        if not b["p"].startswith("lsp4spl::features::semantic_tokens") or "/tests" in c.file_of(b["sp"]):
            continue
        for cmp_ in hir.nodes(b["body"], "Binary"):
            if cmp_["op"] not in ("==", "!=", "<", "<=", ">", ">="):
                continue
            for side in (cmp_["l"], cmp_["r"]):
                for tr in hir.nodes(side, "MethodCall"):
                    if tr["m"] != "to_range":
                        continue
                    r_ = hir.strip_ref(tr["recv"])
                    if not (r_.get("k") == "Field" and r_["name"] == "name"):
                        continue
                    owner = hir.strip_ref(r_["base"])
                    ot_ = hir.adt_path(c, owner["t"]) or ""
                    for ad_ in owner.get("adj") or []:
                        ot_ = hir.adt_path(c, ad_["to"]) or ot_
                    if not (ot_.startswith("spl_frontend::table::") and ot_.endswith("Entry")):
                        continue
                    n_decl += 1
                    op_ = place(owner)
                    has_range = any(f_.get("k") == "Field" and f_["name"] == "range" and place(hir.strip_ref(f_["base"])) == op_ for f_ in hir.nodes(side))
                    if not has_range:
                        bad_decl = bad_decl or (b, cmp_)
    out.add("semantic_tokens", "the name range of a table entry is compared with a token index only together with that entry's range", bad_decl is None,
            c.loc(bad_decl[1]["sp"]) if bad_decl else "", ("%s compares `<entry>.name.to_range()` with an index on its own; " % bad_decl[0]["d"] if bad_decl else "") +
            "the entry of a *used* type counts from its own declaration, the index from the declaration that is walked: where the two happen "
            "to coincide (a two-line doc comment in front of `type vector = ..`, `type alias = vector;`) the use of the type is marked as a "
            "declaration (%d comparisons looked at)" % n_decl, ("declframe",))
    # the base is one running value for the whole document: a collector that advances a base it received *by value* advances a copy.
    # That is only right where the caller never looks at its base again (the last stretch of the document); called for one declaration
    # among others (inside the per-declaration closure / loop, or with the base used again further down) the advance is lost
    lost = None
    n_byval = 0
    for b in mod_bodies:
        byval = [p_ for p_ in b["params"] if p_.get("k") == "Binding" and c.tstr(p_["bt"]).replace(" ", "") == "lsp_types::Position"]
        if not byval or "sig_out" not in b or "Vec<" not in c.tstr(b["sig_out"]):
            continue
        if "Position" in c.tstr(b["sig_out"]):
            continue   # the advanced base is handed back beside the tokens: the caller stores it
        for p_ in byval:
            ids_ = {p_["id"]}
            for l_ in hir.nodes(b["body"], "Let"):    # (`let mut base = base;`)
                if l_["pat"].get("k") == "Binding" and (hir.path_local(l_.get("init") or {}) or {}).get("id") in ids_:
                    ids_.add(l_["pat"]["id"])
            if not any((hir.path_local(hir.strip(a_["l"])) or {}).get("id") in ids_ for a_ in hir.nodes(b["body"], "Assign")):
                continue
            pi_ = b["params"].index(p_)
            for y in mod_bodies:
                for call, cps in hir.walk(y["body"]):
                    if call.get("k") != "Call" or hir.callee(call) != b["p"] or pi_ >= len(call["args"]):
                        continue
                    n_byval += 1
                    arg_ = hir.path_local(hir.strip(call["args"][pi_]))
                    if not arg_:
                        continue
                    repeated = any(q_.get("k") in ("ForLoop", "While", "Loop") or
                                   (q_.get("k") == "Closure" and not str(q_.get("ck", "")).startswith("Coroutine")) for q_ in cps)
                    used_later = False
                    chain_ = list(cps) + [call]
                    for i_, q_ in enumerate(chain_[:-1]):
                        if q_.get("k") != "Block":
                            continue
                        kids_ = list(q_["stmts"]) + ([q_["expr"]] if q_.get("expr") else [])
                        after_ = False
                        for k_ in kids_:
                            if after_ and any((hir.path_local(z_) or {}).get("id") == arg_["id"] for z_ in hir.nodes(k_)):
                                used_later = True
                            if k_ is chain_[i_ + 1] or any(z_ is call for z_ in hir.nodes(k_)):
                                after_ = True
                    if repeated or used_later:
                        lost = lost or (y, call, b)
    # ... and by reference means: a reference to the running base itself, not to a copy made for this one declaration
    for b in mod_bodies:
        for pi_, p_ in enumerate(b["params"]):
            if p_.get("k") != "Binding" or c.tstr(p_["bt"]).replace(" ", "") != "&mutlsp_types::Position":
                continue
            if "sig_out" not in b or "Vec<" not in c.tstr(b["sig_out"]):
                continue
            for y in mod_bodies:
                for call, cps in hir.walk(y["body"]):
                    if call.get("k") != "Call" or hir.callee(call) != b["p"] or pi_ >= len(call["args"]):
                        continue
                    a_ = hir.strip(call["args"][pi_])
                    if a_.get("k") != "AddrOf":
                        continue
                    n_byval += 1
                    loc_ = hir.path_local(hir.strip(a_["e"]))
                    scopes_ = [q_ for q_ in cps if q_.get("k") in ("ForLoop", "While", "Loop") or
                               (q_.get("k") == "Closure" and not str(q_.get("ck", "")).startswith("Coroutine"))]
                    if not loc_ or not scopes_:
                        continue
                    inner_ = scopes_[-1]
                    for l_ in hir.nodes(inner_["body"], "Let"):
                        if any(bd["id"] == loc_["id"] for bd in hir.pat_bindings(l_["pat"])) and l_.get("init") is not None and \
                                c.tstr(hir.strip(l_["init"])["t"]).replace(" ", "") == "lsp_types::Position":
                            lost = lost or (y, call, b)
    out.add("semantic_tokens", "a collector that advances the delta base receives it by reference wherever the caller goes on using it", lost is None,
            c.loc(lost[1]["sp"]) if lost else "", ("%s hands its base to %s by value; " % (lost[0]["d"], lost[2]["d"]) if lost else "") +
            "the collector advances a copy: the tokens behind this region (a top-level error region with a keyword, number or comment in it) "
            "are encoded relative to a stale position and land on wrong lines / columns (%d by-value call sites looked at)" % n_byval, ("byvalue",))
    if n_units < 1:
        out.missing("assignments to the delta base (a Position) in per-token code of features::semantic_tokens (found %d)" % n_units)
    # every delta is computed against the current base: the Position handed to a token constructor (a function of the module that
    # yields a SemanticToken and takes a Position) is the threaded `&mut Position` parameter / the handler's base variable, read at
    # the time of the call - not a copy taken earlier and not a fresh value
    ctors = {}
    for b in mod_bodies:
        if "sig_in" not in b or "SemanticToken" not in c.tstr(b["sig_out"]) or "Vec<" in c.tstr(b["sig_out"]):
            continue
        for j_, t_ in enumerate(b["sig_in"]):
            if c.tstr(t_).replace(" ", "").lstrip("&") in ("lsp_types::Position", "mutlsp_types::Position"):
                ctors[b["p"]] = j_
    n_calls = 0
    for b in mod_bodies:
        base_params = set()
        for p_ in b["params"]:
            if p_.get("k") == "Binding" and "lsp_types::Position" in c.tstr(p_["bt"]):
                base_params.add(p_["id"])
        base_locals = set()
        for n, parents in hir.walk(b["body"]):
            if n.get("k") == "Assign" and is_position(n["l"]):
                pl_ = hir.path_local(hir.strip(n["l"]))
                if pl_:
                    base_locals.add(pl_["id"])
        for n, parents in hir.walk(b["body"]):
            if n.get("k") != "Call" or (hir.callee(n) or "") not in ctors:
                continue
            j_ = ctors[hir.callee(n)]
            if j_ >= len(n["args"]):
                continue
            n_calls += 1
            a_ = hir.strip_ref(hir.strip(n["args"][j_]))
            while a_.get("k") == "Unary" and a_.get("op") in ("*", "Deref"):
                a_ = hir.strip_ref(hir.strip(a_["e"]))
            clos = [p_ for p_ in parents if p_.get("k") == "Closure"]
            verdict = None
            pl_ = hir.path_local(a_)
            if a_.get("k") in ("Call", "Struct", "MethodCall"):
                verdict = False
            elif pl_:
                if pl_["id"] in base_params or pl_["id"] in base_locals:
                    verdict = True
                else:
                    # a parameter of the enclosing per-token closure that receives the base at each call (generic walker)?
                    cl_params = set(bd["id"] for cl in clos for pp in cl.get("params") or [] for bd in hir.pat_bindings(pp))
                    if pl_["id"] in cl_params:
                        verdict = None
                    else:
                        # a local: where was it bound?  inside the per-token closure from the base -> fine; outside -> stale copy
                        inner_lets = set(l_["pat"]["id"] for cl in clos for l_ in hir.nodes(cl["body"], "Let") if l_["pat"].get("k") == "Binding")
                        verdict = None if (pl_["id"] in inner_lets or not clos) else False
            out.add(b["d"], "every token delta is computed against the threaded previous position", verdict, c.loc(n["sp"]),
                    "a token constructor is handed a Position that is not the running delta base (a fresh value or a copy taken before the "
                    "per-token code ran): the deltas of all tokens but the first are wrong")
    if n_calls < 3:
        out.missing("calls of the semantic token constructors with a delta base (found %d)" % n_calls)
    return out


# ------------------------------------------------------------------ FMT-PURE

def rule_fmt_pure(prog):
    out = Out("FMT-PURE")
    c = prog.lsp
    fmt_bodies = [b for b in c.bodies if b["p"].startswith("lsp4spl::features::formatting::") and "/tests" not in c.file_of(b["sp"])]
    if len(fmt_bodies) < 20:
        out.missing("formatting::* (found %d)" % len(fmt_bodies))
        return out
    bad = []
    for b in fmt_bodies:
        for n in hir.nodes(b["body"], "Field"):
            if n["name"] == "range" and hir.adt_path(c, n["base"]["t"]) == "spl_frontend::tokens::Token":
                bad.append((b, n))
    out.add("formatting::fmt", "output does not depend on byte positions of the input layout", not bad,
            c.loc(bad[0][1]["sp"]) if bad else "", "the printer reads Token.range: two layouts of the same token sequence can then format differently")

    # the indentation unit is put in front of *lines*: the function that yields the unit (a method of the options that reads
    # insertSpaces / tabSize) is used only where rendered text is walked line by line.  Put in front of an item (a parameter, a statement)
    # it indents the first line of that item only - a parameter with a comment hoisted in front of it is two lines
    unit_fns = [b for b in fmt_bodies if b["k"] in ("fn", "assoc_fn") and "sig_out" in b and c.tstr(b["sig_out"]).endswith("String") and
                len(b["params"]) == 1 and b["params"][0].get("k") == "Binding" and
                ((hir.adt_path(c, b["params"][0]["bt"]) or "").startswith("lsp4spl::features::formatting") or
                 "FormattingOptions" in c.tstr(b["params"][0]["bt"])) and
                any(f_.get("k") == "Field" for f_ in hir.nodes(b["body"]))]
    LINEWISE = ("lines", "split", "split_inclusive", "split_terminator")

    def per_line(y, node, parents):
        """is node inside code of y that runs once per line of some text?"""
        for q_ in parents:
            if q_.get("k") == "Closure" or q_.get("k") in ("ForLoop", "While", "Loop"):
                if any(m_.get("k") == "MethodCall" and m_["m"] in LINEWISE for m_ in hir.nodes(y["body"])):
                    return True
        return False

    if unit_fns:
        unit_ps = set(u["p"] for u in unit_fns)
        bad_unit = None
        n_unit = 0
        for y in fmt_bodies:
            if y["k"] == "closure" or y["p"] in unit_ps:
                continue
            for x, ps in hir.walk(y["body"]):
                if x.get("k") not in ("Call", "MethodCall") or (hir.callee(x) or "") not in unit_ps:
                    continue
                n_unit += 1
                if per_line(y, x, ps):
                    continue
                # a helper that indents one line: decided where it is called
                sites_ = [(z, cl_, cps_) for z in fmt_bodies if z["k"] != "closure" for cl_, cps_ in hir.walk(z["body"])
                          if cl_.get("k") in ("Call", "MethodCall") and hir.callee(cl_) == y["p"]]
                if sites_ and all(per_line(z, cl_, cps_) for z, cl_, cps_ in sites_):
                    continue
                bad_unit = bad_unit or (y, x)
        out.add("formatting::fmt", "the indentation unit is put in front of lines (only where rendered text is walked line by line)", bad_unit is None,
                c.loc(bad_unit[1]["sp"]) if bad_unit else "", ("%s takes the unit outside a line-by-line walk; " % bad_unit[0]["d"] if bad_unit else "") +
                "put in front of an item instead of each of its lines, the unit indents the item's first line only: a parameter whose comment "
                "was hoisted in front of it is two lines, the second one lands in column 0 (%d uses of the unit)" % n_unit, ("unit",))
    else:
        out.add("formatting::fmt", "the indentation unit is put in front of lines (only where rendered text is walked line by line)", None, "",
                "no function of the formatter that yields the unit from insertSpaces/tabSize was found", ("unit",))

    # rendered text is cut into lines at the line feeds the printer itself emitted, nowhere else: a token may contain any other character
    # (a raw carriage return inside a character literal), and splitting there breaks the token
    bad_split = None
    for b in fmt_bodies:
        for mc in hir.nodes(b["body"], "MethodCall"):
            if mc["m"] in ("split", "split_terminator", "split_inclusive", "rsplit", "splitn", "split_once") and mc["args"] and \
                    "str" in c.tstr(hir.strip(mc["recv"])["t"]) + "".join(c.tstr(a_["to"]) for a_ in (hir.strip(mc["recv"]).get("adj") or [])):
                v = hir.lit_value(hir.strip(mc["args"][0]))
                if v is not None and v not in ("\n", "\\n"):
                    bad_split = mc
            if mc["m"] in ("split_whitespace", "split_ascii_whitespace"):
                bad_split = mc
    out.add("formatting::fmt", "rendered text is split into lines at line feeds only", bad_split is None,
            c.loc((bad_split or fmt_bodies[0])["sp"]), "the layout step splits rendered text at a character other than the line feed: a token that "
            "contains that character (a carriage return in a character literal) is broken in two, the formatted program has other tokens", ("split",))

    # ... and it is only put together, never rewritten by content: a lexeme may contain any character (a raw tab inside a character
    # literal, anything inside a comment), so replacing a character in rendered text changes tokens
    bad_rw, undec_rw = None, None
    for b in fmt_bodies:
        for mc in hir.nodes(b["body"], "MethodCall"):
            rt_ = c.tstr(hir.strip(mc["recv"])["t"]) + "".join(c.tstr(a_["to"]) for a_ in (hir.strip(mc["recv"]).get("adj") or []))
            if not ("str" in rt_ or "String" in rt_):
                continue
            if mc["m"] in ("replace", "replacen") and mc["args"]:
                v = hir.lit_value(hir.strip_ref(mc["args"][0]))
                if v is None:
                    undec_rw = mc
                elif v not in ("\n", "\\n"):
                    bad_rw = mc
            if mc["m"] in ("to_lowercase", "to_uppercase", "to_ascii_lowercase", "to_ascii_uppercase", "make_ascii_lowercase",
                           "make_ascii_uppercase", "retain"):
                bad_rw = mc
    out.add("formatting::fmt", "rendered text is put together, not rewritten by content", None if (bad_rw is None and undec_rw is not None) else bad_rw is None,
            c.loc((bad_rw or undec_rw or fmt_bodies[0])["sp"]), "a character other than the line feed is replaced in rendered text: a lexeme that contains it "
            "(a raw tab in a character literal, with insertSpaces) becomes another token or none, the formatted program is a different one", ("rewrite",))

    # ... and it is a function of the document and the options of *this* request: the formatter keeps nothing between requests (a memo
    # of the last result, a cached indentation unit - process-wide state answers a later request with an earlier request's text)
    stateful = None
    for b in fmt_bodies:
        for x in hir.nodes(b["body"], "Path"):
            r_ = x["res"]
            if r_.get("k") == "Def" and str(r_.get("dk", "")).startswith("Static"):
                t_ = c.tstr(x["t"])
                if "mutability: Mut" in str(r_.get("dk")) or any(w_ in t_ for w_ in ("Mutex<", "RwLock<", "OnceLock<", "OnceCell<", "LazyLock<", "Lazy<",
                                                                                  "RefCell<", "Cell<", "Atomic", "thread::LocalKey<")):
                    stateful = stateful or (b, x)
    out.add("formatting::fmt", "the formatter keeps no state between requests", stateful is None,
            c.loc(stateful[1]["sp"]) if stateful else "", ("%s reads / writes the static `%s`; " % (stateful[0]["d"], last(stateful[1]["res"].get("p") or "?")) if stateful else "") +
            "what a request is answered with then depends on the requests before it: an edit that keeps the tree but respells a literal "
            "(`10` -> `0xA`) is answered with the text of the earlier request, a request with other options with the earlier unit", ("state",))

    def sig(b):
        if "sig_in" not in b:
            return None, None
        return [c.tstr(t).replace(" ", "") for t in b["sig_in"]], c.tstr(b["sig_out"]).replace(" ", "")

    # the printer's option type: the local struct built from (char, usize); its unit function fn(&Opts) -> String
    ctors = [b for b in fmt_bodies if sig(b)[0] == ["char", "usize"] and (sig(b)[1] or "").startswith("features::formatting")]
    opts_t = sig(ctors[0])[1] if ctors else None
    ind = [b for b in fmt_bodies if opts_t and sig(b)[0] == ["&" + opts_t] and sig(b)[1] == "std::string::String"]
    if not ind:
        out.missing("FormattingOptions::indentation")
    else:
        # the count: the second argument of vec![sym; n], the argument of str::repeat / Iterator::take behind iter::repeat, the end of
        # `0..n`.  A plain field of the options holds; arithmetic or a literal in its place contradicts; no such expression: undecided
        counts = []
        for call in hir.nodes(ind[0]["body"], "Call"):
            if last(hir.callee(call) or "") in ("from_elem", "repeat_n") and len(call["args"]) == 2:
                counts.append(call["args"][1])
        for mc in hir.nodes(ind[0]["body"], "MethodCall"):
            if mc["m"] in ("repeat", "take") and mc["args"] and c.tstr(hir.strip(mc["args"][0])["t"]) == "usize":
                counts.append(mc["args"][0])
        for st_ in hir.nodes(ind[0]["body"], "Struct"):
            if (st_.get("adt") or "").startswith("core::ops::range::Range"):
                counts += [f_["e"] for f_ in st_["fields"] if f_["name"] == "end"]
        if not counts:
            ok = None
        else:
            ok = all("." in (place(hir.strip_ref(hir.strip(x_))) or "") and not any(
                y_.get("k") in ("Binary", "Lit") for y_ in hir.nodes(x_)) for x_ in counts)
        out.add("FormattingOptions::indentation", "one indentation level = indent_symbol repeated exactly indent_depth times", ok, c.loc(ind[0]["sp"]),
                "the unit must be exactly the requested one (tabSize 0 means no indentation)")
    f = prog.body("lsp4spl::features::formatting::format")
    if f is None:
        out.missing("formatting::format")
        return out
    # where the options are chosen: in the handler or in a conversion helper it calls
    reach = [f]
    for n in hir.nodes_deep(prog, f["body"], 2, crate=c):
        if n.get("k") in ("Call", "MethodCall"):
            hb = hir.local_callee_body(prog, n)
            if hb is not None and hb["_crate"] is c and hb["p"].startswith("lsp4spl::features::formatting") and hb not in reach:
                reach.append(hb)
    ctor_ps = set(b["p"] for b in ctors)
    ok = None
    detail = ""
    n_news = 0
    for rb in reach:
        news = [n for n in hir.nodes(rb["body"], "Call") if (hir.callee(n) or "") in ctor_ps]
        n_news += len(news)
        for n, parents in hir.walk(rb["body"]):
            if n.get("k") == "If":
                cond = place(n["cond"]) or ""
                if cond.endswith(".insert_spaces"):
                    t = [x for x in hir.nodes(n["then"], "Call") if x in news]
                    e = [x for x in hir.nodes(n.get("else") or {}, "Call") if x in news]
                    if len(t) == 1 and len(e) == 1:
                        ta, ea = t[0]["args"], e[0]["args"]
                        t_ok = hir.lit_value(ta[0]) == " " and (place(hir.strip(ta[1]).get("e", ta[1])) or place(ta[1]) or "").endswith(".tab_size")
                        e_ok = hir.lit_value(ea[0]) == "\t" and hir.lit_value(ea[1]) == "1"
                        ok = t_ok and e_ok
                        detail = "spaces: (%r, %s) tabs: (%r, %s)" % (hir.lit_value(ta[0]), place(hir.strip(ta[1]).get("e", ta[1])), hir.lit_value(ea[0]), hir.lit_value(ea[1]))
    if ok is True and n_news != 2:
        ok = False
    out.add("formatting::format", "indentation unit follows insertSpaces/tabSize", ok, c.loc(f["sp"]), detail)
    # null iff nothing changes; edit covers the whole document.  Decided on the handler and the helpers of the formatting module
    # it calls; the two texts are told apart by role: the new text is the one that becomes TextEdit.new_text
    def is_str(e):
        e_ = hir.strip(e)
        t_ = c.tstr(e_["t"]) + "".join(c.tstr(a_["to"]) for a_ in e_.get("adj") or [])
        return "String" in t_ or "str" in t_

    def base_place(e):
        e_ = hir.strip_ref(hir.strip(e))
        while e_.get("k") == "MethodCall" and e_["m"] in ("as_str", "clone", "to_string", "to_owned", "as_ref", "borrow", "deref") and not e_["args"]:
            e_ = hir.strip_ref(hir.strip(e_["recv"]))
        while e_.get("k") == "Unary" and e_.get("op") in ("*", "Deref"):
            e_ = hir.strip_ref(hir.strip(e_["e"]))
        return place(e_)

    verdict, n_cmp = None, 0
    old_places = set()
    for rb in reach:
        edits = [s_ for s_ in hir.nodes(rb["body"], "Struct") if (s_.get("adt") or "").endswith("TextEdit")]
        new_places = set()
        for s_ in edits:
            for fl_ in s_["fields"]:
                if fl_["name"] == "new_text":
                    new_places.add(base_place(fl_["e"]))
        for n in hir.nodes(rb["body"], "If"):
            cond = hir.strip(n["cond"])
            if not (cond.get("k") == "Binary" and cond["op"] in ("==", "!=") and is_str(cond["l"]) and is_str(cond["r"])):
                continue
            sides = {base_place(cond["l"]), base_place(cond["r"])}
            if None in sides or not (sides & new_places) or len(sides) != 2:
                continue
            n_cmp += 1
            old_places |= sides - new_places
            eq_branch, ne_branch = (n["then"], n.get("else")) if cond["op"] == "==" else (n.get("else"), n["then"])
            eq_none = eq_branch is not None and any(last(p_["res"].get("ctor_of", "")) == "None" for p_ in hir.nodes(eq_branch, "Path")) \
                and not any(s_ in edits for s_ in hir.nodes(eq_branch, "Struct"))
            ne_edit = ne_branch is not None and any(s_ in edits for s_ in hir.nodes(ne_branch, "Struct"))
            # early-return form: `if new == old { return None }` followed by the edit
            early = eq_none and ne_branch is None and eq_branch is n["then"] and any(True for _ in hir.nodes(n["then"], "Ret")) and bool(edits)
            this = (eq_none and ne_edit) or early
            if eq_branch is not None and any(s_ in edits for s_ in hir.nodes(eq_branch, "Struct")):
                this = False
            verdict = this if verdict is None else (verdict and this)
    if verdict is None and not any((s_.get("adt") or "").endswith("TextEdit") for rb in reach for s_ in hir.nodes(rb["body"], "Struct")):
        out.missing("TextEdit built by formatting::format or its helpers")
    if verdict is None and n_cmp == 0:
        # no comparison of the new text with the document in `if` form: unconditional edit (violation) or a form not followed here
        any_cmp = any(x.get("k") == "Binary" and x["op"] in ("==", "!=") and is_str(x["l"]) and is_str(x["r"])
                      for rb in reach for x in hir.nodes(rb["body"], "Binary"))
        verdict = None if any_cmp else False
    out.add("formatting::format", "returns null exactly when the formatted text equals the document", verdict, c.loc(f["sp"]),
            "no `null` for an unchanged document (or `null` for a changed one): the client applies an edit that changes nothing, or keeps "
            "the unformatted text")
    apr = roles.conv(prog).get("as_pos_range")
    ok = None
    n_rng = 0
    for rb in reach:
        for n in hir.nodes(rb["body"], "Call"):
            if apr is None or (hir.callee(n) or "") != apr["p"]:
                continue
            n_rng += 1
            r = hir.strip_ref(n["args"][0])
            # (the range may be bound to a local first, or come out of a local helper)
            rdefs = {l_["pat"]["id"]: l_["init"] for l_ in hir.nodes(rb["body"], "Let") if l_["pat"].get("k") == "Binding" and l_.get("init") is not None}
            for _ in range(4):
                pl_ = hir.path_local(hir.strip(r))
                if pl_ and pl_["id"] in rdefs:
                    r = hir.strip_ref(rdefs[pl_["id"]])
                    continue
                if r.get("k") in ("Call", "MethodCall"):
                    hb_ = hir.local_callee_body(prog, r)
                    if hb_ is not None and hb_["_crate"] is c and hb_["p"].startswith("lsp4spl::features::formatting"):
                        hbody_ = hir.strip(hb_["body"])
                        r = hir.strip_ref(hbody_["b"]["expr"]) if hbody_.get("k") == "BlockExpr" and hbody_["b"].get("expr") is not None else hir.strip_ref(hbody_)
                        continue
                break
            if r.get("k") != "Struct":
                # a range that is not written as `0..<text>.len()`: taken from somewhere else (the tokens, the AST, ..)
                if r.get("k") in ("Call", "MethodCall", "Field"):
                    ok = False
                continue
            fl = {x["name"]: x["e"] for x in r["fields"]}
            en = hir.strip(fl.get("end", {}))
            this = hir.lit_value(fl.get("start", {})) == "0" and en.get("k") == "MethodCall" and en["m"] == "len" and is_str(en["recv"])
            if this:
                whose = base_place(en["recv"])
                this = whose is not None and whose == base_place(n["args"][1]) and (not old_places or whose in old_places)
            ok = this if ok is None else (ok and this)
    if n_rng == 0:
        ok = False
    out.add("formatting::format", "the edit replaces exactly the whole document (0..text.len())", ok, c.loc(f["sp"]),
            "an edit that ends before the end of the document leaves the last source lines standing behind the formatted text: their "
            "comments (and tokens) appear twice", ("wholedoc",))
    return out


# ------------------------------------------------------------------ COMMENT-PAIRING

def rule_comment_pairing(prog):
    out = Out("COMMENT-PAIRING")
    c = prog.lsp
    fc = prog.front
    tags = tag_parsers(prog)
    # own tokens per node parser: tag parsers referenced directly in <N as Parser>::parse
    own = {}
    for b in fc.bodies:
        if b["d"].endswith(" as parser::Parser>::parse") and b["d"].startswith("<ast::"):
            name = b["d"][len("<ast::"):].split(" ")[0]
            toks = []
            for n in hir.nodes(b["body"], "Path"):
                r = n["res"]
                if r.get("k") == "Def" and r["p"] in tags:
                    toks.append(tags[r["p"]])
            own[name] = toks
    from . import roles
    helper_ps = roles.comment_helpers(prog)
    if not helper_ps:
        out.missing("comment re-attachment helpers (fn(String, &[Token]) -> String testing TokenType::Comment) in features::formatting")
        return out

    def helper_calls(root):
        return [n for n in hir.nodes(root, "Call") if (hir.callee(n) or "") in helper_ps]

    def self_node(b):
        if "impl_self" not in b:
            return None
        st = c.ty(b["impl_self"])
        return last(st["p"]) if st["k"] == "adt" and st["p"].startswith("spl_frontend::ast::") else None

    def type_label(e):
        """('adt', AST node name) | ('param', name) | None for the node an expression denotes (behind &, Box, Reference<..>)"""
        e = hir.strip(e)
        t = hir.peel(c, e["t"])
        for a in e.get("adj") or []:
            t = hir.peel(c, a["to"])
        hops = 0
        while t["k"] == "adt" and last(t["p"]) in ("Reference", "Box") and t.get("a") and hops < 3:
            t = hir.peel(c, int(t["a"][0]))
            hops += 1
        if t["k"] == "adt":
            return ("adt", last(t["p"]))
        if t["k"] == "param":
            return ("param", t.get("n"))
        return None

    seen = 0
    wrappers_generic = set()
    for b in c.bodies:
        if not b["p"].startswith("lsp4spl::features::formatting") or b["p"] in helper_ps or "/tests" in c.file_of(b["sp"]) or b["k"] == "closure":
            continue
        node = self_node(b) if b["name"] == "fmt" else None
        calls = helper_calls(b["body"])
        if node == "Program":
            seen += 1
            out.add("Format for Program", "comments in front of end-of-file are printed", bool(calls), c.loc(b["sp"]),
                    "comments behind the last declaration are swallowed by the Eof token parser and belong to no printed "
                    "node: they are dropped by formatting", ("Program",))
            continue
        for n in calls:
            which = roles.classify_comment_call(prog, n)
            # node type the helper is applied for: type of the formatted node in the String argument
            first = hir.strip_ref(n["args"][0])
            # (the text may be rendered one statement earlier: `let text = node.fmt(..); helper(text, ..)`)
            pl_first = hir.path_local(first)
            if pl_first:
                for l_ in hir.nodes(b["body"], "Let"):
                    if l_["pat"].get("k") == "Binding" and l_["pat"]["id"] == pl_first["id"] and "Mut" not in l_["pat"]["mode"] and l_.get("init") is not None:
                        first = hir.strip_ref(l_["init"])
            labels = [(node, n)]
            if first.get("k") == "MethodCall" and first["m"] == "fmt":
                lb_ = type_label(first["recv"])
                if lb_ is not None and lb_[0] == "adt":
                    labels = [(lb_[1], n)]
                elif lb_ is not None and lb_[0] == "param":
                    wrappers_generic.add(b["p"])
                    # a generic wrapper (`fn with_comments<T: Format>(node: &T, ..)`): the node printed is the one handed in at each
                    # call site of the wrapper
                    labels = []
                    rp = hir.path_local(hir.strip_ref(hir.strip(first["recv"])))
                    j_ = next((k_ for k_, q_ in enumerate(b["params"]) if rp and q_.get("k") == "Binding" and q_["id"] == rp["id"]), None)
                    if j_ is not None:
                        for y_ in c.bodies:
                            if not y_["p"].startswith("lsp4spl::features::formatting") or "/tests" in c.file_of(y_["sp"]):
                                continue
                            for m_ in hir.nodes(y_["body"], "Call"):
                                if hir.callee(m_) == b["p"] and j_ < len(m_["args"]):
                                    sl_ = type_label(m_["args"][j_])
                                    labels.append((sl_[1] if sl_ and sl_[0] == "adt" else None, m_))
                    if not labels:
                        labels = [(None, n)]
            elif hir.lit_value(first) is not None or (first.get("k") == "MethodCall" and hir.lit_value(hir.strip(first["recv"])) is not None):
                labels = [((node or "?") + "::Empty", n)]
            for label, site in labels:
                if label is None:
                    out.add(b["d"], "comment helper application", None, c.loc(site["sp"]), "cannot tell which node is printed here")
                    continue
                toks = own.get(label.split("::")[0], [])
                composite = len(toks) >= 2
                seen += 1
                ok = None if which is None else (which == "all" or not composite)
                out.add("Format for " + label.split("::")[0], "comments inside %s are kept" % label, ok, c.loc(site["sp"]),
                        "`%s` has %d own tokens (%s); its parser skips comments in front of each of them, but the formatter only "
                        "re-attaches the comments in front of the first token: every other comment inside is lost"
                        % (label, len(toks), ", ".join(toks)), (label.split("::")[0],))
    # the helpers themselves: which comments of the slice are re-attached depends on the token kind (and, for the leading form, on the
    # position) only.  A further selecting adaptor whose closure does not test TokenType::Comment drops comments by their text
    SELECT = ("filter", "filter_map", "skip_while", "take_while", "map_while", "skip", "take", "step_by", "dedup", "dedup_by_key", "retain")
    for hp in sorted(helper_ps):
        hb = prog.body(hp)
        if hb is None:
            continue
        bad_sel = None
        for mc in hir.nodes(hb["body"], "MethodCall"):
            if mc["m"] not in SELECT:
                continue
            tests_kind = False
            for a_ in mc["args"]:
                for x in hir.nodes_deep(prog, a_, 1, crate=c, values=True):
                    pats = [q["pat"] for q in x["arms"]] if x.get("k") == "Match" else [x["pat"]] if x.get("k") == "LetExpr" else []
                    if any("spl_frontend::tokens::TokenType::Comment" in hir.pat_variants_all(pt) for pt in pats):
                        tests_kind = True
            if not tests_kind:
                bad_sel = mc
        seen += 1
        out.add(hb["d"], "which comments a helper re-attaches depends on token kind and position only", bad_sel is None,
                c.loc((bad_sel or hb)["sp"]), "`.%s(..)` in the comment helper selects by something other than the token kind (e.g. the comment's "
                "text): a comment is dropped although it stands where it must be kept - two comments with the same text are enough"
                % (bad_sel["m"] if bad_sel else ""), ("helper",))
    # order: comments are re-attached in source order.  Token iterators that are reversed (`.rev()`) to look at the end of a slice must
    # be turned round again before their texts are joined
    for b in c.bodies:
        if not b["p"].startswith("lsp4spl::features::formatting") or "/tests" in c.file_of(b["sp"]) or b["k"] == "closure":
            continue
        for mc, parents in hir.walk(b["body"]):
            if mc.get("k") != "MethodCall" or mc["m"] != "rev" or "Token" not in c.tstr(hir.strip(mc["recv"])["t"]):
                continue
            # the adaptor chain above this call
            chain_ms = []
            child = mc
            for pr in reversed(list(parents)):
                if pr.get("k") == "MethodCall" and any(x is child for x in hir.nodes(pr["recv"])):
                    chain_ms.append(pr["m"])
                    child = pr
                else:
                    break
            joins = any(m_ in ("collect", "concat", "join", "fold", "reduce", "for_each", "sum") for m_ in chain_ms)
            produces_text = any(x.get("k") == "MethodCall" and x["m"] in ("to_string", "fmt") for pr in parents for x in ([pr] if pr.get("k") == "MethodCall" else []) for x in hir.nodes(pr)) 
            turned_back = chain_ms.count("rev") % 2 == 1
            if joins and produces_text:
                seen += 1
                out.add(b["d"], "token texts collected from a reversed iterator are turned round again", turned_back, c.loc(mc["sp"]),
                        "the comments are gathered walking backwards and joined in that order: two comment lines come out swapped, and "
                        "every further formatting run swaps them again (never `null`)", ("order",))
    # order (2): the parser gives a comment to the token that follows it.  Comment text that is collected on its own (a helper applied to
    # an empty text) and then put *behind* text of the node belongs to another node on the next run, which prints it where it prints its
    # own comments: the second run changes the text again.
    n_concat, behind = 0, None
    for b in c.bodies:
        if not b["p"].startswith("lsp4spl::features::formatting") or "/tests" in c.file_of(b["sp"]) or b["k"] == "closure":
            continue
        ctext = set()      # locals that hold comment text only
        for l_ in hir.nodes(b["body"], "Let"):
            if l_.get("init") is None or l_["pat"].get("k") != "Binding":
                continue
            i_ = hir.strip_ref(l_["init"])
            if i_.get("k") == "Index":
                i_ = hir.strip_ref(i_["base"])
            if i_.get("k") == "Call" and (hir.callee(i_) or "") in helper_ps and i_["args"]:
                a0 = hir.strip(i_["args"][0])
                empty = (a0.get("k") == "Call" and last(hir.callee(a0) or "") in ("new", "default") and not a0["args"]) or \
                    hir.lit_value(a0) == "" or (a0.get("k") in ("MethodCall", "Call") and
                                               any(hir.lit_value(x_) == "" for x_ in hir.nodes(a0, "Lit")) and
                                               not any((hir.path_local(x_) or {}) for x_ in hir.nodes(a0, "Path")))
                if empty:
                    ctext.add(l_["pat"]["id"])
            pl_ = hir.path_local(i_)
            if pl_ and pl_["id"] in ctext:
                ctext.add(l_["pat"]["id"])
        if not ctext:
            continue
        ntext = {bd["id"] for pp in b["params"] for bd in hir.pat_bindings(pp) if "String" in c.tstr(pp["t"]) or c.tstr(pp["t"]).endswith("str")}
        for l_ in hir.nodes(b["body"], "Let"):
            if l_.get("init") is not None and l_["pat"].get("k") == "Binding" and \
                    any(x_.get("k") == "MethodCall" and x_["m"] == "fmt" for x_ in hir.nodes(l_["init"])):
                ntext.add(l_["pat"]["id"])

        def kind_of(e_):
            ids = {(hir.path_local(x_) or {}).get("id") for x_ in hir.nodes(e_, "Path")}
            if ids & ntext or any(x_.get("k") == "MethodCall" and x_["m"] == "fmt" for x_ in hir.nodes(e_)):
                return "node"
            if ids & ctext:
                return "comments"
            return None

        def flat(e_):
            e_ = hir.strip_ref(e_)
            if e_.get("k") == "Binary" and e_["op"] == "+":
                return flat(e_["l"]) + flat(e_["r"])
            return [e_]
        seqs = []
        for x_, parents in hir.walk(b["body"]):
            if x_.get("k") == "Tup" and "desugaring of format string literal" in (x_.get("mx") or []):
                seqs.append(list(x_["es"]))
            if x_.get("k") == "Binary" and x_["op"] == "+" and not (parents and parents[-1].get("k") == "Binary" and parents[-1].get("op") == "+"):
                seqs.append(flat(x_))
        for sq in seqs:
            kinds = [kind_of(e_) for e_ in sq]
            if "comments" not in kinds:
                continue
            n_concat += 1
            seen_node = False
            for e_, kd in zip(sq, kinds):
                if kd == "node":
                    seen_node = True
                elif kd == "comments" and seen_node and behind is None:
                    behind = (b, e_)
    seen += 1
    out.add("formatting::fmt", "comment text is not put behind text of the node it was collected from", behind is None,
            c.loc(behind[1]["sp"]) if behind else "", ("%s appends comment text it collected separately behind rendered text; " % behind[0]["d"] if behind else "") +
            "`p(1, // first⏎ 2);` is printed as `p(1, 2); // first`: on the next run the comment is the leading comment of the following statement "
            "(or of nobody) and is printed on a line of its own or dropped - formatting formatted text answers another edit "
            "(%d concatenations with separately collected comment text)" % n_concat, ("order", "behind"))
    # `all` is sound only for nodes whose printed children print no comments themselves: applied to a node whose text was rendered by
    # children that re-attach their own comments (or print raw token slices), every inner comment is printed twice - and again on the
    # next formatting run, so the formatter is not idempotent either
    for b in c.bodies:
        if not b["p"].startswith("lsp4spl::features::formatting") or b["p"] in helper_ps or "/tests" in c.file_of(b["sp"]) or b["k"] == "closure":
            continue
        for n in helper_calls(b["body"]):
            if roles.classify_comment_call(prog, n) != "all":
                continue
            first = hir.strip(n["args"][0])
            # where was the text rendered?  the expression itself, or the lets it refers to
            roots = [first]
            pl_ = hir.path_local(first)
            if pl_:
                for l_ in hir.nodes(b["body"], "Let"):
                    if l_["pat"].get("k") == "Binding" and l_["pat"]["id"] == pl_["id"] and l_.get("init") is not None:
                        roots.append(l_["init"])
                        # one more level (e.g. `let stmts = ..; let stmt = format!(.. stmts ..)`)
                        for y in hir.nodes(l_["init"]):
                            pl2 = hir.path_local(y)
                            if pl2:
                                for l2 in hir.nodes(b["body"], "Let"):
                                    if l2["pat"].get("k") == "Binding" and l2["pat"]["id"] == pl2["id"] and l2.get("init") is not None:
                                        roots.append(l2["init"])
            inner_helper = None
            for r_ in roots:
                for x in hir.nodes_deep(prog, r_, 3, {b["p"]}, crate=c):
                    if x is n:
                        continue
                    if x.get("k") == "Call" and (hir.callee(x) or "") in helper_ps:
                        inner_helper = x
                    if x.get("k") == "MethodCall" and x["m"] == "fmt":
                        # a child printed through its Format impl (possibly behind Reference<..> / Box / Option)
                        t = hir.peel(c, x["recv"]["t"])
                        for a_ in x["recv"].get("adj") or []:
                            t = hir.peel(c, a_["to"])
                        hops = 0
                        while t["k"] == "adt" and last(t["p"]) in ("Reference", "Box", "Option") and t.get("a") and hops < 4:
                            t = hir.peel(c, int(t["a"][0]))
                            hops += 1
                        if t["k"] == "adt" and _fmt_impl_has_helper(prog, c, helper_ps, last(t["p"])):
                            inner_helper = x
            seen += 1
            out.add(b["d"], "the all-comments helper wraps only text whose parts print no comments themselves", inner_helper is None,
                    c.loc(n["sp"]), "the text handed to the all-comments helper was rendered by children that re-attach their own comments: "
                    "every comment inside is printed a second time in front of the node (and once more on every further formatting run)",
                    ("once", "nested"))
    # exactly once (2): the text a helper is applied to was not itself given the comments of the *same* slice - by another helper call
    # on `<node>.info.slice(..)`, or by a local function that is handed `<node>.info` and applies a helper to its slice
    for b in c.bodies:
        if not b["p"].startswith("lsp4spl::features::formatting") or b["p"] in helper_ps or "/tests" in c.file_of(b["sp"]) or b["k"] == "closure":
            continue
        defs_b = {l_["pat"]["id"]: l_["init"] for l_ in hir.nodes(b["body"], "Let") if l_["pat"].get("k") == "Binding" and l_.get("init") is not None}
        for n in helper_calls(b["body"]):
            if len(n["args"]) < 2:
                continue
            so_ = hir.strip_ref(n["args"][1])
            if not (so_.get("k") == "MethodCall" and so_["m"] == "slice"):
                continue
            p_out = place(hir.strip_ref(so_["recv"]))
            if not p_out:
                continue
            roots = [hir.strip(n["args"][0])]
            pl_ = hir.path_local(roots[0])
            if pl_ and pl_["id"] in defs_b:
                roots.append(defs_b[pl_["id"]])
            dup = None
            for r_ in roots:
                for x in hir.nodes(r_, "Call"):
                    if x is n:
                        continue
                    if (hir.callee(x) or "") in helper_ps and len(x["args"]) >= 2:
                        si_ = hir.strip_ref(x["args"][1])
                        if si_.get("k") == "MethodCall" and si_["m"] == "slice" and place(hir.strip_ref(si_["recv"])) == p_out:
                            dup = x
                        continue
                    hb = hir.local_callee_body(prog, x)
                    if hb is None or hb["_crate"] is not c or hb["p"] in helper_ps:
                        continue
                    for j_, a_ in enumerate(x["args"]):
                        if place(hir.strip_ref(a_)) != p_out or j_ >= len(hb["params"]) or hb["params"][j_].get("k") != "Binding":
                            continue
                        pid_ = hb["params"][j_]["id"]
                        for y in helper_calls(hb["body"]):
                            if len(y["args"]) >= 2:
                                sy_ = hir.strip_ref(y["args"][1])
                                if sy_.get("k") == "MethodCall" and sy_["m"] == "slice" and (hir.path_local(hir.strip_ref(sy_["recv"])) or {}).get("id") == pid_:
                                    dup = x
            if dup is not None:
                seen += 1
                out.add(b["d"], "the comments of a slice are re-attached to its text once", False, c.loc(dup["sp"]),
                        "the text this helper is applied to was already given the comments of the same slice (`%s`): the comment in front of an "
                        "empty block `{}` is printed in front of it and again inside it" % p_out.split("#")[0], ("once", "nested"))
    # exactly once: a variant that is printed as its raw token slice (AstInfo::fmt prints every token, comments included) must not be
    # wrapped in a comment helper on top of that - its comments would be printed twice
    raw_variants = {}
    for b in c.bodies:
        if b["p"].startswith("lsp4spl::features::formatting") and b["name"] == "fmt" and self_node(b):
            st = c.ty(b["impl_self"])
            for m in hir.nodes(b["body"], "Match"):
                for arm in m["arms"]:
                    pv = hir.pat_variant(arm["pat"]) or ""
                    if not pv.startswith(st["p"] + "::"):
                        continue
                    for mc in hir.nodes(arm["body"], "MethodCall"):
                        if mc["m"] == "fmt":
                            t = hir.peel(c, mc["recv"]["t"])
                            for a in mc["recv"].get("adj") or []:
                                t = hir.peel(c, a["to"])
                            if t["k"] == "adt" and last(t["p"]) == "AstInfo" and not helper_calls(arm["body"]):
                                raw_variants.setdefault(last(st["p"]), set()).add(pv)
    for b in c.bodies:
        if not b["p"].startswith("lsp4spl::features::formatting") or b["p"] in helper_ps or "/tests" in c.file_of(b["sp"]):
            continue
        for n, parents in hir.walk(b["body"]):
            if n.get("k") != "Call" or (hir.callee(n) or "") not in helper_ps:
                continue
            first = hir.strip(n["args"][0])
            if not (first.get("k") == "MethodCall" and first["m"] == "fmt"):
                continue
            t = hir.peel(c, first["recv"]["t"])
            for a in first["recv"].get("adj") or []:
                t = hir.peel(c, a["to"])
            if t["k"] != "adt":
                continue
            label = last(t["p"]) if last(t["p"]) != "Reference" else last(c.ty(int(t["a"][0]))["s"])
            rv = raw_variants.get(label)
            if not rv:
                continue
            # which variants can reach this application?
            ctx = [v for pt in _ctx_pats(parents) for v in hir.pat_variants_all(pt) if v.rsplit("::", 1)[0].endswith("ast::" + label)]
            excluded = bool(ctx) and not (set(ctx) & rv)
            seen += 1
            out.add("Format for " + label, "the comments of a %s that is printed as raw tokens are not printed a second time" % label, excluded,
                    c.loc(n["sp"]), "`%s` prints its tokens one by one, comments included; this helper application is reached for that variant as "
                    "well and prints the comments of the slice in front of it again" % ", ".join(sorted(last(x) for x in rv)), (label, "once"))
    # parameters and local variable declarations are printed by their procedure: each gets an *all comments* helper application
    # (their parsers skip comments in front of name, `:` and type; only the comments in front of the declaration are in `doc`)
    applied = {}
    for i_ in out.items:
        if i_.key.startswith("COMMENT-PAIRING:Format for ") and ":comments inside " in i_.key:
            applied.setdefault(i_.key.split(":comments inside ")[1].split("#")[0].replace(" are kept", ""), []).append(i_)
    for decl in ("ParameterDeclaration", "VariableDeclaration"):
        hits = applied.get(decl, [])
        seen += 1
        out.add("Format for ProcedureDeclaration", "every %s is printed through a comment helper that keeps all comments of its slice" % decl,
                bool(hits) and all(h.verdict == "holds" for h in hits), "",
                "no helper that re-attaches the comment *tokens* of the declaration's slice is applied to `%s`: comments written inside "
                "the declaration (behind `var`, the name or `:`) exist only as tokens - the `doc` field holds just the ones in front - "
                "and are dropped" % decl, ("decl",))
    # every variant of Statement / GlobalDeclaration re-attaches (at least) the comments in front of its first token:
    # in its arm, or in the Format impl the arm delegates to, or by printing the raw token slice (AstInfo::fmt)
    impl_has_helper = {}
    for b in c.bodies:
        if b["p"].startswith("lsp4spl::features::formatting") and b["name"] == "fmt" and self_node(b):
            impl_has_helper[self_node(b)] = any(n.get("k") == "Call" and (hir.callee(n) or "") in helper_ps
                                                for n in hir.nodes_deep(prog, b["body"], 1, crate=c))
    for b in c.bodies:
        if not (b["p"].startswith("lsp4spl::features::formatting") and b["name"] == "fmt" and self_node(b) in ("Statement", "GlobalDeclaration")):
            continue
        st = c.ty(b["impl_self"])
        for m in hir.nodes(b["body"], "Match"):
            if m["src"] != "match":
                continue
            for arm in m["arms"]:
                pv = hir.pat_variant(arm["pat"]) or ""
                if not pv.startswith(st["p"] + "::"):
                    continue
                direct = bool(helper_calls(arm["body"]))
                delegated = False
                raw = False
                for mc in hir.nodes_deep(prog, arm["body"], 1, crate=c):
                    if mc.get("k") == "MethodCall" and mc["m"] == "fmt":
                        t = hir.peel(c, mc["recv"]["t"])
                        for a in mc["recv"].get("adj") or []:
                            t = hir.peel(c, a["to"])
                        if t["k"] == "adt":
                            if last(t["p"]) == "AstInfo":
                                raw = True
                            elif impl_has_helper.get(last(t["p"])):
                                delegated = True
                    elif mc.get("k") == "Call" and (hir.callee(mc) or "") in helper_ps:
                        direct = True
                seen += 1
                out.add("Format for " + last(st["p"]), "%s::%s re-attaches the comments in front of its first token" % (last(st["p"]), last(pv)),
                        direct or delegated or raw, c.loc(arm["sp"]),
                        "every token parser swallows the comments in front of its token, so the token range of this variant starts "
                        "with them; its arm neither applies a comment helper, nor delegates to a Format impl that does, nor prints "
                        "the raw token slice: those comments vanish", (last(st["p"]), "variant"))
    # ... and at *every* place where such a node is printed: a node type whose own Format impl applies no comment helper (the helper
    # sits in the arm of the dispatching enum) loses its leading comments wherever it is printed directly, past the dispatcher
    # (`else_if.fmt(..)` on an IfStatement in the else-if chain)
    payloads = set()
    for en in ("Statement", "GlobalDeclaration"):
        adt_ = prog.adts.get("spl_frontend::ast::" + en)
        for v_ in (adt_ or {}).get("variants") or []:
            for f_ in v_["fields"]:
                t_ = hir.peel(prog.front, f_["t"])
                if t_["k"] == "adt" and t_["p"].startswith("spl_frontend::ast::") and last(t_["p"]) != "AstInfo":
                    payloads.add(last(t_["p"]))
    for b in c.bodies:
        if not b["p"].startswith("lsp4spl::features::formatting") or b["p"] in helper_ps or "/tests" in c.file_of(b["sp"]) or b["k"] == "closure":
            continue
        for mc, parents in hir.walk(b["body"]):
            if mc.get("k") != "MethodCall" or mc["m"] != "fmt":
                continue
            lb_ = type_label(mc["recv"])
            if not lb_ or lb_[0] != "adt" or lb_[1] not in payloads or impl_has_helper.get(lb_[1], True):
                continue
            wrapped = any(p_.get("k") == "Call" and (hir.callee(p_) or "") in helper_ps for p_ in parents)
            if not wrapped:
                # bound first, wrapped later (`let text = node.fmt(..); helper(text, ..)`)
                for p_ in reversed(parents):
                    if p_.get("k") == "Let" and p_["pat"].get("k") == "Binding":
                        vid = p_["pat"]["id"]
                        wrapped = any(x.get("k") == "Call" and (hir.callee(x) or "") in helper_ps and x["args"] and
                                      (hir.path_local(hir.strip(x["args"][0])) or {}).get("id") == vid for x in hir.nodes(b["body"]))
                        break
            if not wrapped and b["p"] not in wrappers_generic:
                seen += 1
                out.add("Format for " + lb_[1], "%s is printed with its leading comments wherever it is printed" % lb_[1], False, c.loc(mc["sp"]),
                        "`%s::fmt` applies no comment helper itself (the enum dispatcher does it for its arm); here the node is printed "
                        "directly, so the comments in front of its first token - which its token range starts with - are dropped" % lb_[1],
                        (lb_[1], "variant", "bypass"))
    if seen < 20:
        out.missing("comment helper applications in formatting::fmt (found %d)" % seen)
    return out


# ------------------------------------------------------------------ SAME-FINDER

def _body_of(c, node, default):
    """the body (fn or closure-free fn body) that contains node"""
    for b in c.bodies:
        if b["k"] == "closure":
            continue
        sp, nsp = b["body"].get("sp"), node.get("sp")
        if b is default:
            continue
        if any(x is node for x in hir.nodes(b["body"])):
            return b
    return default


def _origin(prog, c, b, e, depth=0):
    """Where a value comes from, spelled without the names of locals: `call:doc_cursor.context`.  `?` marks a part that is not followed
    (a value handed through a local helper of the module, a parameter of a closure, ..)."""
    if depth > 14 or e is None:
        return "?"
    e = hir.strip_ref(hir.strip(e))
    k = e.get("k")
    if k == "MethodCall" and e["m"] in ("clone", "as_ref", "to_owned", "borrow", "deref", "as_deref", "cloned", "unwrap", "expect", "into"):
        return _origin(prog, c, b, e["recv"], depth + 1)
    if k in ("Await", "Try", "Unary"):
        return _origin(prog, c, b, e.get("e"), depth + 1)
    if k == "Field":
        return _origin(prog, c, b, e["base"], depth + 1) + "." + e["name"]
    if k == "MethodCall":
        return _origin(prog, c, b, e["recv"], depth + 1) + "." + e["m"] + "()"
    if k == "Call":
        hb = hir.local_callee_body(prog, e)
        nm = last(hir.callee(e) or "?")
        if hb is not None and hb["p"].rsplit("::", 1)[0] == b["p"].rsplit("::", 1)[0]:
            return "?" + nm
        if last((hir.path_def(e["f"]) or {}).get("ctor_of", "")) in ("Some", "Ok") and e["args"]:
            return _origin(prog, c, b, e["args"][0], depth + 1)
        return "call:" + nm
    if k == "Match":
        live = [a_ for a_ in e["arms"] if hir.strip(a_["body"]).get("k") not in ("Ret", "Continue", "Break")]
        if len(live) == 1:
            pl = hir.path_local(live[0]["body"])
            pth = _pat_path(live[0]["pat"], pl["id"]) if pl else None
            if pth is not None:
                return _origin(prog, c, b, e["scrut"], depth + 1) + pth
        return "?"
    if k == "Path" and e["res"].get("k") == "Local":
        i_ = e["res"]["id"]
        for pp in b["params"]:
            if any(bd["id"] == i_ for bd in hir.pat_bindings(pp)):
                return "param:" + c.tstr(e["t"]).replace("&", "").replace("mut ", "").strip()
        for n in hir.nodes(b["body"]):
            if n.get("k") in ("Let", "LetExpr") and n.get("init") is not None and n.get("pat"):
                pth = _pat_path(n["pat"], i_)
                if pth is not None:
                    return _origin(prog, c, b, n["init"], depth + 1) + pth
            if n.get("k") == "Match":
                for a_ in n["arms"]:
                    pth = _pat_path(a_["pat"], i_)
                    if pth is not None:
                        return _origin(prog, c, b, n["scrut"], depth + 1) + pth
        return "?"
    return "?"


def _pat_path(p, bid):
    """the field path from the matched value to binding bid inside pattern p (`Some(..)`/`Ok(..)`/references are transparent)"""
    p = hir.pat_strip(p)
    k = p.get("k")
    if k == "Binding":
        if p["id"] == bid:
            return ""
        return _pat_path(p["sub"], bid) if p.get("sub") else None
    if k == "TupleStruct":
        v = hir.pat_variant(p) or ""
        for i_, q in enumerate(p["pats"]):
            r = _pat_path(q, bid)
            if r is not None:
                return r if last(v) in ("Some", "Ok") else ".%s.%d%s" % (last(v), i_, r)
        return None
    if k == "Struct":
        for f in p["fields"]:
            r = _pat_path(f["pat"], bid)
            if r is not None:
                return "." + f["name"] + r
        return None
    if k in ("Tuple", "Or"):
        for i_, q in enumerate(p["pats"]):
            r = _pat_path(q, bid)
            if r is not None:
                return (".%d" % i_ if k == "Tuple" else "") + r
        return None
    return None



def rule_same_finder(prog):
    """find-references and rename obtain their occurrences from the same finder with the same arguments."""
    out = Out("SAME-FINDER")
    c = prog.lsp
    sigs = {}

    def is_whole_tokens(e):
        """e denotes `<AnalyzedSource>.tokens`"""
        e = hir.strip_ref(e)
        if e.get("k") == "Field" and e["name"] == "tokens":
            t = c.tstr(e["base"]["t"])
            for ad in e["base"].get("adj") or []:
                t = c.tstr(ad["to"])
            return "AnalyzedSource" in t
        return False

    def _param_ids_of(body):
        ids = []
        for pp in body["params"]:
            bs = list(hir.pat_bindings(pp))
            ids.append(bs[0]["id"] if len(bs) == 1 else None)
        return ids

    def tokens_arg_ok(body, depth=2):
        """every to_text_range(..) reachable from body gets the document's whole token vector -> True/False/None"""
        res = None
        for n in hir.nodes(body["body"]):
            if n.get("k") == "MethodCall" and n["m"] == "to_text_range" and n["args"] and \
                    hir.adt_path(c, n["recv"]["t"]) == "spl_frontend::ast::Identifier":
                a0 = n["args"][0]
                if is_whole_tokens(a0):
                    res = True if res is None else res
                else:
                    pl = hir.path_local(hir.strip_ref(a0))
                    if pl and pl["id"] in _param_ids_of(body):
                        res = ("param", _param_ids_of(body).index(pl["id"])) if res is None else res
                    else:
                        return False
            elif n.get("k") == "Call" and depth > 0:
                hb = hir.local_callee_body(prog, n)
                if hb is None or hb["_crate"] is not c or hb["p"] == body["p"]:
                    continue
                r = tokens_arg_ok(hb, depth - 1)
                if isinstance(r, tuple):
                    i_ = r[1]
                    r = is_whole_tokens(n["args"][i_]) if i_ < len(n["args"]) else False
                if r is False:
                    return False
                if r is True and res is None:
                    res = True
        return res

    for fn in ("find", "rename"):
        b = prog.body("lsp4spl::features::references::" + fn)
        if b is None:
            out.missing("references::" + fn)
            return out
        # the finder: the local function that hands out the vector of occurrences
        calls = []
        # (the call may sit in a helper both handlers share: `target.occurrences(|occurrence| ..)`)
        level = [b]
        for _ in range(3):
            nxt_ = []
            for lb in level:
                for n in hir.nodes(lb["body"]):
                    if n.get("k") not in ("Call", "MethodCall"):
                        continue
                    hb = hir.local_callee_body(prog, n)
                    if hb is None or hb["_crate"] is not c or "sig_out" not in hb:
                        continue
                    so = c.tstr(hb["sig_out"])
                    if "Vec<" in so and ("ast::Identifier" in so or "features::Ident" in so):
                        calls.append((hb["p"], n))
                    elif hb["p"].startswith("lsp4spl::features::references") and hb not in nxt_:
                        nxt_.append(hb)
            if calls or not nxt_:
                break
            level = nxt_
        sigs[fn] = [(p_,) + tuple(_origin(prog, c, _body_of(c, n, b), a) for a in n["args"]) for p_, n in calls]
        r = tokens_arg_ok(b)
        ok_tk = r if r in (True, False) else None
        out.add("references::" + fn, "occurrences are converted against the whole token vector", ok_tk,
                c.loc(b["sp"]), "")
    # the occurrences of a *global* entity (a procedure is called in a call statement, a type is named in a type position - neither can be
    # hidden by a parameter or variable of the same name) are collected without consulting a local table: the collector that an
    # `Entry::Procedure` / `Entry::Type` arm hands the name to looks at every procedure
    ENTRY_ = "spl_frontend::table::Entry::"
    n_glob, bad_glob = 0, None
    for b in c.bodies:
        if not b["p"].startswith("lsp4spl::features::references") or "/tests" in c.file_of(b["sp"]):
            continue
        for m_ in hir.nodes(b["body"], "Match"):
            for a_ in m_["arms"]:
                vs_ = set(hir.pat_variants_all(a_["pat"]))
                if not vs_ or not vs_ <= {ENTRY_ + "Procedure", ENTRY_ + "Type"}:
                    continue
                for call in hir.nodes(a_["body"], "Call"):
                    hb = hir.local_callee_body(prog, call)
                    if hb is None or hb["_crate"] is not c or "sig_out" not in hb or "Vec<" not in c.tstr(hb["sig_out"]):
                        continue
                    n_glob += 1
                    for x in hir.nodes_deep(prog, hb["body"], 3, crate=c):
                        if x.get("k") in ("Call", "MethodCall") and last(hir.callee(x) or "") == "get_local_table":
                            bad_glob = bad_glob or (hb, x)
                        if x.get("k") == "MethodCall" and x["m"] == "lookup" and "LocalTable" in (
                                c.tstr(hir.strip_ref(x["recv"])["t"]) + "".join(c.tstr(ad_["to"]) for ad_ in hir.strip_ref(x["recv"]).get("adj") or [])):
                            bad_glob = bad_glob or (hb, x)
                        if x.get("k") == "Field" and x["name"] == "local_table":
                            bad_glob = bad_glob or (hb, x)
    if n_glob:
        out.add("references", "the occurrences of a procedure / type are collected without consulting a local table", bad_glob is None,
                c.loc(bad_glob[1]["sp"]) if bad_glob else "", ("%s asks a local table; " % bad_glob[0]["d"] if bad_glob else "") +
                "a parameter or variable does not hide a procedure or a type (calls and type positions are syntactically apart): "
                "for `proc count(count: int)` the collector skips the whole procedure, header name included - references from a call answer "
                "nothing, rename leaves the declaration as it was", ("globalsearch",))
    # what the finder found is handed out as it is: nothing drops occurrences by their position in the list (`skip(1)` for "the
    # declaration comes first": a procedure may be called above its declaration, and with the cursor on a use the declaration is one of
    # "the other occurrences")
    PRUNE = ("skip", "take", "step_by", "truncate", "pop", "remove", "swap_remove", "drain", "split_off", "split_first", "split_last", "nth", "last", "first")
    pruned = None
    for fn in ("find", "rename"):
        b = prog.body("lsp4spl::features::references::" + fn)
        if b is None:
            continue
        for mc in hir.nodes_deep(prog, b["body"], 1, crate=c):
            if mc.get("k") != "MethodCall" or mc["m"] not in PRUNE:
                continue
            r_ = hir.strip(mc["recv"])
            chain_ = []
            while r_.get("k") == "MethodCall":
                chain_.append(r_)
                r_ = hir.strip(r_["recv"])
            ts_ = [c.tstr(y["t"]) + "".join(c.tstr(a_["to"]) for a_ in y.get("adj") or []) for y in [hir.strip(mc["recv"])] + chain_ + [r_]]
            if any(("ast::Identifier" in t_ or "features::Ident" in t_) and ("Vec<" in t_ or "Iter" in t_ or "[" in t_) for t_ in ts_):
                pruned = pruned or (b, mc)
    out.add("references", "the occurrences found are handed out as they are (none dropped by its position in the list)", pruned is None,
            c.loc(pruned[1]["sp"]) if pruned else "", ("`.%s(..)` on the occurrences in %s; " % (pruned[1]["m"], pruned[0]["d"]) if pruned else "") +
            "find-references answers exactly the other occurrences of the binding: dropping `the first` one loses a call that stands above the "
            "declaration, or the declaration itself when the request was made on a use", ("pruned",))
    same_ = None
    if sigs["find"] or sigs["rename"]:
        if len(sigs["find"]) == 1 and sigs["find"] == sigs["rename"]:
            same_ = True
        elif len(sigs["find"]) == 1 and len(sigs["rename"]) == 1 and sigs["find"][0][0] == sigs["rename"][0][0] and \
                len(sigs["find"][0]) == len(sigs["rename"][0]) and all(
                    x_ == y_ or "?" in x_ or "?" in y_ for x_, y_ in zip(sigs["find"][0][1:], sigs["rename"][0][1:])):
            same_ = None  # same finder; where an argument comes from is not traceable on one side
        else:
            same_ = False
    out.add("references", "find and rename use the same finder with the same arguments", same_, "",
            "find: %s rename: %s (an argument is named by where it comes from)" % (sigs["find"], sigs["rename"]))
    # prepare-rename offers a rename exactly when rename performs one: both refuse under the same conditions
    def shape(e, depth=0):
        e = hir.strip_ref(e)
        k = e.get("k")
        if depth > 6:
            return "?"
        if k == "Lit":
            return "lit:%s" % hir.lit_value(e)
        if k == "Path":
            if last(e["res"].get("ctor_of", "")) == "None":
                return "None"
            if e["res"].get("k") == "Local":
                # (by reference or by value: the same thing is asked about)
                return "local<%s>" % c.tstr(e["t"]).replace(" ", "").lstrip("&").replace("mut", "", 1) if c.tstr(e["t"]).startswith("&") \
                    else "local<%s>" % c.tstr(e["t"]).replace(" ", "")
            return "path:%s" % last(e["res"].get("p", "?"))
        if k == "Field":
            return ".%s" % e["name"]
        if k == "Call":
            d = hir.path_def(e["f"])
            nm = last((d or {}).get("ctor_of") or (d or {}).get("p", "?"))
            return "%s(%s)" % (nm, ",".join(shape(a, depth + 1) for a in e["args"]))
        if k == "MethodCall":
            return "%s.%s(%s)" % (shape(e["recv"], depth + 1), e["m"], ",".join(shape(a, depth + 1) for a in e["args"]))
        if k == "Binary":
            ops = sorted([shape(e["l"], depth + 1), shape(e["r"], depth + 1)]) if e["op"] in ("==", "!=", "&&", "||") else [shape(e["l"], depth + 1), shape(e["r"], depth + 1)]
            return "(%s %s %s)" % (ops[0], e["op"], ops[1])
        if k == "Unary":
            return "%s%s" % (e.get("op"), shape(e.get("e", {}), depth + 1))
        return k or "?"

    refusals = {}
    for fn in ("rename", "prepare_rename"):
        b = prog.body("lsp4spl::features::references::" + fn)
        if b is None:
            continue
        conds = []
        # the value the function ends with (the tail expression of its block, through `async` desugaring)
        tail_ = hir.strip(b["body"])
        for _ in range(6):
            if tail_.get("k") == "Closure":
                tail_ = hir.strip(tail_["body"])
            elif tail_.get("k") == "BlockExpr" and tail_["b"].get("expr") is not None:
                tail_ = hir.strip(tail_["b"]["expr"])
            else:
                break
        # (the refusals may sit in a helper of the module the function calls: `rename_target(params, doctx).await?`)
        roots_ = [b["body"]]
        lvl_ = [b]
        for _ in range(2):
            nx_ = []
            for lb in lvl_:
                for cl_ in hir.nodes(lb["body"], "Call"):
                    hb = hir.local_callee_body(prog, cl_)
                    if hb is not None and hb["_crate"] is c and hb["p"].startswith("lsp4spl::features::references") and \
                            "sig_out" in hb and "Option<" in c.tstr(hb["sig_out"]) and hb["body"] not in roots_ and hb["k"] != "closure":
                        roots_.append(hb["body"])
                        nx_.append(hb)
            lvl_ = nx_
        # `cond.then(|| answer)` / `cond.then_some(answer)`: nothing is answered unless cond
        for r0_ in roots_:
            for mc_ in hir.nodes(r0_, "MethodCall"):
                if mc_["m"] in ("then", "then_some") and c.tstr(hir.strip(mc_["recv"])["t"]) == "bool":
                    cond_ = hir.strip(mc_["recv"])
                    neg = False
                    while cond_.get("k") == "Unary" and cond_.get("op") in ("!", "Not", "not"):
                        neg = not neg
                        cond_ = hir.strip(cond_["e"])
                    conds.append(("refuse-if " if neg else "refuse-unless ") + shape(cond_))
        for iff in [x_ for r0_ in roots_ for x_ in hir.nodes(r0_, "If")]:
            if hir.strip(iff["cond"]).get("k") == "LetExpr":
                continue
            rets = [r for r in hir.nodes(iff["then"], "Ret")]
            if not rets and iff is tail_ and iff.get("else") is not None:
                # `if c { Ok(Some(..)) } else { Ok(None) }` as the function's value: the branches answer directly
                rets = [iff["then"]]
            returns_none = any(any(last(pth["res"].get("ctor_of", "")) == "None" for pth in hir.nodes(r, "Path")) for r in rets)
            returns_some = any(any(last(pth["res"].get("ctor_of", "")) == "Some" for pth in hir.nodes(r, "Path")) for r in rets) and not returns_none
            # canonical form: the condition under which nothing is answered.  `if !c { return None }` and
            # `if c { return Some(..) }` (with None behind it) say the same
            cond_ = hir.strip(iff["cond"])
            neg = False
            while cond_.get("k") == "Unary" and cond_.get("op") in ("!", "Not", "not"):
                neg = not neg
                cond_ = hir.strip(cond_["e"])
            if returns_none:
                conds.append(("refuse-unless " if neg else "refuse-if ") + shape(cond_))
            elif returns_some:
                conds.append(("refuse-if " if neg else "refuse-unless ") + shape(cond_))
        refusals[fn] = sorted(conds)
    # what rename refuses: the entities that have no declaration in the document (predefined ones) - decided from the *binding* of
    # the identifier (its looked-up entry, `is_default()`), not from its spelling: `printi` is predefined without being spelled `int`,
    # and a variable may be spelled `int`
    rb_ = prog.body("lsp4spl::features::references::rename")
    if rb_ is not None:
        by_binding = False
        by_spelling = None
        rroots_ = [rb_["body"]]
        for cl_ in hir.nodes(rb_["body"], "Call"):
            hb = hir.local_callee_body(prog, cl_)
            if hb is not None and hb["_crate"] is c and hb["p"].startswith("lsp4spl::features::references") and \
                    "sig_out" in hb and "Option<" in c.tstr(hb["sig_out"]) and hb["k"] != "closure":
                rroots_.append(hb["body"])
        for iff in [x_ for r0_ in rroots_ for x_ in hir.nodes(r0_, "If")]:
            if hir.strip(iff["cond"]).get("k") == "LetExpr":
                continue
            rets = [r for r in hir.nodes(iff["then"], "Ret")]
            if not any(any(last(pth["res"].get("ctor_of", "")) == "None" for pth in hir.nodes(r, "Path")) for r in rets):
                continue
            for x in hir.nodes_deep(prog, iff["cond"], 2, crate=c):
                if x.get("k") == "MethodCall" and x["m"] == "is_default":
                    by_binding = True
                if x.get("k") == "Binary" and x["op"] in ("==", "!=") and any(
                        y.get("k") == "Lit" and y["lit"].get("k") == "str" for y in hir.nodes(x)):
                    by_spelling = x
        out.add("references::rename", "rename is refused for predefined entities, decided from the binding of the identifier", by_binding,
                c.loc((by_spelling or rb_)["sp"]), "rename %s: a predefined procedure (`printi`) can be renamed although it has no declaration - the renamed "
                "calls become undefined procedures - and an entity that merely shares the spelling cannot"
                % ("refuses by comparing the identifier's text with a literal" if by_spelling is not None else "has no refusal that asks `is_default()`"))
    if len(refusals) == 2:
        out.add("references", "prepare-rename refuses under exactly the conditions under which rename refuses",
                (refusals["rename"] == refusals["prepare_rename"]) if (refusals["rename"] or refusals["prepare_rename"]) else None, "",
                "rename refuses on %s, prepare-rename on %s: a name for which one of them answers and the other does not is offered for "
                "renaming and then not renamed (or the other way round)" % (refusals["rename"], refusals["prepare_rename"]))
    return out
