"""FRAME: abstract interpretation of the typed HIR over *reference frames*.

Every position stored in the AST (AstInfo.range, error ranges, identifiers) is relative to the nearest
enclosing `Reference<T>`; `Reference.offset` is the distance between the parent frame's origin and the
child's. Code that goes through a Reference therefore has to compensate exactly once: shift what it
brings back by `r.offset`, or re-base the token slice (`&tokens[r.offset..]`) / the accumulated origin
(`origin + r.offset`) on the way down. This module assigns every expression an abstract *frame*
(base + multiset of crossed, not yet compensated references) and reports where two definite frames
that must agree do not.

Imprecision only produces `Unknown`, which never raises an alarm; the number of *decided* sinks is
guarded by floors in props.py.
"""
from . import hir
from .rules_tables import last

AST = "spl_frontend::ast::"
REF = AST + "Reference"
TOKEN = "spl_frontend::tokens::Token"
SPLERR = "spl_frontend::error::SplError"
RANGE = "core::ops::range::Range"

TRANSPARENT_WRAPPERS = ("alloc::boxed::Box", "core::option::Option", "alloc::vec::Vec", "core::result::Result",
                        "alloc::rc::Rc", "alloc::sync::Arc")


# ---------------------------------------------------------------- abstract values

class Frame:
    __slots__ = ("base", "syms")

    def __init__(self, base, syms=()):
        self.base = base            # 'here' | 'abs' | ('ent', sym) | None (unknown)
        self.syms = tuple(sorted(syms))

    def plus(self, sym):
        return Frame(self.base, self.syms + (sym,))

    def minus(self, sym):
        s = list(self.syms)
        if sym in s:
            s.remove(sym)
            return Frame(self.base, s)
        return None

    def known(self):
        return self.base is not None

    def __eq__(self, o):
        return isinstance(o, Frame) and self.base == o.base and self.syms == o.syms

    def __hash__(self):
        return hash((self.base, self.syms))

    def __repr__(self):
        b = self.base if not isinstance(self.base, tuple) else "ent:%s" % (self.base[1],)
        return "%s%s" % (b, "".join("+" + short_sym(s) for s in self.syms))


def short_sym(s):
    return s.split("#")[0] if isinstance(s, str) else str(s)


class AV:
    __slots__ = ("k", "frame", "sym", "items", "unit")

    def __init__(self, k, frame=None, sym=None, items=None, unit=None):
        self.k = k              # unk none node ref pos off orig toks tuple token
        self.frame = frame
        self.sym = sym
        self.items = items
        self.unit = unit

    def __repr__(self):
        if self.k in ("node", "pos", "toks", "orig"):
            return "%s(%r)" % (self.k, self.frame)
        if self.k == "ref":
            return "ref(%r,%s)" % (self.frame, short_sym(self.sym))
        if self.k == "off":
            return "off(%s)" % short_sym(self.sym)
        if self.k == "tuple":
            return "(%s)" % ", ".join(map(repr, self.items))
        return self.k


UNIT_NAMES = {"tok": "token", "byte": "byte"}
UNK = AV("unk")
NONE = AV("none")


def node_frame(av):
    """Frame in which `av` lives when used *as a node* (a Reference counts as crossed)."""
    if av.k in ("node", "pos", "toks", "orig"):
        return av.frame
    if av.k == "ref":
        return av.frame.plus(av.sym) if av.frame is not None else None
    return None


def join(a, b):
    if a is b:
        return a
    if a.k == "none":
        return b
    if b.k == "none":
        return a
    if a.k == "unk" or b.k == "unk":
        return UNK
    if a.k != b.k:
        return UNK
    if a.k == "tuple":
        if len(a.items) != len(b.items):
            return UNK
        return AV("tuple", items=[join(x, y) for x, y in zip(a.items, b.items)])
    if a.k in ("node", "pos", "toks", "orig"):
        return a if a.frame == b.frame else AV(a.k, Frame(None))
    if a.k == "ref":
        return a if (a.frame == b.frame and a.sym == b.sym) else UNK
    if a.k == "off":
        return a if a.sym == b.sym else UNK
    return a


# ---------------------------------------------------------------- type classification

class Types:
    def __init__(self, crate):
        self.c = crate
        self.memo = {}

    def peel(self, ti):
        """peel refs and transparent wrappers (Box/Option/Vec/slices/arrays)"""
        t = self.c.ty(ti)
        while True:
            k = t["k"]
            if k in ("ref", "slice", "array", "ptr"):
                t = self.c.ty(t["t"])
            elif k == "adt" and t["p"] in TRANSPARENT_WRAPPERS and t["a"]:
                t = self.c.ty(int(t["a"][0]))
            else:
                return t

    def cls(self, ti):
        if ti in self.memo:
            return self.memo[ti]
        t = self.peel(ti)
        k = t["k"]
        r = "other"
        if k == "adt":
            p = t["p"]
            if p == REF:
                r = "ref"
            elif p.startswith(AST) and last(p) != "Operator":
                r = "node"
            elif p == RANGE:
                r = "pos"
            elif p == SPLERR:
                r = "pos"
            elif p == TOKEN:
                r = "toks" if self._is_seq(ti) else "token"
            elif p.startswith("spl_frontend::table::") and last(p) in ("TypeEntry", "ProcedureEntry", "VariableEntry", "GlobalEntry", "LocalEntry", "Entry"):
                r = "entry"
            elif p == "spl_frontend::AnalyzedSource":
                r = "doc"
        elif k == "param":
            r = "generic"
        elif k == "prim" and t["s"] == "usize":
            r = "num"
        elif k == "tuple":
            r = "tuple"
        self.memo[ti] = r
        return r

    def _is_seq(self, ti):
        t = self.c.ty(ti)
        while True:
            k = t["k"]
            if k in ("slice", "array"):
                return True
            if k == "ref":
                t = self.c.ty(t["t"])
            elif k == "adt" and t["p"] == "alloc::vec::Vec":
                return True
            elif k == "adt" and t["p"] in TRANSPARENT_WRAPPERS and t["a"]:
                t = self.c.ty(int(t["a"][0]))
            else:
                return False

    def mentions_ref(self, ti):
        return hir.type_mentions(self.c, ti, REF)


# ---------------------------------------------------------------- the interpreter

ELEMENT_PRESERVING = {
    "clone", "cloned", "copied", "to_owned", "iter", "iter_mut", "into_iter", "as_deref", "as_deref_mut", "as_slice",
    "to_vec", "unwrap", "expect", "unwrap_or_default", "collect", "rev", "peekable", "first", "last", "get", "flatten",
    "take", "skip", "by_ref", "borrow", "borrow_mut", "into", "chain", "unwrap_or_else", "ok", "as_mut_slice",
    "split_first", "next", "nth", "get_mut", "first_mut", "last_mut", "into_boxed_slice", "as_ptr", "to_string_never",
    "unwrap_unchecked", "drain", "unwrap_or", "or", "copied", "fuse",
}
CLOSURE_MAP = {"map", "filter_map", "flat_map", "and_then", "find_map", "then", "map_while"}
CLOSURE_KEEP = {"filter", "find", "skip_while", "take_while", "inspect", "position", "any", "all", "for_each", "retain",
                "max_by_key", "min_by_key", "is_some_and"}
STD_TRANSPARENT_FNS = {"box_assume_init_into_vec_unsafe", "write_box_via_move", "into_vec", "new", "box_new", "from",
                       "into", "from_iter", "new_uninit", "with_capacity", "default", "from_elem", "zip", "drop", "identity"}
CROSSING_METHODS = {"as_ref", "as_mut", "deref", "deref_mut"}


class Sink:
    __slots__ = ("kind", "ok", "loc", "msg", "what", "sp")

    def __init__(self, kind, ok, sp, what, msg):
        self.kind, self.ok, self.sp, self.what, self.msg = kind, ok, sp, what, msg


class FnSummary:
    def __init__(self):
        self.result = UNK
        self.conv = "A"
        self.sinks = []
        self.convention = {}     # param index -> 'rebased' if tokens are expected pre-rebased for that ref param
        self.param_avs = []


class Interp:
    def __init__(self, prog):
        self.prog = prog
        self.summaries = {}
        self.in_progress = set()
        self.types = {name: Types(c) for name, c in prog.crates.items()}
        self.ref_impls = set()
        for c in prog.crates.values():
            for ip, impl in c.impls.items():
                st = c.ty(impl["self"])
                if st["k"] == "adt" and st["p"] == REF:
                    self.ref_impls.add(ip)
        # Box<T>/Reference<T> forwarding impls of local traits (Format for Box<T>): treated as transparent
        self.origin_params = ORIGIN_PARAMS
        self.pass2 = False
        self._roles = None
        self._roles_done = False

    # ------------------------------------------------------------ summaries
    def summary(self, path):
        """Pass-1 summary (convention + result) of a function; recursion yields None."""
        if path in self.summaries:
            return self.summaries[path]
        b = self.prog.body(path)
        if b is None or path in self.in_progress:
            return None
        self.in_progress.add(path)
        try:
            s = self.analyse_body(b, "A")
            s.conv = "A"
            if any(x.ok is False for x in s.sinks):
                # maybe the function expects its token slice pre-rebased for its Reference parameter
                s2 = self.analyse_body(b, "B")
                if not any(x.ok is False for x in s2.sinks):
                    s = s2
                    s.conv = "B"
            self.summaries[path] = s
            return s
        finally:
            self.in_progress.discard(path)

    def final(self, path):
        """Pass-2: re-analyse with every callee summary (incl. recursive ones) known."""
        b = self.prog.body(path)
        s1 = self.summaries.get(path)
        if b is None or s1 is None:
            return None
        self.pass2 = True
        try:
            return self.analyse_body(b, s1.conv)
        finally:
            self.pass2 = False

    def _param_roles(self, b):
        """A `usize` parameter that is added to a Reference's `.offset` (or passed on as / bound to such a sum) is an
        accumulated origin of the function's frame; a token-slice parameter that is indexed `tokens[origin..]` (or passed
        on to / received from such a parameter) is the absolute token vector.  Computed once for the whole program as a
        fixpoint over the call graph, so it does not depend on which helper the `+ r.offset` happens to live in."""
        if self._roles is None or not self._roles_done:
            self._compute_roles()
        return self._roles.get(b["p"], {})

    def _compute_roles(self):
        self._roles = {}
        self._roles_done = True
        prog = self.prog
        nums, toks, pidx = {}, {}, {}
        bodies = [b for b in prog.bodies() if b.get("body") and b["k"] in ("fn", "assoc_fn")]
        for b in bodies:
            c = b["_crate"]
            ty = self.types[c.name]
            nums[b["p"]], toks[b["p"]] = set(), set()
            pidx[b["p"]] = []
            for p in b["params"]:
                pid = p["id"] if p.get("k") == "Binding" else None
                pidx[b["p"]].append(pid)
                if pid is None:
                    continue
                t = c.tstr(p["bt"]).replace("&", "").strip()
                if t == "usize":
                    nums[b["p"]].add(pid)
                elif ty.cls(p["bt"]) == "toks":
                    toks[b["p"]].add(pid)
        origin = set()      # (fn path, param id)
        abs_toks = set()

        def local_id(e):
            e = hir.strip_ref(e)
            if e.get("k") == "Path" and e["res"].get("k") == "Local":
                return e["res"]["id"]
            return None

        def is_offset_sum(c, e):
            e = hir.strip_ref(e)
            if e.get("k") != "Binary" or e["op"] != "+":
                return None
            ty = self.types[c.name]
            sides = [hir.strip_ref(e["l"]), hir.strip_ref(e["r"])]
            off = [x for x in sides if x.get("k") == "Field" and x["name"] == "offset" and ty.cls(x["base"]["t"]) == "ref"]
            if not off:
                return None
            other = [x for x in sides if x is not off[0]]
            return other[0] if other else None

        # seeds: p + r.offset inside the function
        for b in bodies:
            for n in hir.nodes(b["body"], "Binary"):
                o = is_offset_sum(b["_crate"], n)
                if o is not None and local_id(o) in nums[b["p"]]:
                    origin.add((b["p"], local_id(o)))
        calls = []
        for b in bodies:
            for call in hir.nodes(b["body"]):
                if call.get("k") not in ("Call", "MethodCall"):
                    continue
                hb = hir.local_callee_body(prog, call)
                if hb is None or hb["p"] not in pidx:
                    continue
                args = ([call["recv"]] if call.get("k") == "MethodCall" else []) + list(call["args"])
                calls.append((b, hb, args))
        # a function that is handed an origin and cuts its token slice at an offset it receives *inside a probe closure*
        # (`let covers = |call, call_offset| call.to_text_range(&tokens[call_offset..]).contains(index)`) treats the slice as the
        # absolute token vector: the offsets the closure is called with are origins computed on the way down
        def probe_closures():
            added = False
            for b in bodies:
                if not any((b["p"], pid_) in origin for pid_ in nums[b["p"]]):
                    continue
                clo_params = set()
                for cl_ in hir.nodes(b["body"], "Closure"):
                    for q_ in cl_.get("params") or []:
                        for bd in hir.pat_bindings(q_):
                            if b["_crate"].tstr(bd["bt"]).replace("&", "").strip() == "usize":
                                clo_params.add(bd["id"])
                if not clo_params:
                    continue
                for n in hir.nodes(b["body"], "Index"):
                    bid = local_id(n["base"])
                    idx = hir.strip(n["idx"])
                    if bid in toks[b["p"]] and idx.get("k") == "Struct":
                        for f in idx["fields"]:
                            if f["name"] == "start" and local_id(f["e"]) in clo_params:
                                if (b["p"], bid) not in abs_toks:
                                    abs_toks.add((b["p"], bid))
                                    added = True
            return added
        changed = True
        rounds = 0
        while changed and rounds < 10:
            changed = False
            rounds += 1
            for b, hb, args in calls:
                hp = pidx[hb["p"]]
                for i, a in enumerate(args):
                    if i >= len(hp) or hp[i] is None:
                        continue
                    lid = local_id(a)
                    if hp[i] in nums[hb["p"]]:
                        key = (hb["p"], hp[i])
                        if key not in origin:
                            # upward: bound to `x + r.offset` or to an origin of the caller
                            a_s = hir.strip_ref(a)
                            top_level = a_s.get("k") == "Field" and a_s["name"] == "offset" and \
                                self.types[b["_crate"].name].cls(a_s["base"]["t"]) == "ref"   # (`gd.offset`: the origin of a top-level child is 0)
                            if top_level or is_offset_sum(b["_crate"], a) is not None or (lid is not None and (b["p"], lid) in origin):
                                origin.add(key)
                                changed = True
                        if key in origin and lid in nums[b["p"]] and (b["p"], lid) not in origin:
                            # downward: handed on unchanged to an origin parameter
                            origin.add((b["p"], lid))
                            changed = True
                    elif hp[i] in toks[hb["p"]]:
                        key = (hb["p"], hp[i])
                        if lid in toks[b["p"]]:
                            ck = (b["p"], lid)
                            if key in abs_toks and ck not in abs_toks:
                                abs_toks.add(ck)
                                changed = True
                            elif ck in abs_toks and key not in abs_toks:
                                abs_toks.add(key)
                                changed = True
            if probe_closures():
                changed = True
            # tokens[origin..]
            for b in bodies:
                for n in hir.nodes(b["body"], "Index"):
                    bid = local_id(n["base"])
                    idx = hir.strip(n["idx"])
                    # tokens[<range>.shift(origin)]: a range moved to the absolute frame indexes absolute tokens
                    if bid in toks[b["p"]] and idx.get("k") == "MethodCall" and idx["m"] == "shift" and idx["args"]:
                        vid = local_id(idx["args"][0])
                        if vid in nums[b["p"]] and (b["p"], vid) in origin and (b["p"], bid) not in abs_toks:
                            abs_toks.add((b["p"], bid))
                            changed = True
                    if bid in toks[b["p"]] and idx.get("k") == "Struct":
                        for f in idx["fields"]:
                            vid = local_id(f["e"])
                            if f["name"] == "start" and vid in nums[b["p"]] and (b["p"], vid) in origin and (b["p"], bid) not in abs_toks:
                                abs_toks.add((b["p"], bid))
                                changed = True
        for fp, pid in origin:
            self._roles.setdefault(fp, {})[pid] = AV("orig", Frame("here"))
        for fp, pid in abs_toks:
            self._roles.setdefault(fp, {})[pid] = AV("toks", Frame("abs"))

    def _returns_identifier(self, b):
        if "sig_out" not in b:
            return False
        t = self.types[b["_crate"].name].peel(b["sig_out"])
        return t["k"] == "adt" and t["p"] == AST + "Identifier"

    def analyse_body(self, b, convention):
        c = b["_crate"]
        ty = self.types[c.name]
        s = FnSummary()
        st = State(self, b, s)
        env = {}
        ref_params = []
        for i, p in enumerate(b["params"]):
            if p.get("k") != "Binding":
                st.bind(p, UNK, env)
                continue
            cls = ty.cls(p["bt"])
            name = p["name"]
            key = (b["p"], name)
            roles = self._param_roles(b)
            if p["id"] in roles:
                av = roles[p["id"]]
            elif cls == "ref":
                av = AV("ref", Frame("here"), sym="param:%s#%s" % (name, p["id"]))
                ref_params.append((i, av))
            elif cls == "node":
                av = AV("node", Frame("here"))
            elif cls == "toks":
                av = AV("toks", Frame("here"))
                if b.get("impl_trait") == "spl_frontend::ToTextRange" and s.param_avs and s.param_avs[0].k == "entry":
                    av = AV("toks", Frame(("ent", s.param_avs[0].sym)))
            elif cls == "generic":
                av = AV("node", Frame("here"))
            elif cls == "pos":
                av = AV("pos", Frame("here"))
            elif cls == "doc":
                av = AV("doc")
            elif cls == "entry":
                av = AV("entry", sym="%s#%s" % (name, p["id"]))
            else:
                av = NONE
            s.param_avs.append(av)
            env[p["id"]] = av
        if convention == "B" and ref_params:
            # tokens arrive already re-based for the (single) Reference parameter
            i, rav = ref_params[0]
            for j, p in enumerate(b["params"]):
                if p.get("k") == "Binding" and ty.cls(p["bt"]) == "toks":
                    env[p["id"]] = AV("toks", Frame("here").plus(rav.sym))
                    s.convention[i] = "rebased"
        elif convention == "B":
            s.sinks.append(Sink("conv", False, b["sp"], "no-ref-param", ""))
        res = st.eval(b["body"], env)
        for r in st.returns:
            res = join(res, r)
        s.result = res
        # S4: the result of a walker lives in the frame of its arguments
        f = node_frame(res) if res.k in ("pos", "node") else None
        if res.k == "tuple":
            fs = [node_frame(x) for x in res.items if x.k in ("pos", "node", "orig")]
            fs = [x for x in fs if x is not None and x.known()]
            if len(fs) >= 2:
                ok = all(x == fs[0] for x in fs)
                s.sinks.append(Sink("S4", ok, b["sp"], "result tuple components share one frame",
                                    "components are in frames %s" % fs))
        elif f is not None and f.known() and (res.k == "pos" or (res.k == "node" and self._returns_identifier(b))):
            exp = Frame("here")
            if convention == "B" and ref_params:
                exp = None
            if exp is not None and f.base in ("here",):
                ok = f == exp
                s.sinks.append(Sink("S4", ok, b["sp"], "result is in the frame of the function's node arguments",
                                    "the returned positions are in frame `%r` instead of `here`: a Reference was crossed "
                                    "(%s) without adding its offset, or an offset was added that was not crossed"
                                    % (f, ", ".join(short_sym(x) for x in f.syms) or "-")))
        return s


ORIGIN_PARAMS = {}


def origin(path, name, av):
    ORIGIN_PARAMS[(path, name)] = av




class State:
    def __init__(self, interp, body, summary):
        self.I = interp
        self.b = body
        self.c = body["_crate"]
        self.ty = interp.types[self.c.name]
        self.s = summary
        self.returns = []
        self.fresh = 0

    # -------------------------------------------------------- helpers
    def sink(self, kind, ok, sp, what, msg):
        self.s.sinks.append(Sink(kind, ok, sp, what, msg))

    def cmp_frames(self, kind, fa, fb, sp, what, msg):
        if fa is None or fb is None or not fa.known() or not fb.known():
            self.sink(kind, None, sp, what, "undecided: %r vs %r" % (fa, fb))
            return
        if fa != fb and {fa.base, fb.base} == {"here", "abs"}:
            # the function's own frame may or may not be the absolute one: not decidable locally
            self.sink(kind, None, sp, what, "undecided: %r vs %r" % (fa, fb))
            return
        self.sink(kind, fa == fb, sp, what, msg % {"a": fa, "b": fb})

    def sym_for(self, e, binding=None):
        pl = place_of(e)
        if pl:
            return "f:" + pl
        self.fresh += 1
        return "x:%s:%d:%d" % (self.b["name"], e["sp"][1], self.fresh)

    # -------------------------------------------------------- binding
    def bind(self, p, av, env):
        k = p.get("k")
        if k == "Binding":
            if av.k in ("unk", "none") and self.ty.cls(p["bt"]) == "doc":
                # a document is a document whatever way it took (received from a channel, handed on through matches)
                env[p["id"]] = AV("doc")
            elif av.k == "unk":
                # classify from the binding's type: a fresh node/ref we know nothing about
                env[p["id"]] = UNK
            else:
                env[p["id"]] = av
            if p.get("sub"):
                self.bind(p["sub"], av, env)
        elif k in ("Ref", "Box"):
            self.bind(p["pat"], av, env)
        elif k == "Tuple":
            items = av.items if av.k == "tuple" else None
            for i, q in enumerate(p["pats"]):
                self.bind(q, items[i] if items and i < len(items) else (NONE if av.k == "none" else UNK), env)
        elif k == "TupleStruct":
            v = hir.pat_variant(p) or ""
            lv = last(v)
            if lv in ("Some", "Ok", "Err") and v.startswith("core::"):
                for q in p["pats"]:
                    self.bind(q, av, env)
            elif v.startswith(AST) or v.startswith("spl_frontend::table::"):
                for q in p["pats"]:
                    self.bind_field(q, av, env)
            else:
                for q in p["pats"]:
                    self.bind(q, UNK if av.k != "none" else NONE, env)
        elif k == "Struct":
            v = hir.pat_variant(p) or ""
            if v == REF:
                for f in p["fields"]:
                    if f["name"] == "reference":
                        inner = AV("node", av.frame.plus(av.sym)) if av.k == "ref" else UNK
                        # the payload pattern (e.g. Statement::If(x)) binds nodes of that frame
                        self.bind(f["pat"], inner, env)
                    elif f["name"] == "offset":
                        self.bind(f["pat"], AV("off", sym=av.sym) if av.k == "ref" else UNK, env)
            else:
                for f in p["fields"]:
                    self.bind_field(f["pat"], av, env)
        elif k == "Or":
            for q in p["pats"]:
                self.bind(q, av, env)
        elif k == "Guard":
            self.bind(p["pat"], av, env)
        elif k == "Slice":
            for q in p["before"] + ([p["mid"]] if p.get("mid") else []) + p["after"]:
                self.bind(q, av, env)

    def bind_field(self, q, parent, env):
        """q is a sub-pattern destructuring a field of a node/entry `parent`."""
        for bd in hir.pat_bindings(q):
            env[bd["id"]] = self.field_value(parent, bd["bt"], "b:%s#%s" % (bd["name"], bd["id"]))
        # nested enum patterns (Statement::If(x) inside Reference{..}) handled by pat_bindings above

    def field_value(self, parent, ti, sym):
        cls = self.ty.cls(ti)
        if parent.k == "node":
            if cls == "ref":
                return AV("ref", parent.frame, sym=sym)
            if cls == "node":
                return AV("node", parent.frame)
            if cls == "pos":
                return AV("pos", parent.frame)
            return NONE
        if parent.k == "entry":
            if cls == "entry":
                return AV("entry", sym=parent.sym)
            if cls == "node":
                return AV("node", Frame(("ent", parent.sym)))
            if cls == "pos":
                return AV("entrange", sym=parent.sym)
            return NONE
        if cls == "doc":
            return AV("doc")
        if cls == "entry":
            return AV("entry", sym=sym)
        if parent.k == "none":
            return NONE
        if cls in ("ref", "node", "pos", "toks"):
            return UNK
        return NONE

    # -------------------------------------------------------- evaluation
    def eval(self, e, env):
        av = self.eval0(e, env)
        adj = e.get("adj")
        if adj:
            for a in adj:
                if a["k"] == "DerefOverloaded":
                    ft = self.c.ty(a["from"])
                    if ft["k"] == "adt" and ft["p"] == REF:
                        if av.k == "ref":
                            av = AV("node", av.frame.plus(av.sym))
                        else:
                            av = UNK
        return av

    def block(self, blk, env):
        for s in blk["stmts"]:
            k = s.get("k")
            if k == "Let":
                av = self.eval(s["init"], env) if s.get("init") else UNK
                self.bind(s["pat"], av, env)
                if s.get("els"):
                    self.block(s["els"], env)
            elif k in ("Semi", "Expr"):
                self.eval(s["e"], env)
        if blk.get("expr"):
            return self.eval(blk["expr"], env)
        return NONE

    def eval0(self, e, env):
        k = e.get("k")
        m = getattr(self, "e_" + k, None)
        if m is None:
            for ch in hir.children(e):
                if ch.get("k") in ("Arm", "Block", "f"):
                    continue
                self.eval(ch, env)
            return self.default_for_type(e)
        return m(e, env)

    def default_for_type(self, e):
        if "t" not in e:
            return NONE
        cls = self.ty.cls(e["t"])
        if cls == "doc":
            return AV("doc")
        if cls == "entry":
            return AV("entry", sym=self.sym_for(e))
        return UNK if cls in ("ref", "node", "pos", "toks", "entry", "generic", "tuple", "num", "token", "doc") else NONE

    def e_Paren(self, e, env):
        return self.eval(e["e"], env)

    def e_BlockExpr(self, e, env):
        return self.block(e["b"], env)

    def e_AddrOf(self, e, env):
        return self.eval(e["e"], env)

    def e_Lit(self, e, env):
        return NONE

    def e_Cast(self, e, env):
        return self.eval(e["e"], env)

    def e_Unary(self, e, env):
        av = self.eval(e["e"], env)
        if e["op"] == "*":
            return av
        return NONE

    def e_Path(self, e, env):
        r = e["res"]
        if r.get("k") == "Local":
            v = env.get(r["id"])
            if v is None or v.k == "unk":
                if self.ty.cls(e["t"]) == "ref":
                    return AV("ref", Frame(None), sym="b:%s#%s" % (r["name"], r["id"]))
                return v if v is not None else self.default_for_type(e)
            return v
        return NONE  # constants, unit constructors (`None`), function items carry no position

    def e_Tup(self, e, env):
        return AV("tuple", items=[self.eval(x, env) for x in e["es"]])

    def e_Array(self, e, env):
        av = NONE
        for x in e["es"]:
            av = join(av, self.eval(x, env))
        return av

    def e_Field(self, e, env):
        base = self.eval(e["base"], env)
        name = e["name"]
        if base.k == "ref":
            if name == "offset":
                return AV("off", sym=base.sym)
            if name == "reference":
                return AV("node", base.frame.plus(base.sym))
        if base.k == "tuple":
            if name.isdigit() and int(name) < len(base.items):
                return base.items[int(name)]
            return UNK
        if base.k in ("node", "entry"):
            return self.field_value(base, e["t"], self.sym_for(e))
        if base.k == "pos":
            if base.items == "ident" and name in ("start", "end"):
                # an identifier's token range may begin with comments; the identifier token itself is the last one
                self.sink("S-ident", name == "end", e["sp"], "an identifier's token is located from the end of its range",
                          "`.start` of an Identifier's token range is used as the identifier's position, but the parser folds "
                          "comments in front of a name into that range: with `var // c\n i: int;` it points at the comment")
            return AV("pos", base.frame, unit=base.unit) if self.ty.cls(e["t"]) in ("pos", "num") else NONE
        if base.k in ("token", "toks"):
            if name == "range":
                return AV("pos", Frame("abs"), unit="byte")
            return NONE
        if base.k == "doc":
            if name == "tokens":
                return AV("toks", Frame("abs"))
            if name == "ast":
                return AV("node", Frame("abs"))
            return NONE
        d = self.default_for_type(e)
        if base.k == "none":
            return d if d.k in ("doc", "entry") else NONE
        return d

    def e_Struct(self, e, env):
        adt = e.get("adt") or ""
        vals = {f["name"]: self.eval(f["e"], env) for f in e["fields"]}
        if e.get("base"):
            self.eval(e["base"], env)
        if adt == REF and "reference" in vals and "offset" in vals:
            rv, ov = vals["reference"], vals["offset"]
            crossed = None
            if rv.k == "node" and rv.frame is not None:
                crossed = tuple(sorted(rv.frame.syms))
            offs = None
            if ov.k == "off":
                offs = (ov.sym,)
            elif ov.k == "offsum":
                offs = tuple(sorted(ov.items))
            if crossed is not None and offs is not None and crossed:
                self.sink("S-ref", crossed == tuple(sorted(offs)), e["sp"], "a rebuilt Reference carries the sum of the offsets it unwraps",
                          "the payload was reached through %s but the new offset is built from %s: the distance to the "
                          "parent frame is no longer the sum of the unwrapped steps (comments in front of a skipped token are lost)"
                          % ([short_sym(x) for x in crossed], [short_sym(x) for x in offs]))
            elif crossed:
                mixed = ov.k in ("unk",) or True
                # offset computed some other way (literal arithmetic): decidable only when it mentions no unwrapped offset at all
                self.sink("S-ref", None if ov.k in ("unk", "none") and not self._mentions_offset(e) else (False if self._partial_offsets(e, crossed) else None),
                          e["sp"], "a rebuilt Reference carries the sum of the offsets it unwraps",
                          "the payload was reached through %s but the new offset does not add all of their offsets"
                          % [short_sym(x) for x in crossed])
            return self.default_for_type(e)
        if adt == RANGE or adt.startswith("core::ops::range::Range"):
            av = NONE
            for v in vals.values():
                if v.k == "off" or v.k == "orig":
                    return AV("rangefrom", sym=v.sym, frame=v.frame, unit=v.k)
                av = join(av, v)
            return av
        return self.default_for_type(e)

    def _mentions_offset(self, e):
        for f in e["fields"]:
            if f["name"] == "offset":
                return any(x.get("k") == "Field" and x["name"] == "offset" for x in hir.nodes(f["e"]))
        return False

    def _partial_offsets(self, e, crossed):
        """offset expression reads fewer `.offset` fields than references were crossed (e.g. `r.offset + 1`)"""
        for f in e["fields"]:
            if f["name"] == "offset":
                n_off = len([x for x in hir.nodes(f["e"]) if x.get("k") == "Field" and x["name"] == "offset"])
                return 0 < n_off < len(crossed)
        return False

    def e_If(self, e, env):
        cond = hir.strip(e["cond"])
        self.eval(cond, env)
        a = self.eval(e["then"], dict(env) if False else env)
        b = self.eval(e["else"], env) if e.get("else") else NONE
        if self.default_for_type(e).k == "none":
            return NONE
        self.merge_sink(a, b, e["sp"], "if/else branches")
        return join(a, b)

    def e_LetExpr(self, e, env):
        av = self.eval(e["init"], env)
        self.bind(e["pat"], av, env)
        return NONE

    def e_Match(self, e, env):
        sc = self.eval(e["scrut"], env)
        res = NONE
        first = True
        for arm in e["arms"]:
            self.bind(arm["pat"], sc, env)
            if arm.get("guard"):
                self.eval(arm["guard"], env)
            v = self.eval(arm["body"], env)
            if self.c.tstr(arm["body"]["t"]) == "!":
                continue
            if not first:
                self.merge_sink(res, v, arm["sp"], "match arms")
            res = join(res, v) if not first else v
            first = False
        return res

    def merge_sink(self, a, b, sp, what):
        if a.k in ("pos", "node", "toks") and b.k == a.k:
            fa, fb = a.frame, b.frame
            if fa is not None and fb is not None and fa.known() and fb.known():
                self.sink("S3", fa == fb, sp, "%s agree on the frame" % what,
                          "one branch yields positions in frame `%r`, another in `%r`" % (fa, fb))

    def e_While(self, e, env):
        self.eval(e["cond"], env)
        self.eval(e["body"], env)
        return NONE

    def e_Loop(self, e, env):
        self.block(e["body"], env)
        return NONE

    def e_ForLoop(self, e, env):
        it = self.eval(e["iter"], env)
        self.bind(e["pat"], it, env)
        self.eval(e["body"], env)
        return NONE

    def e_Ret(self, e, env):
        if e.get("e"):
            self.returns.append(self.eval(e["e"], env))
        return NONE

    def e_Break(self, e, env):
        if e.get("e"):
            self.eval(e["e"], env)
        return NONE

    def e_Continue(self, e, env):
        return NONE

    def e_Await(self, e, env):
        return self.eval(e["e"], env)

    def e_Try(self, e, env):
        return self.eval(e["e"], env)

    def e_Assign(self, e, env):
        v = self.eval(e["r"], env)
        l = hir.strip(e["l"])
        if l.get("k") == "Path" and l["res"].get("k") == "Local":
            env[l["res"]["id"]] = v
        else:
            self.eval(l, env)
        return NONE

    def e_AssignOp(self, e, env):
        self.eval(e["l"], env)
        self.eval(e["r"], env)
        return NONE

    def e_Closure(self, e, env):
        # a closure value: evaluated when applied by an adaptor; standalone (async bodies): evaluate in place
        if e.get("ck", "").startswith("Coroutine"):
            for p in e["params"]:
                self.bind(p, NONE, env)
            return self.eval(e["body"], env)
        return AV("closure", items=e)

    def e_Binary(self, e, env):
        a = self.eval(e["l"], env)
        b = self.eval(e["r"], env)
        op = e["op"]
        if op == "+":
            for x, y in ((a, b), (b, a)):
                if x.k == "orig" and y.k == "off":
                    return AV("orig", x.frame.plus(y.sym))
            if a.k == "pos" and b.k in ("none",):
                return a
            if b.k == "pos" and a.k in ("none",):
                return b
            if a.k == "off" and b.k == "off":
                return AV("offsum", items=[a.sym, b.sym])
            return UNK if (a.k != "none" or b.k != "none") else NONE
        if op == "-":
            if a.k == "pos" and b.k == "none":
                return a
            return UNK if (a.k != "none" or b.k != "none") else NONE
        if op in ("==", "!=", "<", "<=", ">", ">="):
            if a.k == "pos" and b.k == "pos" and a.unit and b.unit and a.unit != b.unit:
                self.sink("S5", False, e["sp"], "compared positions have one unit",
                          "a %s position (index into the token vector) is compared with a %s position (offset into the "
                          "text): they coincide only by accident" % (UNIT_NAMES[a.unit], UNIT_NAMES[b.unit]))
            elif a.k == "pos" and b.k == "pos":
                self.cmp_frames("S5", a.frame, b.frame, e["sp"], "compared positions share one frame",
                                "left operand is in frame `%(a)r`, right operand in `%(b)r`")
            return NONE
        return NONE

    def e_Index(self, e, env):
        base = self.eval(e["base"], env)
        idx = self.eval(e["idx"], env)
        if base.k == "toks":
            if idx.k == "rangefrom":
                if idx.unit == "off":
                    return AV("toks", base.frame.plus(idx.sym)) if base.frame is not None else UNK
                if idx.unit == "orig":
                    return AV("toks", idx.frame)
            if idx.k == "pos":
                self.cmp_frames("S1", base.frame, idx.frame, e["sp"], "token slice is indexed with positions of its own frame",
                                "the slice is in frame `%(a)r` but the index range is in frame `%(b)r`")
                return AV("toks", Frame(None))
            if idx.k == "entrange":
                return AV("toks", Frame(("ent", idx.sym)))
            if idx.k == "none":
                return AV("toks", Frame(None)) if self.ty.cls(e["t"]) == "toks" else AV("token")
            return AV("toks", Frame(None))
        if base.k == "none":
            return NONE
        return self.default_for_type(e)

    # -------------------------------------------------------- calls
    def e_Call(self, e, env):
        d = hir.path_def(e["f"])
        args = [self.eval(a, env) for a in e["args"]]
        if d is None:
            self.eval(e["f"], env)
            return self.default_for_type(e)
        if d.get("ctor_of"):
            co = d["ctor_of"]
            if last(co) in ("Some", "Ok", "Err") and co.startswith("core::") and args:
                return args[0]
            if co == SPLERR and args:
                return args[0]
            return self.default_for_type(e)
        path = d.get("rp") or d["p"]
        return self.call(e, path, d["p"], e["args"], args, env)

    def e_MethodCall(self, e, env):
        recv = self.eval(e["recv"], env)
        path = e.get("rp") or e.get("p") or ""
        decl = e.get("p") or ""
        m = e["m"]
        arg_exprs = [e["recv"]] + e["args"]
        # closures are evaluated lazily by the adaptor models
        lazy = m in CLOSURE_MAP or m in CLOSURE_KEEP or m in ("map_or", "map_or_else", "fold", "reduce", "or_else", "unwrap_or_else", "ok_or_else")
        args = [recv] + [self.eval(a, env) if not (lazy and hir.strip(a).get("k") == "Closure") else AV("closure", items=hir.strip(a)) for a in e["args"]]
        local = decl.startswith("spl_frontend") or decl.startswith("lsp4spl")
        if m == "lookup" and decl.startswith("spl_frontend::table::"):
            return AV("entry", sym=self.sym_for(e))
        if not local:
            r = self.std_method(e, m, path, args, env)
            if r is not None:
                return r
        return self.call(e, path, decl, arg_exprs, args, env)

    def apply(self, f, argvals, env, call_expr):
        """apply closure value / fn path value `f` to abstract arguments"""
        if f.k == "closure":
            clo = f.items
            for p, v in zip(clo["params"], argvals):
                self.bind(p, v, env)
            return self.eval(clo["body"], env)
        return UNK

    def apply_arg(self, arg_expr, argvals, env, call_expr):
        a = hir.strip(arg_expr)
        if a.get("k") == "Closure":
            return self.apply(AV("closure", items=a), argvals, env, call_expr)
        d = hir.path_def(a)
        if d:
            if d.get("ctor_of"):
                co = d["ctor_of"]
                if last(co) in ("Some", "Ok") and argvals:
                    return argvals[0]
                return UNK
            path = d.get("rp") or d["p"]
            if self.I.prog.body(path) is not None:
                return self.call(call_expr, path, d["p"], [None] * len(argvals), argvals, env)
            nm = last(path)
            if nm in ("new",) and not argvals:
                return NONE
            if nm in ("new", "from", "into") and argvals:
                return argvals[0]
            return UNK
        v = self.eval(a, env)
        return self.apply(v, argvals, env, call_expr)

    def std_method(self, e, m, path, args, env):
        recv = args[0]
        a = e["args"]
        if m in CROSSING_METHODS:
            impl = path.rsplit("::", 1)[0]
            if impl in self.I.ref_impls or (path.startswith("core::") and self._peeled_is_ref(e["recv"])):
                # <Reference<T> as AsRef<T>>::as_ref etc. (also Deref::deref called explicitly)
                rt = self.ty.peel(e["recv"]["t"])
                if recv.k == "ref" and self._recv_is_reference(e["recv"]):
                    return AV("node", recv.frame.plus(recv.sym))
            return recv
        if m in ELEMENT_PRESERVING:
            for x in args[1:]:
                pass
            if m in ("unwrap_or", "or", "chain") and len(args) > 1:
                return join(recv, args[1])
            if m == "unwrap_or_else" and a:
                return join(recv, self.apply_arg(a[0], [], env, e))
            return recv
        if m == "enumerate":
            return AV("tuple", items=[NONE, recv])
        if m == "zip" and len(args) > 1:
            return AV("tuple", items=[recv, args[1]])
        if m in CLOSURE_MAP and a:
            r = self.apply_arg(a[0], [recv], env, e)
            return r
        if m in CLOSURE_KEEP and a:
            self.apply_arg(a[0], [recv], env, e)
            if m in ("any", "all", "position", "for_each", "retain", "is_some_and"):
                return NONE
            return recv
        if m == "map_or" and len(a) == 2:
            d = args[1]
            r = self.apply_arg(a[1], [recv], env, e)
            self.merge_sink(d, r, e["sp"], "map_or default and mapped value")
            return join(d, r)
        if m == "map_or_else" and len(a) == 2:
            d = self.apply_arg(a[0], [], env, e)
            r = self.apply_arg(a[1], [recv], env, e)
            self.merge_sink(d, r, e["sp"], "map_or_else default and mapped value")
            return join(d, r)
        if m == "or_else" and a:
            r = self.apply_arg(a[0], [], env, e)
            self.merge_sink(recv, r, e["sp"], "or_else alternatives")
            return join(recv, r)
        if m == "fold" and len(a) == 2:
            init = args[1]
            r = self.apply_arg(a[1], [init, recv], env, e)
            return join(init, r)
        if m == "reduce" and a:
            self.apply_arg(a[0], [recv, recv], env, e)
            return recv
        if m in ("extend", "push", "append", "insert", "push_back", "extend_from_slice") and len(args) > 1:
            new = args[-1]
            tgt = hir.strip_ref(e["recv"])
            if recv.k in ("pos", "node") and new.k == recv.k:
                self.cmp_frames("S3", recv.frame, new.frame, e["sp"], "merged collections share one frame",
                                "the collection holds positions in frame `%(a)r`; what is added is in frame `%(b)r` "
                                "(a Reference was crossed without `.shift(r.offset)`, or shifted twice)")
            res = join(recv, new) if recv.k != "none" else new
            if tgt.get("k") == "Path" and tgt["res"].get("k") == "Local":
                if recv.k == "none" or recv.k == new.k:
                    env[tgt["res"]["id"]] = res if recv.k != "none" else new
            return NONE
        if m == "concat":
            return recv
        if m == "contains" and len(args) > 1:
            return NONE
        if m in ("len", "is_empty", "is_some", "is_none", "to_string", "as_str", "trim", "trim_start", "starts_with", "ends_with", "count"):
            return NONE
        if m == "lookup":
            return AV("entry", sym=self.sym_for(e))
        if m == "token_before":
            return AV("token")
        if m in ("start", "end"):
            return recv
        return None

    def _recv_is_reference(self, recv):
        """Is the receiver type (after auto-deref of &/Box) a Reference<T>?"""
        t = self.c.ty(recv["t"])
        for a in recv.get("adj") or []:
            if a["k"] in ("Deref",):
                t = self.c.ty(a["to"])
        while t["k"] == "ref" or (t["k"] == "adt" and t["p"] == "alloc::boxed::Box"):
            t = self.c.ty(t["t"]) if t["k"] == "ref" else self.c.ty(int(t["a"][0]))
            break
        # peel all refs/boxes
        while t["k"] == "ref":
            t = self.c.ty(t["t"])
        return t["k"] == "adt" and t["p"] == REF

    def _peeled_is_ref(self, recv):
        return self._recv_is_reference(recv)

    def call(self, e, path, decl, arg_exprs, args, env):
        nm = last(path)
        dnm = last(decl)
        P = self.I.prog
        # ---- the repository's own position vocabulary
        if decl == "spl_frontend::Shiftable::shift" or (nm == "shift" and path.startswith("spl_frontend")):
            x, off = args[0], args[1] if len(args) > 1 else UNK
            if x.k in ("pos", "node") and x.frame is not None and x.frame.known():
                if off.k == "off":
                    f = x.frame.minus(off.sym)
                    if f is None:
                        self.sink("S-shift", False, e["sp"], "shift compensates a crossed reference",
                                  "`.shift(%s.offset)` is applied to positions in frame `%r`, which never crossed that "
                                  "reference: the offset is added although nothing needs compensation"
                                  % (short_sym(off.sym), x.frame))
                        return AV(x.k, Frame(None))
                    self.sink("S-shift", True, e["sp"], "shift compensates a crossed reference", "")
                    return AV(x.k, f)
                if off.k == "orig":
                    # relative -> absolute with an accumulated origin of the same frame
                    self.cmp_frames("S-shift", x.frame, off.frame, e["sp"], "origin added belongs to the positions' frame",
                                    "positions in frame `%(a)r` are made absolute with the origin of frame `%(b)r`")
                    return AV(x.k, Frame("abs"))
                if off.k == "offsum":
                    f = x.frame
                    for s_ in off.items:
                        f = f.minus(s_) if f is not None else None
                    return AV(x.k, f) if f is not None else AV(x.k, Frame(None))
                return AV(x.k, Frame(None))
            if x.k == "entrange":
                return AV("pos", Frame(None))
            return x if x.k in ("none",) else (AV(x.k, Frame(None)) if x.k in ("pos", "node") else UNK)
        if nm in ("append_error", "new_with_errors") and path.startswith("spl_frontend::ast::"):
            x, err = args[0], args[1] if len(args) > 1 else UNK
            if x.k in ("node", "pos") and err.k == "pos":
                self.cmp_frames("S6", x.frame, err.frame, e["sp"], "an error is attached in the frame of the node that owns it",
                                "the AstInfo belongs to a node in frame `%(a)r` but the error range is in frame `%(b)r`: "
                                "ErrorContainer will shift it by the wrong offsets and the diagnostic lands elsewhere")
            else:
                self.sink("S6", None, e["sp"], "an error is attached in the frame of the node that owns it", "undecided: %r / %r" % (x, err))
            return x if nm == "new_with_errors" else NONE
        if decl == "spl_frontend::ErrorContainer::errors":
            x = args[0]
            if x.k in ("node",):
                return AV("pos", x.frame, unit="tok")
            if x.k == "ref":
                return AV("pos", x.frame.plus(x.sym), unit="tok")
            if x.k in ("toks", "token", "doc"):
                return AV("pos", Frame("abs"), unit="byte")
            return UNK
        if decl == "spl_frontend::ToRange::to_range":
            x = args[0]
            if x.k == "node":
                rt = self.ty.peel(arg_exprs[0]["t"]) if arg_exprs and arg_exprs[0] is not None else None
                is_ident = bool(rt) and rt["k"] == "adt" and rt["p"] == AST + "Identifier"
                return AV("pos", x.frame, unit="tok", items="ident" if is_ident else None)
            if x.k == "ref":
                return AV("pos", x.frame.plus(x.sym), unit="tok")
            if x.k == "pos":
                return x
            if x.k == "token":
                return AV("pos", Frame("abs"), unit="byte")
            if x.k == "entry":
                return AV("entrange", sym=x.sym)
            if x.k == "none":
                return NONE
            return UNK
        if decl == "spl_frontend::ToTextRange::to_text_range":
            x, t = args[0], args[1] if len(args) > 1 else UNK
            if x.k == "entry":
                ft = t.frame if t.k == "toks" else None
                if ft is not None and ft.known():
                    ok = isinstance(ft.base, tuple) and ft.base[0] == "ent" and ft.base[1] == x.sym and not ft.syms
                    self.sink("S7", ok, e["sp"], "an entry's name range is resolved against the slice cut with that entry's range",
                              "the name belongs to entry `%s` but the token slice is in frame `%r`: the name range is "
                              "only meaningful inside the declaration of its own entry" % (short_sym(x.sym), ft))
                else:
                    self.sink("S7", None, e["sp"], "an entry's name range is resolved against the slice cut with that entry's range", "")
                return AV("pos", Frame("abs"), unit="byte")
            fx = node_frame(x)
            ft = t.frame if t.k == "toks" else None
            try:
                generic_x = bool(arg_exprs) and arg_exprs[0] is not None and self.ty.cls(hir.strip_ref(arg_exprs[0])["t"]) == "generic"
            except Exception:
                generic_x = False
            if generic_x and ft is not None and isinstance(ft.base, tuple) and ft.base[0] == "ent":
                # `named: &impl ToTextRange` next to the entry the slice was cut with: whether `named` *is* that entry (a wrapper of it)
                # is decided where the function is called - not followed
                self.sink("S7", None, e["sp"], "node and token slice share one frame", "generic value against an entry's slice")
                return AV("pos", Frame("abs"), unit="byte")
            self.cmp_frames("S7", fx, ft, e["sp"], "node and token slice share one frame",
                            "the node is in frame `%(a)r` but the token slice handed to to_text_range is in frame `%(b)r`")
            return AV("pos", Frame("abs"), unit="byte")
        if path.endswith("ast::{impl#0}::slice") or (nm == "slice" and "AstInfo" in (hir.callee_display(e) or "")):
            x, t = args[0], args[1] if len(args) > 1 else UNK
            fx = node_frame(x)
            ft = t.frame if t.k == "toks" else None
            self.cmp_frames("S7", fx, ft, e["sp"], "node and token slice share one frame",
                            "AstInfo::slice: the node is in frame `%(a)r`, the token slice in frame `%(b)r`")
            return t if t.k == "toks" else UNK
        if not (decl.startswith("spl_frontend") or decl.startswith("lsp4spl")):
            # std / third party function (nom combinators, ...): closures handed to it are analysed with unknown arguments
            for a in args:
                if a.k == "closure":
                    self.apply(a, [UNK] * len(a.items["params"]), env, e)
            if nm in STD_TRANSPARENT_FNS:
                vals = [a for a in args if a.k not in ("none", "closure")]
                if not vals:
                    return NONE
                r = vals[0]
                for v in vals[1:]:
                    r = join(r, v)
                return r
            if any(a.k not in ("none", "closure") for a in args):
                return self.default_for_type(e)
            return NONE if self.default_for_type(e).k == "none" else UNK
        body = P.body(path)
        if body is None:
            body = P.body(decl) if decl != path else None
            if body is not None and not body.get("body"):
                body = None
        # trait method without resolvable impl (generic receiver): walker convention
        if body is None:
            if decl.startswith("spl_frontend") or decl.startswith("lsp4spl"):
                return self.walker_call(e, decl, None, arg_exprs, args, env)
            if any(a.k not in ("none", "closure") for a in args):
                return self.default_for_type(e)
            return NONE if self.default_for_type(e).k == "none" else UNK
        return self.walker_call(e, path, body, arg_exprs, args, env)

    def walker_call(self, e, path, body, arg_exprs, args, env):
        """Call of a function of the two crates: all node/token/origin arguments share one frame; the result is
        expressed relative to it."""
        summ = self.I.summary(path) if body is not None else None
        recursive = body is not None and summ is None
        c = self.c
        # per-argument effective frames
        frames = []
        rebase_for = None
        ref_map = {}
        declared = []
        if body is not None:
            bc = body["_crate"]
            bty = self.I.types[bc.name]
            for i, p in enumerate(body["params"]):
                declared.append(bty.cls(p["bt"]) if p.get("k") == "Binding" else "other")
        for i, av in enumerate(args):
            dcl = declared[i] if i < len(declared) else None
            if body is not None and i < len(body["params"]) and body["params"][i].get("k") == "Binding":
                role = self.I._param_roles(body).get(body["params"][i]["id"])
                if role is not None and role.k == "toks" and role.frame.base == "abs":
                    continue  # the callee treats this slice as the absolute token vector (it indexes it with an origin)
                if av.k == "toks" and role is None:
                    # the callee only stores the slice in a struct of its own (`CallSearch { tokens, cursor: index, offset }`) and
                    # never indexes it itself: which frame it is used in is decided by code this interpretation does not follow
                    pid_ = body["params"][i]["id"]
                    uses_ = [(x_, ps_) for x_, ps_ in hir.walk(body["body"]) if (hir.path_local(x_) or {}).get("id") == pid_]
                    if uses_ and all(any(q_.get("k") == "Struct" and (q_.get("adt") or "").startswith(("lsp4spl::", "spl_frontend::"))
                                         for q_ in ps_[-3:]) for _, ps_ in uses_):
                        continue
            if av.k == "ref":
                # (a parameter of generic type - `impl IntoIterator<Item = &Reference<T>>` - takes the Reference(s) as they are)
                ptn_ = bc.tstr(body["params"][i]["bt"]).replace("&", "").replace("mut ", "").strip() if dcl == "generic" else ""
                if dcl == "ref" or (dcl == "generic" and ("Reference<" in ptn_ or any(
                        ("[%s/#" % ptn_) in pr_ and "Reference<" in pr_ for pr_ in body.get("preds") or []))):
                    frames.append(("ref", av.frame, i))
                    if summ is not None and summ.convention.get(i) == "rebased":
                        rebase_for = av
                    if summ is not None and i < len(summ.param_avs) and summ.param_avs[i].k == "ref":
                        ref_map[summ.param_avs[i].sym] = av.sym
                else:
                    frames.append(("node", av.frame.plus(av.sym), i))
            elif av.k in ("node", "toks", "orig"):
                frames.append((av.k, av.frame, i))
        want_toks_extra = rebase_for
        base = None
        definite = []
        for kind, f, i in frames:
            if f is None or not f.known():
                continue
            eff = f
            if kind == "toks" and want_toks_extra is not None:
                # callee expects tokens already re-based for its Reference parameter
                eff = f.minus(want_toks_extra.sym)
                if eff is None:
                    self.sink("S2", False, e["sp"], "arguments of a tree walker share one frame",
                              "`%s` expects its token slice re-based to the Reference it receives (`&tokens[r.offset..]`), "
                              "but the slice is in frame `%r`" % (last(path), f))
                    continue
            definite.append((kind, eff, i))
        kinds = set(k for k, _, _ in definite)
        if recursive and not self.I.pass2:
            pass  # callee's convention still being inferred (recursive cycle): judged in pass 2
        elif len(definite) >= 2 and (("node" in kinds or "ref" in kinds) and ("toks" in kinds or "orig" in kinds) or len(kinds) == 1 and "node" in kinds and False):
            f0 = definite[0][1]
            ok = all(f == f0 for _, f, _ in definite)
            self.sink("S2", ok, e["sp"], "arguments of a tree walker share one frame",
                      "`%s` receives %s: node, token slice and origin must be in the same reference frame (re-base with "
                      "`&tokens[r.offset..]` / `origin + r.offset` when passing the target of a Reference)"
                      % (last(path), ", ".join("%s in `%r`" % (k, f) for k, f, _ in definite)))
        elif frames:
            # undecided S2 only when both a node-ish and a token-ish argument are present
            ks = set(k for k, _, _ in frames)
            if ("node" in ks or "ref" in ks) and ("toks" in ks or "orig" in ks):
                self.sink("S2", None, e["sp"], "arguments of a tree walker share one frame", "")
        # frame the result is relative to: the node argument's frame (first node/ref arg)
        callf = None
        for kind, f, i in frames:
            if kind in ("node", "ref"):
                callf = f
                break
        if callf is None:
            for kind, f, i in frames:
                callf = f
                break
        res = summ.result if summ is not None else None
        if res is None:
            # unknown body (generic trait method): positions come back in the argument frame
            cls = self.ty.cls(e["t"]) if "t" in e else "other"
            if cls == "pos" and callf is not None:
                return AV("pos", callf)
            if cls == "node" and callf is not None:
                return AV("node", callf)
            return self.default_for_type(e)
        r_ = self.subst(res, callf, ref_map)
        if r_.k in ("unk", "none"):
            # the summary could not tell what comes back (a value received from a channel and handed on through explicit matches):
            # what the *type* of the call says is still known (an AnalyzedSource is a document, whatever way it took)
            d_ = self.default_for_type(e)
            if d_.k == "doc":
                return d_
        return r_

    def subst(self, av, callf, ref_map):
        if av.k == "tuple":
            return AV("tuple", items=[self.subst(x, callf, ref_map) for x in av.items])
        if av.k in ("pos", "node", "toks", "orig"):
            f = av.frame
            if f is None or not f.known():
                return AV(av.k, Frame(None))
            if f.base == "here":
                if callf is None or not callf.known():
                    return AV(av.k, Frame(None))
                syms = tuple(ref_map.get(s, s) for s in f.syms)
                return AV(av.k, Frame(callf.base, callf.syms + syms), unit=av.unit)
            return av
        if av.k == "ref":
            if av.frame is not None and av.frame.base == "here" and callf is not None and callf.known():
                return AV("ref", Frame(callf.base, callf.syms + av.frame.syms), sym=ref_map.get(av.sym, av.sym))
            return UNK
        if av.k == "off":
            return AV("off", sym=ref_map.get(av.sym, av.sym))
        return av


def place_of(e):
    e = hir.strip_ref(e)
    k = e.get("k")
    if k == "Path":
        r = e["res"]
        if r.get("k") == "Local":
            return "%s#%s" % (r["name"], r["id"])
        return None
    if k == "Field":
        b = place_of(e["base"])
        return None if b is None else b + "." + e["name"]
    if k == "Unary" and e["op"] == "*":
        return place_of(e["e"])
    if k == "MethodCall" and e["m"] in ("as_ref", "as_mut", "iter", "iter_mut", "as_deref", "unwrap", "clone"):
        return place_of(e["recv"])
    return None
