"""Debug helper: python3 -m vlib.dump <substring of body path> [--types]  — compact tree print."""
import sys
from . import facts, hir


def short(n, crate, types=False, depth=0, out=None):
    ind = "  " * depth
    k = n.get("k")
    head = k
    if k in ("MethodCall",):
        head += " ." + n["m"] + " -> " + str(n.get("rp") or n.get("p"))
    elif k == "Path":
        r = n["res"]
        if r["k"] == "Local":
            head += " local " + r["name"] + "#" + r["id"]
        elif r["k"] == "Def":
            head += " %s %s" % (r["dk"], r.get("rp") or r["p"])
            if r.get("ctor_of"):
                head += " ctor_of=" + r["ctor_of"]
        else:
            head += " " + str(r)
    elif k == "Field":
        head += " ." + n["name"]
    elif k == "Lit":
        head += " " + repr(n["lit"].get("v"))
    elif k in ("Binary", "AssignOp", "Unary"):
        head += " " + n["op"]
    elif k in ("Match", "Loop"):
        head += " src=" + n["src"]
    elif k == "Struct":
        head += " " + str(n.get("adt")) + "::" + str(n.get("variant"))
    elif k == "Closure":
        head += " " + n["p"]
    if "t" in n and types:
        head += "   : " + crate.tstr(n["t"])
    if n.get("mx"):
        head += "   mx=" + ",".join(n["mx"])
    if n.get("adj"):
        head += "   adj=" + ",".join("%s(%s->%s)" % (a["k"], crate.tstr(a["from"]), crate.tstr(a["to"])) for a in n["adj"])
    if "sp" in n:
        head += "   @%d" % n["sp"][1]
    print(ind + head)
    if k == "Arm":
        print(ind + "  pat: " + pat_short(n["pat"]))
    if k == "Let":
        print(ind + "  pat: " + pat_short(n["pat"]))
    if k == "LetExpr":
        print(ind + "  pat: " + pat_short(n["pat"]))
    if k == "Closure":
        print(ind + "  params: " + ", ".join(pat_short(p) for p in n["params"]))
    if k == "Struct":
        for f in n["fields"]:
            print(ind + "  ." + f["name"] + " =")
            short(f["e"], crate, types, depth + 2)
        if n.get("base"):
            print(ind + "  ..base")
            short(n["base"], crate, types, depth + 2)
        return
    for c in hir.children(n):
        short(c, crate, types, depth + 1)


def pat_short(p):
    k = p["k"]
    if k == "Binding":
        s = p["name"] + "#" + p["id"]
        if p.get("sub"):
            s += "@" + pat_short(p["sub"])
        return s
    if k == "Struct":
        return (p["res"].get("p") or p["res"]["k"]) + "{" + ", ".join(f["name"] + ":" + pat_short(f["pat"]) for f in p["fields"]) + (", .." if p["rest"] else "") + "}"
    if k == "TupleStruct":
        return (p["res"].get("ctor_of") or p["res"].get("p") or "?") + "(" + ", ".join(pat_short(q) for q in p["pats"]) + ")"
    if k == "Path":
        return p["res"].get("ctor_of") or p["res"].get("p") or "?"
    if k in ("Or",):
        return " | ".join(pat_short(q) for q in p["pats"])
    if k == "Tuple":
        return "(" + ", ".join(pat_short(q) for q in p["pats"]) + ")"
    if k in ("Ref", "Box"):
        return "&" + pat_short(p["pat"])
    if k == "Lit":
        return repr(p["lit"].get("v"))
    return k


def main():
    prog = facts.load()
    sub = sys.argv[1]
    types = "--types" in sys.argv
    for b in prog.bodies():
        if sub in b["p"] or sub in b["d"]:
            c = b["_crate"]
            print("==== %s  [%s]  %s" % (b["p"], b["d"], c.loc(b["sp"])))
            print("params: " + ", ".join(pat_short(p) for p in b["params"]))
            short(b["body"], c, types)


if __name__ == "__main__":
    main()
