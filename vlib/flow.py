"""Tiny path enumerator over the structured HIR (no gotos in Rust: if/match/loops/blocks).

paths(node, classify) yields lists of events for every control-flow path through `node`
(loops are unrolled zero-or-one times; `?` contributes only its success path, the failure path
leaves the function and is recorded as terminator 'try-exit' on a separate path when asked).

classify(node) -> event or None is called on every expression node in evaluation order *before*
its children are expanded; returning ('stop', ev) records ev and does not descend.
"""
from . import hir

TERMINATORS = ("break", "continue", "return", "exit", "panic")
# Option / Result / iterator methods whose closure argument is run for some values and not for others
COMBINATORS = ("map", "map_err", "and_then", "or_else", "unwrap_or_else", "map_or_else", "map_or", "then", "is_some_and", "is_ok_and",
               "inspect", "inspect_err", "ok_or_else", "filter", "filter_map", "for_each", "find_map", "unwrap_or_default")


def seq_product(prefixes, more):
    out = []
    for p in prefixes:
        if p and p[-1][0] in TERMINATORS:
            out.append(p)
            continue
        for m in more:
            out.append(p + m)
    return out


def paths(n, classify, limit=4000):
    """Return list of event lists."""
    if n is None:
        return [[]]
    if isinstance(n, list):
        res = [[]]
        for x in n:
            res = seq_product(res, paths(x, classify, limit))
            if len(res) > limit:
                raise OverflowError("too many paths")
        return res
    k = n.get("k")
    ev = classify(n)
    pre = []
    if ev is not None:
        if ev[0] == "stop":
            return [[ev[1]]]
        if ev[0] == "inline":
            # a call of a local helper that holds events: the helper's paths take the place of the call (after the arguments);
            # a `return` inside the helper ends the helper, not the caller's path
            args = [[]]
            for c_ in hir.children(n):
                args = seq_product(args, paths(c_, classify, limit))
            inner = []
            stack = getattr(classify, "inline_stack", None)
            if stack is not None:
                stack.append(ev[2] if len(ev) > 2 else None)
            try:
                inner_paths = paths(ev[1], classify, limit)
            finally:
                if stack is not None:
                    stack.pop()
            for p_ in inner_paths:
                if p_ and p_[-1][0] == "return":
                    p_ = p_[:-1]
                inner.append(p_)
            res = seq_product(args, inner)
            if len(res) > limit:
                raise OverflowError("too many paths")
            return res
        pre = [ev]

    def after(res):
        return [pre_children_first(p) for p in res]

    def pre_children_first(p):
        # events of a call are recorded after its arguments were evaluated
        return p + pre if k in ("Call", "MethodCall", "Await", "Try") else pre + p

    if k == "Block":
        res = paths(n["stmts"] + ([n["expr"]] if n.get("expr") else []), classify, limit)
        return after(res)
    if k in ("Semi", "Expr"):
        return after(paths(n["e"], classify, limit))
    if k == "Let":
        res = paths(n.get("init"), classify, limit)
        if n.get("els"):
            res = res + seq_product(res, paths(n["els"], classify, limit))
        return after(res)
    if k == "If":
        c = paths(n["cond"], classify, limit)
        t = seq_product(c, paths(n["then"], classify, limit))
        e = seq_product(c, paths(n.get("else"), classify, limit))
        return after(t + e)
    if k == "Match":
        s = paths(n["scrut"], classify, limit)
        res = []
        for arm in n["arms"]:
            g = paths(arm.get("guard"), classify, limit)
            res += seq_product(seq_product(s, g), paths(arm["body"], classify, limit))
        return after(res)
    if k in ("While", "Loop", "ForLoop"):
        head = paths(n.get("cond") or n.get("iter"), classify, limit)
        body = n["body"]
        once = seq_product(head, paths(body, classify, limit))
        # a `break`/`continue` inside ends the loop, not the enclosing path
        norm = []
        for p in once:
            if p and p[-1][0] in ("break", "continue"):
                p = p[:-1] + [("loop-" + p[-1][0],) + tuple(p[-1][1:])]
            norm.append(p)
        zero = head if k != "Loop" else []
        return after(zero + norm)
    if k == "Ret":
        res = paths(n.get("e"), classify, limit)
        return [p + pre + [("return", n)] if not (p and p[-1][0] in TERMINATORS) else p for p in res]
    if k == "Break":
        res = paths(n.get("e"), classify, limit)
        return [p + pre + [("break", n)] for p in res]
    if k == "Continue":
        return [pre + [("continue", n)]]
    if k == "Closure":
        return [pre]  # closure bodies are not executed here
    # generic: children in order
    res = [[]]
    follow = getattr(classify, "follow_closures", False) and k == "MethodCall" and n.get("m") in COMBINATORS
    for c in hir.children(n):
        if follow and isinstance(c, dict) and hir.strip(c).get("k") == "Closure":
            # a closure handed to an Option/Result/iterator combinator runs or does not run, depending on the value
            body_paths = paths(hir.strip(c)["body"], classify, limit)
            body_paths = [p_[:-1] if p_ and p_[-1][0] == "return" else p_ for p_ in body_paths]
            res = seq_product(res, [[("closure-skipped", c)]]) + seq_product(res, body_paths)
        else:
            res = seq_product(res, paths(c, classify, limit))
        if len(res) > limit:
            raise OverflowError("too many paths")
    return after(res)
