"""Which rules decide which property, with coverage floors counted on the pinned tree."""
from . import rules_tables, rules_struct, rules_server, rules_traverse, rules_frames, rules_features, rules_units, rules_more

_RULES = {
    "TABLES": rules_tables.rule_tables,
    "TABLES-SEMTOK": rules_tables.rule_semtok_tables,
    "TABLES-ERRCODE": rules_tables.rule_error_codes,
    "VARIANTS": rules_tables.rule_variants,
    "REBUILD": rules_struct.rule_rebuild,
    "STRIP-SET": rules_struct.rule_strip_set,
    "SAVE-RESTORE": rules_struct.rule_save_restore,
    "TOKEN-ERRORS": rules_struct.rule_token_errors,
    "SYNC-SETS": rules_struct.rule_sync_sets,
    "NOCONSUME": rules_struct.rule_recovery_noconsume,
    "PARSE-SHAPE": rules_struct.rule_parse_shape,
    "EQ-COMPLETE": rules_struct.rule_eq_complete,
    "EMPTY-RANGE-GUARD": rules_struct.rule_empty_range_guard,
    "EOF-ONCE": rules_struct.rule_eof_once,
    "WHO-MAY": rules_server.rule_who_may,
    "LIFECYCLE": rules_server.rule_lifecycle,
    "CODEC": rules_server.rule_codec,
    "BROKER": rules_server.rule_broker,
    "TEXT-SYNC": rules_server.rule_text_sync,
    "TOKCHANGE-ARGS": rules_struct.rule_tokchange_args,
    "TRAVERSE": rules_traverse.rule_traverse,
    "FRAME": rules_frames.rule_frames,
    "SCOPE-ORDER": rules_features.rule_scope_order,
    "ENTRY-GUARD": rules_features.rule_entry_guard,
    "LOOKUP-NOPANIC": rules_features.rule_lookup_nopanic,
    "ENTRY-KIND": rules_features.rule_entry_kind,
    "LEN-UNITS": rules_features.rule_len_units,
    "SEMTOK-PAIRING": rules_features.rule_semtok_pairing,
    "FMT-PURE": rules_features.rule_fmt_pure,
    "COMMENT-PAIRING": rules_features.rule_comment_pairing,
    "SAME-FINDER": rules_features.rule_same_finder,
    "POS-CONV": rules_units.rule_pos_conv,
    "TOKEN-RANGE-SOURCE": rules_units.rule_token_range_source,
    "KEYWORD-BOUNDARY": rules_units.rule_keyword_boundary,
    "SEND-AWAIT": rules_units.rule_send_await,
    "DOC-IN-RANGE": rules_units.rule_doc_in_range,
    "CHAR-ESCAPES": rules_units.rule_char_escapes,
    "INDEX-ELEM": rules_units.rule_index_elem,
    "INDEX-DOMAIN": rules_units.rule_index_domain,
    "DECL-SEARCH": rules_units.rule_decl_search,
    "REQ-PURE": rules_units.rule_req_pure,
    "ONE-PER-ITEM": rules_units.rule_one_per_item,
    "MESSAGE-SITE": rules_more.rule_message_site,
    "DISPLAY-FIELDS": rules_more.rule_display_fields,
    "KIND-FILTER": rules_more.rule_kind_filter,
    "BUILTIN-SET": rules_more.rule_builtin_set,
    "RELEX-WINDOW": rules_more.rule_relex_window,
    "UPDATE-ORDER": rules_more.rule_update_order,
    "REUSE": rules_struct.rule_reuse,
    "ERROR-OWNER": rules_struct.rule_error_owner,
    "INFO-EXTENT": rules_struct.rule_info_extent,
    "NO-MERGE": rules_more.rule_no_merge,
    "NOT-A-KIND": rules_more.rule_not_a_kind,
    "BSEARCH-MONO": rules_more.rule_bsearch_mono,
    "DOC-FLOW": rules_more.rule_doc_flow,
    "SLICE-FIRST": rules_more.rule_slice_first,
    "CURSOR-CMP": rules_more.rule_cursor_cmp,
    "COMMENT-LEX": rules_units.rule_comment_lex,
    "LEX-MUNCH": rules_units.rule_lex_munch,
    "STRIP-REBUILD": rules_more.rule_strip_rebuild,
    "DIAG-FLAG": rules_more.rule_diag_flag,
    "IDENT-RANGE": rules_more.rule_ident_range,
    "RECURSION-BOUND": rules_struct.rule_recursion_bound,
    "POSITION-TOKEN": rules_more.rule_position_token,
    "ERR-FRAME": rules_struct.rule_err_frame,
}

_cache = {}


def run_rule(prog, name):
    key = (id(prog), name)
    if key not in _cache:
        _cache[key] = _RULES[name](prog)
    return _cache[key]


def tag(*tags):
    s = set(tags)
    return lambda i: bool(s & set(i.tags)) or "anchor" in i.tags


PROPERTIES = {}


def prop(pid, explanation, rules, assumptions=()):
    PROPERTIES[pid] = {"explanation": explanation, "rules": rules, "assumptions": list(assumptions)}


from . import props  # noqa: E402,F401  (fills PROPERTIES)
