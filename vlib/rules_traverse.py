"""TRAVERSE: hand-written tree walkers must descend into every variant / field that can contain what
they collect (exhaustive descent), decided on the ADT type graph."""
from . import hir
from .core import Out
from .rules_tables import last

AST = "spl_frontend::ast::"

# walker kinds: (what must be reached, extra: Error(AstInfo) variants must be handled)
KINDS = {
    "errors": ({"AstInfo"}, False),
    "traverse": ({"AstInfo"}, False),
    "format": ({"Identifier", "IntLiteral", "Operator"}, True),
    "analyze": ({"Identifier"}, False),
    "build": ({"Identifier"}, False),
    "calls": ({"CallStatement"}, False),
    "vars": ({"Variable"}, False),
    "types": ({"TypeExpression"}, False),
    # a predicate over expressions that looks for binary expressions with a missing operand (parser::reports_to_parent)
    "binops": ({"BinaryExpression"}, False),
}

# (kind, ADT, variant-or-None, field) -> reason
EXCEPTIONS = {
    ("errors", "TypeExpression", "ArrayType", "size"):
        "an IntLiteral's AstInfo never receives an error (its parser is info(alt(tag parsers)) and no "
        "append_error receiver is reached through an IntLiteral)",
    ("build", "ProcedureDeclaration", None, "statements"):
        "statements are checked by table::semantic::analyze, not by the table builder",
    ("build", "ProcedureDeclaration", None, "info"): "n/a",
    ("analyze", "IfStatement", None, "info"): "n/a",
    ("binops", "Expression", "Unary", None):
        "parse_unary wraps its operand in info(..): an error reported inside is owned by the UnaryExpression (ERROR-OWNER)",
    ("binops", "Expression", "Bracketed", None):
        "parse_bracketed wraps its inner expression in info(..): an error reported inside is owned by the BracketedExpression",
    ("binops", "Expression", "Variable", None):
        "the index of an array access is parsed through Expression::parse under the access' own info(..)",
}


def walkers(prog):
    """Yield (body, kind)."""
    res = list(_walkers(prog))
    have = {k for _, k in res if not isinstance(k, tuple)}
    for b, k in res:
        if isinstance(k, tuple):
            # free-function form: only when the trait-impl form of that kind does not exist
            if k[1] not in have:
                yield b, k[1]
        else:
            yield b, k


def _walkers(prog):
    _fw_cache.clear()
    for b in prog.bodies():
        c = b["_crate"]
        tr = b.get("impl_trait")
        st = c.ty(b["impl_self"]) if "impl_self" in b else None
        is_ast = bool(st) and st["k"] == "adt" and st["p"].startswith(AST) and last(st["p"]) != "Reference"
        if tr == "spl_frontend::ErrorContainer" and b["name"] == "errors" and is_ast:
            yield b, "errors"
        elif tr == "spl_frontend::ast::AstInfoTraverser" and is_ast:
            yield b, "traverse"
        elif tr and tr.endswith("formatting::fmt::Format") and is_ast and last(st["p"]) != "AstInfo":
            yield b, "format"
        elif tr and (tr.endswith("semantic::AnalyzeStatement") or tr.endswith("semantic::AnalyzeExpression")) and is_ast:
            yield b, "analyze"
        elif tr and tr.endswith("build::TableBuilder") and is_ast:
            yield b, "build"
        elif c.name == "spl_frontend" and b["k"] == "fn" and b["p"].startswith("spl_frontend::parser") and "sig_in" in b and \
                [c.tstr(t_).replace(" ", "") for t_ in b["sig_in"]] == ["&ast::Expression"] and c.tstr(b["sig_out"]) == "bool":
            yield b, "binops"
        elif c.name == "spl_frontend" and b["k"] == "fn" and "impl_trait" not in b and "/tests" not in c.file_of(b["sp"]) and \
                (b["p"].startswith("spl_frontend::table::build") or b["p"].startswith("spl_frontend::table::semantic")) and b["params"] and \
                b["params"][0].get("k") == "Binding" and ast_adt_of(c, b["params"][0]["bt"]) and \
                c.tstr(b["params"][0]["bt"]).replace(" ", "").startswith("&mut"):
            # the table builder / semantic checker written as free functions over `&mut <AST node>` instead of trait impls
            yield b, ("free", "build" if b["p"].startswith("spl_frontend::table::build") else "analyze")
        else:
            k = feature_walker_kind(prog, b)
            if k:
                yield b, k


_fw_cache = {}


def _own_kind(c, b):
    """what a hand-written feature walker collects, judged from its signature and the patterns it matches"""
    if "sig_out" not in b:
        return None
    out = c.tstr(b["sig_out"])
    if "CallStatement" in out or "CallSite" in out:
        return "calls"
    if "ast::Identifier" not in out and "features::Ident" not in out:
        return None
    pats = []
    for n in hir.nodes(b["body"]):
        if n.get("k") == "Match":
            pats += [a["pat"] for a in n["arms"]]
        elif n.get("k") == "LetExpr":
            pats.append(n["pat"])
    vs = set()
    for p_ in pats:
        for alt in hir.pat_alternatives(p_):
            v = hir.pat_variant(alt) or ""
            vs.add(v)
    if any(v.endswith("ast::TypeExpression::NamedType") for v in vs):
        return "types"
    if any(v.endswith("ast::Variable::NamedVariable") for v in vs):
        return "vars"
    if any(v.endswith("ast::Statement::Call") for v in vs) and not any(v.endswith("ast::Statement::Assignment") for v in vs):
        return "calls"
    return None


def feature_walker_kind(prog, b, depth=0):
    """kind of a hand-written tree walker in lsp4spl::features (None if b is not one): it has an AST node parameter (or walks
    the Program) and collects identifiers / call statements; functions that only delegate inherit the kind of their callees."""
    c = b["_crate"]
    if c.name != "lsp4spl" or not b["p"].startswith("lsp4spl::features") or "/tests" in c.file_of(b["sp"]) or b["k"] not in ("fn", "assoc_fn"):
        return None
    if "impl_trait" in b:
        return None
    key = b["p"]
    if key in _fw_cache:
        return _fw_cache[key]
    _fw_cache[key] = None
    has_node_param = False
    for p_ in b["params"]:
        for bd in hir.pat_bindings(p_):
            if ast_adt_of(c, bd["bt"]) or "spl_frontend::ast::" in c.tstr(bd["bt"]):
                has_node_param = True
    kind = None
    if has_node_param and "sig_out" in b and not b.get("is_async"):
        kind = _own_kind(c, b)
        if kind is None and depth < 3 and ("ast::Identifier" in c.tstr(b["sig_out"])):
            kinds = set()
            for n in hir.nodes(b["body"]):
                if n.get("k") == "Call":
                    hb = hir.local_callee_body(prog, n)
                    if hb is not None and hb["p"] != b["p"]:
                        k2 = feature_walker_kind(prog, hb, depth + 1)
                        if k2:
                            kinds.add(k2)
            if len(kinds) == 1:
                kind = kinds.pop()
    _fw_cache[key] = kind
    return kind


RANGE_ACCESSORS = ("to_range", "to_text_range", "to_error")


class Reach:
    def __init__(self, prog):
        self.prog = prog
        self.memo = {}

    def adt_reaches(self, path, targets, stack=()):
        key = (path, frozenset(targets))
        if key in self.memo:
            return self.memo[key]
        if last(path) in targets and path.startswith(AST):
            self.memo[key] = True
            return True
        if path in stack:
            return False
        adt = self.prog.adts.get(path)
        if adt is None:
            return False
        c = self.prog.front
        res = False
        for v in adt["variants"]:
            for f in v["fields"]:
                if self.type_reaches(c, f["t"], targets, stack + (path,)):
                    res = True
        if not stack:
            self.memo[key] = res
        return res

    def type_reaches(self, c, ti, targets, stack=()):
        t = c.ty(ti)
        k = t["k"]
        if k == "adt":
            if t["p"].startswith(AST) and last(t["p"]) != "Reference":
                return self.adt_reaches(t["p"], targets, stack)
            return any(self.type_reaches(c, int(a), targets, stack) for a in t["a"])
        if k in ("ref", "slice", "array", "ptr"):
            return self.type_reaches(c, t["t"], targets, stack)
        if k == "tuple":
            return any(self.type_reaches(c, int(a), targets, stack) for a in t["a"])
        return False


def ast_adt_of(c, ti):
    """Peel &, Box, Reference, Option? no: only refs/box/Reference -> ast ADT path or None."""
    t = c.ty(ti)
    while True:
        if t["k"] == "ref":
            t = c.ty(t["t"])
        elif t["k"] == "adt" and t["p"] in ("alloc::boxed::Box", AST + "Reference") and t["a"]:
            t = c.ty(int(t["a"][0]))
        else:
            break
    if t["k"] == "adt" and t["p"].startswith(AST):
        return t["p"]
    return None


PREDICATE_ADAPTORS = ("find", "filter", "any", "all", "position", "take_while", "skip_while", "rposition", "contains",
                      "is_some_and", "map_while_none")


def _root_local(e):
    e = hir.strip_ref(e)
    while isinstance(e, dict):
        k = e.get("k")
        if k == "MethodCall" and e["m"] in ("as_ref", "as_mut", "deref", "deref_mut", "borrow"):
            e = hir.strip_ref(e["recv"])
        elif k == "Field":
            return None  # a field of something: the subject is that field, not a whole binding
        elif k == "Unary" and e["op"] == "*":
            e = hir.strip_ref(e["e"])
        else:
            break
    if e.get("k") == "Path" and e["res"].get("k") == "Local":
        return e["res"]["id"]
    return None


def _delegated_outside(body, bid, match):
    """Is local `bid` passed whole (receiver/argument) to a call somewhere outside `match`'s scrutinee?"""
    inside = set(id(n) for n in hir.nodes(match["scrut"]))
    for n, parents in hir.walk(body):
        if id(n) in inside:
            continue
        if n.get("k") == "Path" and n["res"].get("k") == "Local" and n["res"]["id"] == bid:
            i = len(parents) - 1
            while i >= 0 and parents[i].get("k") in ("Paren", "AddrOf", "Unary"):
                i -= 1
            par = parents[i] if i >= 0 else None
            if par is not None and par.get("k") in ("MethodCall", "Call") and \
                    not (par.get("k") == "MethodCall" and par["m"] in ("as_ref", "as_mut", "deref", "deref_mut")):
                return True
    return False


def local_uses(node, bid):
    return [n for n in hir.nodes(node, "Path") if n["res"].get("k") == "Local" and n["res"]["id"] == bid]


def rule_traverse(prog):
    out = Out("TRAVERSE")
    reach = Reach(prog)
    fc = prog.front
    seen_kinds = {}
    for b, kind in walkers(prog):
        c = b["_crate"]
        targets, handle_error = KINDS[kind]
        seen_kinds[kind] = seen_kinds.get(kind, 0) + 1
        item = b["d"]
        if kind == "binops":
            # a search through an expression tree: every operand field of a binary expression is searched itself - handed to the walker
            # again, or made the subject of the next loop iteration - not merely inspected
            bin_adt = prog.adts.get(AST + "BinaryExpression")
            for f in ((bin_adt or {}).get("variants") or [{"fields": []}])[0]["fields"]:
                if not reach.type_reaches(fc, f["t"], targets):
                    continue
                searched = False
                for call in hir.nodes(b["body"], "Call"):
                    if (hir.callee(call) or "") == b["p"] and any(
                            x.get("k") == "Field" and x["name"] == f["name"] for a_ in call["args"] for x in hir.nodes(a_)):
                        searched = True
                loop_vars = set()
                for lp in hir.nodes(b["body"]):
                    if lp.get("k") in ("While", "Loop", "ForLoop"):
                        for le in hir.nodes(lp.get("cond") or lp.get("body"), "LetExpr"):
                            pl_ = hir.path_local(hir.strip_ref(le["init"]))
                            if pl_:
                                loop_vars.add(pl_["id"])
                for as_ in hir.nodes(b["body"], "Assign"):
                    pl_ = hir.path_local(hir.strip(as_["l"]))
                    if pl_ and pl_["id"] in loop_vars and any(x.get("k") == "Field" and x["name"] == f["name"] for x in hir.nodes(as_["r"])):
                        searched = True
                out.add(item, "operand `%s` of a binary expression is searched, not only inspected" % f["name"], searched, c.loc(b["sp"]),
                        "`%s` is looked at but never searched itself: a missing operand deeper inside it (`1 + 2 * ;`: the right operand of `+` "
                        "is a product whose own right operand is missing) is not found, the expression is reused and its diagnostic disappears"
                        % f["name"], (kind,))
        # ---- enum matches
        # (a closure that only names the AstInfo of a node for somebody else - `|p| match p { Valid { info, .. } => Some(info), Error(_) => None }`
        #  handed to a helper - is a projection, not a walk)
        proj_ids = set()
        for cl_, cps_ in hir.walk(b["body"]):
            if cl_.get("k") == "Closure" and cps_ and cps_[-1].get("k") == "Call":
                bt_ = c.tstr(hir.strip(cl_["body"])["t"])
                if "AstInfo" in bt_ and "String" not in bt_:
                    for x_ in hir.nodes(cl_["body"]):
                        proj_ids.add(id(x_))
        for m in hir.nodes(b["body"], "Match"):
            if m["src"] != "match" or "matches!" in (m.get("mx") or []):
                continue
            if id(m) in proj_ids:
                continue
            # a match whose subject is also handed on whole (x.fmt(..), x.errors()) is an accessor, not the dispatch
            root = _root_local(m["scrut"])
            if root is not None and _delegated_outside(b["body"], root, m):
                continue
            ep = ast_adt_of(c, m["scrut"]["t"])
            adt = prog.adts.get(ep) if ep else None
            if not adt or len(adt["variants"]) < 2 and adt["k"] != "enum" or adt["k"] != "enum":
                continue
            covered = {}
            for arm in m["arms"]:
                for alt in hir.pat_alternatives(arm["pat"]):
                    pv = hir.pat_variant(alt)
                    if pv and pv.startswith(ep + "::"):
                        covered.setdefault(last(pv), []).append((alt, arm))
            for v in adt["variants"]:
                vname = v["name"]
                reaching = [f for f in v["fields"] if reach.type_reaches(fc, f["t"], targets)]
                is_err = handle_error and vname == "Error"
                if not reaching and not is_err:
                    continue
                what = "%s::%s is descended into" % (last(ep), vname)
                if vname not in covered and (kind, last(ep), vname, None) in EXCEPTIONS:
                    continue
                if vname not in covered:
                    out.add(item, what, False, c.loc(m["sp"]),
                            "variant %s::%s can contain %s but is swallowed by a wildcard arm: whatever is "
                            "inside is skipped" % (last(ep), vname, "/".join(sorted(targets))), (kind,))
                    continue
                fields_needed = reaching if reaching else v["fields"]
                # a variant may be spread over several arms by the shape of its payload (`ArrayType { base_type: Some(b), .. }` /
                # `ArrayType { base_type: None, .. }`): a field is descended into if an unguarded arm binds and uses it and the
                # other arms of the variant either pin that field to an empty shape (`None`, `[]`) or stand behind that arm
                per_arm = []
                for alt, arm in covered[vname]:
                    alt = hir.pat_strip(alt)
                    bound, pats_ = {}, {}
                    if alt.get("k") == "TupleStruct":
                        for i, q in enumerate(alt["pats"]):
                            if i < len(v["fields"]):
                                bound[v["fields"][i]["name"]] = list(hir.pat_bindings(q))
                                pats_[v["fields"][i]["name"]] = q
                    elif alt.get("k") == "Struct":
                        for f in alt["fields"]:
                            bound[f["name"]] = list(hir.pat_bindings(f["pat"]))
                            pats_[f["name"]] = f["pat"]
                    per_arm.append((arm, bound, pats_))

                def empty_shape(q):
                    q = hir.pat_strip(q) if isinstance(q, dict) else None
                    if q is None:
                        return False
                    if q.get("k") == "Path" and last(hir.pat_variant(q) or "") == "None":
                        return True
                    return q.get("k") == "Slice" and not (q.get("before") or q.get("after") or q.get("mid"))

                ok = True
                missing = []
                arm = per_arm[0][0]
                for f in fields_needed:
                    if (kind, last(ep), vname, f["name"]) in EXCEPTIONS:
                        continue
                    used_before = False
                    f_ok = True
                    for arm_, bound, pats_ in per_arm:
                        bs = bound.get(f["name"], [])
                        used = any(local_uses(arm_["body"], x["id"]) or (arm_.get("guard") and local_uses(arm_["guard"], x["id"])) for x in bs)
                        if used:
                            # (a guard that inspects a payload which *is* what the walker collects - a leaf - has decided about it:
                            #  the arm behind it is the "not this one" case)
                            ft_ = hir.peel(fc, f["t"])
                            leaf = ft_["k"] == "adt" and last(ft_["p"]) in targets
                            if arm_.get("guard") is None or leaf:
                                used_before = True
                            continue
                        if empty_shape(pats_.get(f["name"])) or used_before:
                            continue
                        f_ok = False
                        arm = arm_
                    if not f_ok or (not used_before and not any(
                            any(local_uses(a_["body"], x["id"]) or (a_.get("guard") and local_uses(a_["guard"], x["id"])) for x in bd_.get(f["name"], []))
                            for a_, bd_, _ in per_arm)):
                        ok = False
                        missing.append(f["name"])
                out.add(item, what, ok, c.loc(arm["sp"]),
                        "payload %s of %s::%s is not used in its arm" % (missing, last(ep), vname), (kind,))
        # ---- struct bindings that are not delegated: every reaching field must be accessed
        cands = []
        for p in b["params"]:
            for bd in hir.pat_bindings(p):
                cands.append((bd, b["body"]))
        for m in hir.nodes(b["body"], "Match"):
            for arm in m["arms"]:
                for bd in hir.pat_bindings(arm["pat"]):
                    cands.append((bd, arm["body"]))
        for n, parents in hir.walk(b["body"]):
            if n.get("k") == "Closure":
                par = parents[-1] if parents else {}
                if par.get("k") == "MethodCall" and par["m"] in PREDICATE_ADAPTORS:
                    continue
                # a projection (`|a| &a.info`) names one part of the node for somebody else; it walks nothing
                pb_ = hir.strip_ref(hir.strip(n["body"]))
                while pb_.get("k") == "Field":
                    pb_ = hir.strip_ref(hir.strip(pb_["base"]))
                if hir.path_local(pb_) is not None and hir.strip_ref(hir.strip(n["body"])).get("k") == "Field":
                    continue
                for p in n["params"]:
                    for bd in hir.pat_bindings(p):
                        cands.append((bd, n["body"]))
            if n.get("k") in ("If", "While") and hir.strip(n["cond"]).get("k") == "LetExpr":
                for bd in hir.pat_bindings(hir.strip(n["cond"])["pat"]):
                    cands.append((bd, n.get("then") or n.get("body")))
        for bd, scope in cands:
            sp = ast_adt_of(c, bd["bt"])
            adt = prog.adts.get(sp) if sp else None
            if not adt or adt["k"] != "struct" or last(sp) in ("AstInfo", "Reference", "Identifier", "IntLiteral"):
                continue
            # does the declared type go through Option/Vec? then bd is a container, skip
            t = c.ty(bd["bt"])
            uses = local_uses(scope, bd["id"])
            if not uses:
                continue
            fields_used = set()
            delegated = False
            for n, parents in hir.walk(scope):
                if n.get("k") == "Path" and n["res"].get("k") == "Local" and n["res"]["id"] == bd["id"]:
                    # climb through Paren/AddrOf/Unary*
                    i = len(parents) - 1
                    while i >= 0 and parents[i].get("k") in ("Paren", "AddrOf", "Unary"):
                        i -= 1
                    par = parents[i] if i >= 0 else None
                    if par is not None and par.get("k") == "Field":
                        fields_used.add(par["name"])
                    elif par is not None and par.get("k") == "MethodCall" and par["m"] in RANGE_ACCESSORS and \
                            any(x is n for x in hir.nodes(par["recv"])):
                        # `self.to_range()` (where the diagnostic goes) reads the node's extent; it does not walk its children
                        pass
                    else:
                        delegated = True
            if delegated:
                continue
            needed = [f for f in adt["variants"][0]["fields"] if reach.type_reaches(fc, f["t"], targets)
                      and (kind, last(sp), None, f["name"]) not in EXCEPTIONS]
            for f in needed:
                out.add(item, "%s.%s is descended into" % (last(sp), f["name"]), f["name"] in fields_used,
                        c.loc(bd["sp"]),
                        "field `%s` of %s can contain %s but is never read by this walker" % (f["name"], last(sp), "/".join(sorted(targets))),
                        (kind,))
    # children are walked one by one: two child nodes of the tree that are merged into one Option *before* the walk
    # (`i.if_branch.as_deref().or(i.else_branch.as_deref()).and_then(descend)`) leave the second unvisited whenever the first exists
    for b, kind in walkers(prog):
        c = b["_crate"]

        def child_opt(e):
            e_ = hir.strip(e)
            t_ = c.tstr(e_["t"]) + "".join(c.tstr(a_["to"]) for a_ in e_.get("adj") or [])
            reads_field = any(x.get("k") == "Field" for x in hir.nodes(e_))
            return reads_field and "Option<" in t_ and "ast::" in t_ and "Identifier" not in t_

        for mc in hir.nodes(b["body"], "MethodCall"):
            if mc["m"] in ("or", "xor") and mc["args"] and child_opt(mc["recv"]) and child_opt(mc["args"][0]):
                out.add(b["d"], "every child is walked for itself (children are not merged before the walk)", False, c.loc(mc["sp"]),
                        "`a.%s(b)` on two child nodes keeps one of them: when both are present (an `if` with an `else`) only the first is "
                        "searched, whatever the walker looks for in the second is never found" % mc["m"], (kind, "merge"))
    # ... nor is one child visited only where a sibling is absent (`if let Some(a) = &mut self.if_branch { .. } else if let Some(b) =
    # &mut self.else_branch { .. }`): the second is skipped whenever the first exists
    for b, kind in walkers(prog):
        c = b["_crate"]

        def child_field(e):
            """name of the AST child field of the walked node that `e` reads (Option-typed, holding AST nodes)"""
            for x in hir.nodes(e):
                if x.get("k") == "Field":
                    t_ = c.tstr(x["t"])
                    if "Option<" in t_ and "ast::" in t_ and "Identifier" not in t_:
                        return x["name"]
            return None

        for iff in hir.nodes(b["body"], "If"):
            cond = hir.strip(iff["cond"])
            if cond.get("k") != "LetExpr" or iff.get("else") is None:
                continue
            first = child_field(cond["init"])
            if first is None or not any(v.endswith("Option::Some") for v in hir.pat_variants_all(cond["pat"])):
                continue
            for x in hir.nodes(iff["else"]):
                inner = hir.strip(x.get("cond") or {}) if x.get("k") == "If" else {}
                if inner.get("k") == "LetExpr":
                    second = child_field(inner["init"])
                    if second is not None and second != first:
                        out.add(b["d"], "every child is walked for itself (a child is not visited only where its sibling is absent)", False,
                                c.loc(x["sp"]), "`%s` is looked at in the `else` of the test for `%s`: when both exist (an `if` with an `else` "
                                "branch) the second child is never visited" % (second, first), (kind, "merge"))
    for k in KINDS:
        if seen_kinds.get(k, 0) == 0:
            out.missing("walkers of kind " + k)
    return out
