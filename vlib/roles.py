"""Role-based anchors: find the functions a rule is about by *signature and structure*, not by name or module path,
so that renaming a private function or moving it to another module does not blind (or trip) a rule."""
from . import hir

_cache = {}


def _sig(c, b):
    if "sig_in" not in b:
        return None, None
    return [c.tstr(t).replace(" ", "") for t in b["sig_in"]], c.tstr(b["sig_out"]).replace(" ", "")


def conv(prog):
    """The byte-offset <-> LSP position layer of lsp4spl, by signature.
    returns dict role -> body for roles as_position, get_insertion_index, as_pos_range, as_index_range."""
    key = (id(prog), "conv")
    if key in _cache:
        return _cache[key]
    c = prog.lsp
    res = {}
    for b in c.bodies:
        if b["k"] != "fn" or "/tests" in c.file_of(b["sp"]):
            continue
        ins, out = _sig(c, b)
        if ins is None or len(ins) != 2 or ins[1] != "&str":
            continue
        if ins[0] == "usize" and out == "lsp_types::Position":
            res.setdefault("as_position", b)
        elif ins[0] == "&lsp_types::Position" and out == "usize":
            res.setdefault("get_insertion_index", b)
        elif ins[0] == "&std::ops::Range<usize>" and out == "lsp_types::Range":
            res.setdefault("as_pos_range", b)
        elif ins[0] == "&lsp_types::Range" and out == "std::ops::Range<usize>":
            res.setdefault("as_index_range", b)
    _cache[key] = res
    return res


def conv_display(prog, *roles):
    r = conv(prog)
    return tuple(r[x]["d"] for x in roles if x in r)


def text_changes_fn(prog):
    """fn(.. Vec<TextDocumentContentChangeEvent> ..) -> Vec<TextChange>"""
    c = prog.lsp
    for b in c.bodies:
        if b["k"] not in ("fn", "assoc_fn") or "/tests" in c.file_of(b["sp"]):
            continue
        ins, out = _sig(c, b)
        if ins and any("TextDocumentContentChangeEvent" in i and "Vec<" in i for i in ins) and out.endswith("Vec<spl_frontend::TextChange>"):
            return b
    return None


def broker_fn(prog):
    """the task that owns the documents: async fn taking Receiver<DocumentRequest>"""
    c = prog.lsp
    for b in c.bodies:
        if b["k"] not in ("fn", "assoc_fn") or "/tests" in c.file_of(b["sp"]):
            continue
        ins, _ = _sig(c, b)
        if ins and any("Receiver<" in i and "DocumentRequest" in i for i in ins):
            return b
    return None


def notify_fns(prog):
    """functions that build a PublishDiagnostics notification"""
    c = prog.lsp
    res = []
    for b in c.bodies:
        if b["k"] not in ("fn", "assoc_fn") or "/tests" in c.file_of(b["sp"]):
            continue
        if any((s.get("adt") or "").endswith("PublishDiagnosticsParams") for s in hir.nodes(b["body"], "Struct")):
            res.append(b)
    return res


def comment_parsers(prog):
    """token parsers that accept exactly a Comment token and hand out its text (parser::comment, wherever it lives)"""
    c = prog.front
    res = set()
    for b in c.bodies:
        f = c.file_of(b["sp"])
        if not (f.endswith("parser.rs") or "/parser/" in f) or "/tests" in f or b["k"] != "fn":
            continue
        ins, out = _sig(c, b)
        if not ins or len(ins) != 1 or "TokenStream" not in ins[0] or "String" not in out:
            continue
        pats = []
        for n in hir.nodes(b["body"]):
            if n.get("k") == "LetExpr":
                pats.append(n["pat"])
            elif n.get("k") == "Match":
                pats += [a["pat"] for a in n["arms"]]
        if any((hir.pat_variant(alt) or "").endswith("tokens::TokenType::Comment") for p in pats for alt in hir.pat_alternatives(p)):
            res.add(b["p"])
    return res
