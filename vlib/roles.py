"""Role-based anchors: find the functions a rule is about by *signature and structure*, not by name or module path,
so that renaming a private function or moving it to another module does not blind (or trip) a rule."""
from . import hir

_cache = {}


def _sig(c, b):
    if "sig_in" not in b:
        return None, None
    return [c.tstr(t).replace(" ", "") for t in b["sig_in"]], c.tstr(b["sig_out"]).replace(" ", "")


def conv(prog):
    """The byte-offset <-> LSP position layer of lsp4spl, by signature.
    returns dict role -> body for roles as_position, get_insertion_index, as_pos_range, as_index_range."""
    key = (id(prog), "conv")
    if key in _cache:
        return _cache[key]
    c = prog.lsp
    res = {}
    for b in c.bodies:
        if b["k"] != "fn" or "/tests" in c.file_of(b["sp"]):
            continue
        ins, out = _sig(c, b)
        if ins is None or len(ins) != 2 or ins[1] != "&str":
            continue
        if ins[0] == "usize" and out == "lsp_types::Position":
            res.setdefault("as_position", b)
        elif ins[0] == "&lsp_types::Position" and out == "usize":
            res.setdefault("get_insertion_index", b)
        elif ins[0] == "&std::ops::Range<usize>" and out == "lsp_types::Range":
            res.setdefault("as_pos_range", b)
        elif ins[0] in ("&lsp_types::Range", "lsp_types::Range") and out == "std::ops::Range<usize>":
            res.setdefault("as_index_range", b)
    _cache[key] = res
    return res


def conv_display(prog, *roles):
    r = conv(prog)
    return tuple(r[x]["d"] for x in roles if x in r)


def text_changes_fn(prog):
    """fn(.. Vec<TextDocumentContentChangeEvent> ..) -> Vec<TextChange>"""
    c = prog.lsp
    for b in c.bodies:
        if b["k"] not in ("fn", "assoc_fn") or "/tests" in c.file_of(b["sp"]):
            continue
        ins, out = _sig(c, b)
        if ins and any("TextDocumentContentChangeEvent" in i and "Vec<" in i for i in ins) and out.endswith("Vec<spl_frontend::TextChange>"):
            return b
    return None


def broker_fn(prog):
    """the task that owns the documents: async fn taking Receiver<DocumentRequest>"""
    c = prog.lsp
    for b in c.bodies:
        if b["k"] not in ("fn", "assoc_fn") or "/tests" in c.file_of(b["sp"]):
            continue
        ins, _ = _sig(c, b)
        if ins and any("Receiver<" in i and "DocumentRequest" in i for i in ins):
            return b
    return None


def notify_fns(prog):
    """functions that build a PublishDiagnostics notification"""
    c = prog.lsp
    res = []
    for b in c.bodies:
        if b["k"] not in ("fn", "assoc_fn") or "/tests" in c.file_of(b["sp"]):
            continue
        if any((s.get("adt") or "").endswith("PublishDiagnosticsParams") for s in hir.nodes(b["body"], "Struct")):
            res.append(b)
    return res


def comment_parsers(prog):
    """token parsers that accept exactly a Comment token and hand out its text (parser::comment, wherever it lives)"""
    c = prog.front
    res = set()
    for b in c.bodies:
        f = c.file_of(b["sp"])
        if not (f.endswith("parser.rs") or "/parser/" in f) or "/tests" in f or b["k"] != "fn":
            continue
        ins, out = _sig(c, b)
        if not ins or len(ins) != 1 or "TokenStream" not in ins[0] or "String" not in out:
            continue
        pats = []
        for n in hir.nodes(b["body"]):
            if n.get("k") == "LetExpr":
                pats.append(n["pat"])
            elif n.get("k") == "Match":
                pats += [a["pat"] for a in n["arms"]]
        if any(v.endswith("tokens::TokenType::Comment") for p in pats for v in hir.pat_variants_all(p)):
            res.add(b["p"])
    return res


def comment_helpers(prog):
    """The formatter's comment re-attachment helpers, by role: fn(String, &[Token], [mode]) -> String in lsp4spl that
    tests tokens for TokenType::Comment.  -> dict path -> {"body", "mode": param index or None, "markers": [...]}.
    classify_comment_call(prog, call) tells whether a call keeps *all* comments of the slice or only the *leading* ones."""
    key = (id(prog), "comment_helpers")
    if key in _cache:
        return _cache[key]
    c = prog.lsp
    res = {}
    for b in c.bodies:
        if b["k"] not in ("fn", "assoc_fn") or "/tests" in c.file_of(b["sp"]) or not b["p"].startswith("lsp4spl::features::formatting"):
            continue
        ins, out = _sig(c, b)
        # (the text comes in as String or as &str)
        if not ins or out != "std::string::String" or not ({"std::string::String", "&str"} & set(ins)) or not any("[spl_frontend::tokens::Token]" in i for i in ins):
            continue
        pats = []
        for n in hir.nodes_deep(prog, b["body"], 1, crate=c, values=True):
            if n.get("k") == "LetExpr":
                pats.append(n["pat"])
            elif n.get("k") == "Match":
                pats += [a["pat"] for a in n["arms"]]
        if not any(v.endswith("tokens::TokenType::Comment") for p in pats for v in hir.pat_variants_all(p)):
            continue
        mode = None
        for i, t in enumerate(ins):
            if t not in ("std::string::String", "&str") and "Token]" not in t and "FormattingOptions" not in t:
                mode = i
        res[b["p"]] = {"body": b, "mode": mode}
    _cache[key] = res
    return res


def _variant_of(e):
    """enum variant / bool literal an expression denotes"""
    e = hir.strip_ref(e)
    if e.get("k") == "Path" and e["res"].get("ctor_of"):
        return e["res"]["ctor_of"]
    if e.get("k") == "Lit":
        v = hir.lit_value(e)
        if isinstance(v, bool):
            return v
    return None


def classify_comment_call(prog, call):
    """'all' | 'leading' | None (cannot tell) for a call of a comment helper"""
    hs = comment_helpers(prog)
    h = hs.get(hir.callee(call) or "")
    if h is None:
        return None
    b = h["body"]
    mode_id = None
    if h["mode"] is not None:
        bs = list(hir.pat_bindings(b["params"][h["mode"]]))
        mode_id = bs[0]["id"] if len(bs) == 1 else None
        arg = _variant_of(call["args"][h["mode"]]) if h["mode"] < len(call["args"]) else None
        if mode_id is None or arg is None:
            return None
    else:
        arg = None

    def is_mode(e):
        pl = hir.path_local(hir.strip_ref(e))
        return bool(pl) and pl["id"] == mode_id

    def mentions_mode(e):
        return mode_id is not None and any(is_mode(x) for x in hir.nodes(e, "Path"))

    # iteration stops: map_while / take_while adaptors and `break`
    verdict = "all"
    for n, parents in hir.walk(b["body"]):
        stop = n.get("k") == "Break" or (n.get("k") == "MethodCall" and n["m"] in ("map_while", "take_while"))
        if not stop:
            continue
        # conditions on the mode parameter that guard this stop
        applies = True
        chain = list(parents) + [n]
        for i, p in enumerate(chain[:-1]):
            nxt = chain[i + 1]
            if p.get("k") == "If" and mentions_mode(p["cond"]):
                cond = hir.strip(p["cond"])
                side = "then" if nxt is p.get("then") else "else" if nxt is p.get("else") else None
                if side is None:
                    continue
                want = None
                if cond.get("k") == "Binary" and cond["op"] in ("==", "!="):
                    l, r = cond["l"], cond["r"]
                    v = _variant_of(r) if is_mode(l) else _variant_of(l) if is_mode(r) else None
                    if v is None:
                        return None
                    want = (arg == v) if cond["op"] == "==" else (arg != v)
                elif is_mode(cond):
                    want = arg is True
                elif cond.get("k") == "Unary" and is_mode(cond.get("e", {})):
                    want = arg is False
                elif cond.get("k") == "Match" and is_mode(cond["scrut"]) and "matches!" in (cond.get("mx") or []):
                    vs = hir.pat_variants_all(cond["arms"][0]["pat"])
                    want = arg in vs
                else:
                    return None
                if side == "else":
                    want = not want
                applies = applies and want
            elif p.get("k") == "Match" and is_mode(p["scrut"]):
                arm = nxt if nxt.get("k") == "Arm" else None
                if arm is None:
                    continue
                vs = hir.pat_variants_all(arm["pat"])
                if vs:
                    applies = applies and arg in vs
                else:
                    # wildcard arm: applies if no earlier arm names the variant
                    named = [v for a in p["arms"] for v in hir.pat_variants_all(a["pat"])]
                    applies = applies and arg not in named
        if applies:
            verdict = "leading"
    return verdict


def in_lexer_module(c, b):
    f = c.file_of(b["sp"])
    return (f.endswith("/lexer.rs") or "/lexer/" in f) and "/tests" not in f


def sub_lexers(prog):
    """The lexers of the token classes, by role: the implementations of the lexer trait (wherever their unit structs live), and plain
    functions of the lexer module (Span) -> IResult that build exactly one class of token.  -> {class name: body}"""
    key = (id(prog), "sub_lexers")
    if key in _cache:
        return _cache[key]
    c = prog.front
    TT = "spl_frontend::tokens::TokenType::"
    res = {}
    for b in c.bodies:
        if not in_lexer_module(c, b) or b["k"] not in ("fn", "assoc_fn"):
            continue
        if b["name"] == "lex" and "impl_trait" in b and "impl_self" in b:
            res[c.tstr(b["impl_self"]).rsplit("::", 1)[-1]] = b
    for b in c.bodies:
        if not in_lexer_module(c, b) or b["k"] != "fn" or "impl_trait" in b or "sig_in" not in b:
            continue
        ins = [c.tstr(t) for t in b["sig_in"]]
        if len(ins) != 1 or "LocatedSpan" not in ins[0] or "Token" not in c.tstr(b["sig_out"]):
            continue
        built = set(n["res"]["ctor_of"][len(TT):] for n in hir.nodes(b["body"], "Path") if (n["res"].get("ctor_of") or "").startswith(TT))
        if len(built) == 1:
            res.setdefault(built.pop(), b)
    _cache[key] = res
    return res
