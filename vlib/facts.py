"""Obtain and load the typed-program facts of /repo (exported by the splint driver).

The facts are regenerated whenever the content hash of the repository's sources changes, so
every check reflects /repo's *current working tree*; checks of the same tree share one
compiler run.
"""
import fcntl
import glob
import hashlib
import json
import os
import shutil
import subprocess
import sys
import time

VERIF = os.path.dirname(os.path.dirname(os.path.abspath(__file__)))
REPO = os.environ.get("SPLINT_REPO", "/repo")
WORK = os.path.join(VERIF, ".work")
DRIVER = os.path.join(VERIF, "splint", "target", "release", "splint")


class FactsError(Exception):
    pass


def tree_hash(repo=REPO, extra=""):
    h = hashlib.sha256()
    h.update(extra.encode())
    paths = []
    for root, dirs, files in os.walk(repo):
        dirs[:] = [d for d in dirs if d not in ("target", ".git", "editors", "node_modules")]
        for f in files:
            if f.endswith(".rs") or f in ("Cargo.toml", "Cargo.lock") or f.endswith(".snap"):
                paths.append(os.path.join(root, f))
    for p in sorted(paths):
        h.update(os.path.relpath(p, repo).encode())
        h.update(b"\0")
        with open(p, "rb") as fh:
            h.update(fh.read())
        h.update(b"\0")
    # the driver itself is part of the key
    try:
        with open(os.path.join(VERIF, "splint", "src", "main.rs"), "rb") as fh:
            h.update(fh.read())
    except OSError:
        pass
    return h.hexdigest()[:20]


def _sysroot():
    return subprocess.check_output(["rustc", "+nightly", "--print", "sysroot"], text=True).strip()


def ensure_driver():
    if os.path.exists(DRIVER):
        src = os.path.join(VERIF, "splint", "src", "main.rs")
        if os.path.getmtime(src) <= os.path.getmtime(DRIVER):
            return
    env = dict(os.environ, CARGO_NET_OFFLINE="true")
    r = subprocess.run(["cargo", "build", "--release", "--offline"], cwd=os.path.join(VERIF, "splint"),
                       env=env, capture_output=True, text=True)
    if r.returncode != 0:
        raise FactsError("cannot build splint driver:\n" + r.stderr[-4000:])


def _run_driver(repo, out_dir, target_dir, all_targets=False, manifest_dir=None):
    os.makedirs(out_dir, exist_ok=True)
    os.makedirs(target_dir, exist_ok=True)
    # defeat cargo's freshness cache for the workspace members: drop their fingerprints
    for fp in glob.glob(os.path.join(target_dir, "debug", ".fingerprint", "*")):
        base = os.path.basename(fp)
        if base.startswith(("spl_frontend-", "lsp4spl-", "splint_fixture-")):
            shutil.rmtree(fp, ignore_errors=True)
    env = dict(os.environ)
    env.update({
        "SPLINT_OUT": out_dir,
        "LD_LIBRARY_PATH": os.path.join(_sysroot(), "lib"),
        "RUSTFLAGS": "-Zmir-opt-level=0 -Awarnings",
        "RUSTC_WORKSPACE_WRAPPER": DRIVER,
        "CARGO_TARGET_DIR": target_dir,
        "CARGO_NET_OFFLINE": "true",
    })
    cmd = ["cargo", "+nightly", "check", "--offline", "--workspace"]
    if all_targets:
        cmd.append("--all-targets")
    r = subprocess.run(cmd, cwd=manifest_dir or repo, env=env, capture_output=True, text=True)
    if r.returncode != 0:
        raise FactsError("cargo check (with splint) failed on %s:\n%s" % (repo, r.stderr[-6000:]))
    return r


def facts_dir(repo=REPO, work=WORK):
    """Return the directory holding fresh facts for the current tree of `repo`."""
    ensure_driver()
    os.makedirs(work, exist_ok=True)
    lock = open(os.path.join(work, "lock"), "w")
    fcntl.flock(lock, fcntl.LOCK_EX)
    try:
        h = tree_hash(repo)
        out = os.path.join(work, "facts", h)
        ok = os.path.join(out, "OK")
        if not os.path.exists(ok):
            shutil.rmtree(out, ignore_errors=True)
            # keep the facts cache small
            base = os.path.join(work, "facts")
            if os.path.isdir(base):
                olds = sorted((os.path.getmtime(os.path.join(base, d)), d) for d in os.listdir(base))
                keep = 120 if os.path.basename(work).startswith("mut") else 6
                for _, d in olds[:-keep]:
                    shutil.rmtree(os.path.join(base, d), ignore_errors=True)
            t0 = time.time()
            _run_driver(repo, out, os.path.join(work, "target"))
            need = {"spl_frontend": False, "lsp4spl": False}
            for f in os.listdir(out):
                for k in need:
                    if f.startswith(k + "-") and "-test-" not in f:
                        need[k] = True
            if not all(need.values()):
                raise FactsError("splint produced no fact file for: %s (stale cargo cache?)" %
                                 [k for k, v in need.items() if not v])
            with open(ok, "w") as fh:
                fh.write("%.1f" % (time.time() - t0))
        return out
    finally:
        fcntl.flock(lock, fcntl.LOCK_UN)
        lock.close()


def _submodule_aliases(datas):
    """{`mod::sub::Name`: `mod::Name`} (crate-less, as the display forms and the full paths both contain it) for the ADTs of the two
    crates that live one module level below where the rest of the code base expects them."""
    all_adts = set()
    for d in datas:
        if d.get("crate") in ("spl_frontend", "lsp4spl"):
            all_adts |= {a["p"] for a in d["adts"]}
    res = {}
    for p in sorted(all_adts):
        segs = p.split("::")
        if len(segs) < 4 or not segs[0] in ("spl_frontend", "lsp4spl") or "tests" in segs:
            continue
        crate_, name_, sub_ = segs[0], segs[-1], segs[-2]
        mod_ = "::".join(segs[1:-2])
        canonical = "::".join((crate_, mod_, name_))
        same_name = [q for q in all_adts if q.startswith(crate_ + "::" + mod_ + "::") and q.endswith("::" + name_)]
        if canonical in all_adts or len(same_name) != 1:
            continue
        # only types that the parent module is known for in this code base (the rules' vocabulary), never a type that is new
        if (mod_, name_) not in _HOME:
            continue
        res["%s::%s::%s" % (mod_, sub_, name_)] = "%s::%s" % (mod_, name_)
    # the same for the functions the rules know by path (`parser::utility::affected` moved to `parser::utility::reuse::affected`)
    all_fns = set()
    for d in datas:
        if d.get("crate") in ("spl_frontend", "lsp4spl"):
            all_fns |= {b["p"] for b in d["bodies"] if b.get("k") in ("fn", "const", "static")}
    for p in sorted(all_fns):
        segs = p.split("::")
        if len(segs) < 4 or "tests" in segs:
            continue
        crate_, name_, sub_ = segs[0], segs[-1], segs[-2]
        mod_ = "::".join(segs[1:-2])
        if (mod_, name_) not in _HOME_FNS:
            continue
        canonical = "::".join((crate_, mod_, name_))
        same_name = [q for q in all_fns if q.startswith(crate_ + "::" + mod_ + "::") and q.endswith("::" + name_) and q.count("::") == p.count("::")]
        if canonical in all_fns or len(same_name) != 1:
            continue
        res["%s::%s::%s" % (mod_, sub_, name_)] = "%s::%s" % (mod_, name_)
    return res


_HOME_FNS = {("parser::utility", n_) for n_ in ("affected", "expect", "info", "ignore_until0", "ignore_until1", "many", "parse_list",
                                                "confusable", "inc", "reference", "comma_preceded")} | \
    {("lexer", "lex"), ("lexer", "update"), ("parser", "parse"), ("parser", "update"), ("table::build", "build"), ("table::semantic", "analyze"),
     ("features::formatting", "format"), ("features::fold", "fold"), ("features::references", "rename"), ("features::references", "find"),
     ("features::references", "prepare_rename"), ("features::completion", "propose"), ("features::completion", "new_stmt"),
     ("features", "doc_cursor"), ("features", "get_doc"), ("features", "names_global_entity"), ("features", "get_local_table"),
     ("document", "broker"), ("document", "to_text_changes"), ("io", "responder"),
     ("features::semantic_tokens", "TOKEN_TYPES"), ("features::semantic_tokens", "TOKEN_MODIFIERS")}


# (module, type) pairs the rules speak about by their path on the triaged tree
_HOME = {("tokens", "TokenStream"), ("tokens", "Token"), ("tokens", "TokenType"), ("tokens", "TokenChange"), ("tokens", "TokenList"),
         ("table", "LookupTable"), ("table", "GlobalTable"), ("table", "LocalTable"), ("table", "Entry"), ("table", "GlobalEntry"),
         ("table", "LocalEntry"), ("table", "TypeEntry"), ("table", "ProcedureEntry"), ("table", "VariableEntry"), ("table", "DataType"),
         ("table", "SymbolTable"), ("ast", "Operator"), ("ast", "AstInfo"), ("ast", "Reference"), ("ast", "Identifier"),
         ("features", "Ident"), ("features", "DocumentCursor"), ("io", "Request"), ("io", "Response"), ("io", "PreparedResponse"),
         ("io", "Message"), ("io", "Notification"), ("io", "LSCodec"), ("document", "DocumentRequest"), ("error", "ParserError"),
         ("features::semantic_tokens", "SemanticTokenType"), ("features::semantic_tokens", "SemanticTokenModifier")}


class Crate:
    def __init__(self, data):
        self.name = data["crate"]
        self.files = data["files"]
        self.types = data["types"]
        self.adts = {a["p"]: a for a in data["adts"]}
        self.impls = {i["p"]: i for i in data["impls"]}
        self.bodies = data["bodies"]
        self.by_path = {}
        from . import hir
        for b in self.bodies:
            b["body"] = hir.simplify(b["body"])
            b["_crate"] = self
            self.by_path[b["p"]] = b

    def ty(self, i):
        return self.types[i]

    def tstr(self, i):
        return self.types[i]["s"]

    def loc(self, sp):
        return "%s:%d:%d" % (self.files[sp[0]], sp[1], sp[2])

    def file_of(self, sp):
        return self.files[sp[0]]


class Program:
    def __init__(self, fdir):
        self.crates = {}
        texts = []
        for f in sorted(os.listdir(fdir)):
            if not f.endswith(".json") or "-test-" in f:
                continue
            with open(os.path.join(fdir, f)) as fh:
                texts.append(fh.read())
        datas = [json.loads(t) for t in texts]
        # A type that was moved into a private submodule of its module and re-exported (`mod stream; pub use stream::TokenStream;`)
        # is still *the* `tokens::TokenStream` of the crate for every user.  The rules name types by the path users see: such a type
        # is given its re-exported path again (`a::b::c::N` -> `a::b::N`, when no other `a::b::N` exists and N is unique below `a::b`).
        self.aliases = _submodule_aliases(datas)
        if self.aliases:
            import re
            pat = re.compile("|".join(r"(?<![A-Za-z0-9_])%s(?![A-Za-z0-9_])" % re.escape(k) for k in sorted(self.aliases, key=len, reverse=True)))
            texts = [pat.sub(lambda m: self.aliases[m.group(0)], t) for t in texts]
            datas = [json.loads(t) for t in texts]
        for d in datas:
            c = Crate(d)
            self.crates[c.name] = c
        self.front = self.crates.get("spl_frontend")
        self.lsp = self.crates.get("lsp4spl")
        self.adts = {}
        for c in self.crates.values():
            self.adts.update(c.adts)

    def bodies(self):
        for c in self.crates.values():
            for b in c.bodies:
                yield b

    def body(self, path):
        for c in self.crates.values():
            if path in c.by_path:
                return c.by_path[path]
        # a function that was moved into a (re-exported) submodule of its module is still *the* function of that name for every
        # user: `parser::utility::affected` -> `parser::utility::reuse::affected`, if it is the only one
        if "::" in path:
            prefix, name = path.rsplit("::", 1)
            cands = [b for c in self.crates.values() for b in c.bodies
                     if b["p"].endswith("::" + name) and b["p"].startswith(prefix + "::") and b["p"].count("::") == path.count("::") + 1
                     and b["k"] in ("fn", "const", "static") and "::tests::" not in b["p"]]
            if len(cands) == 1:
                return cands[0]
        return None

    def find_bodies(self, pred):
        return [b for b in self.bodies() if pred(b)]


_loaded = {}


def load(repo=REPO, work=WORK):
    """One Program per facts directory and process (rule results are cached per Program object)."""
    d = facts_dir(repo, work)
    if d not in _loaded:
        _loaded.clear()
        _loaded[d] = Program(d)
    return _loaded[d]
