"""Evaluation of character predicates and single-character nom parsers over a finite sample of characters.

The lexical grammar of SPL speaks about three character classes only (ASCII letters, ASCII digits, `_`); every predicate
the lexer uses is built from `char` methods, comparisons with literals, range patterns and boolean connectives, so its
value for a given character can be computed from the typed HIR without running anything.  `None` = not understood.
"""
from . import hir

SAMPLES = ["a", "m", "z", "A", "Q", "Z", "0", "5", "9", "_", "+", " ", "(", "'", "\n", "ä", "Ł", "ß", "٥"]

CHAR_METHODS = {
    "is_ascii_alphanumeric": lambda c: c.isascii() and c.isalnum(),
    "is_ascii_alphabetic": lambda c: c.isascii() and c.isalpha(),
    "is_ascii_digit": lambda c: c.isascii() and c.isdigit(),
    "is_ascii_lowercase": lambda c: "a" <= c <= "z",
    "is_ascii_uppercase": lambda c: "A" <= c <= "Z",
    "is_ascii_hexdigit": lambda c: c.isascii() and c in "0123456789abcdefABCDEF",
    "is_ascii_punctuation": lambda c: c.isascii() and not c.isalnum() and not c.isspace() and c.isprintable(),
    "is_ascii_whitespace": lambda c: c in " \t\n\r\x0c",
    "is_ascii": lambda c: c.isascii(),
    "is_alphanumeric": lambda c: c.isalnum(),
    "is_alphabetic": lambda c: c.isalpha(),
    "is_numeric": lambda c: c.isnumeric(),
    "is_whitespace": lambda c: c.isspace(),
    "is_lowercase": lambda c: c.islower(),
    "is_uppercase": lambda c: c.isupper(),
}

# nom::character::complete::<name>: (predicate on the first character, may match the empty string)
NOM_CLASSES = {
    "alpha1": (CHAR_METHODS["is_ascii_alphabetic"], False), "alpha0": (CHAR_METHODS["is_ascii_alphabetic"], True),
    "alphanumeric1": (CHAR_METHODS["is_ascii_alphanumeric"], False), "alphanumeric0": (CHAR_METHODS["is_ascii_alphanumeric"], True),
    "digit1": (CHAR_METHODS["is_ascii_digit"], False), "digit0": (CHAR_METHODS["is_ascii_digit"], True),
    "hex_digit1": (CHAR_METHODS["is_ascii_hexdigit"], False), "hex_digit0": (CHAR_METHODS["is_ascii_hexdigit"], True),
    "multispace1": (CHAR_METHODS["is_ascii_whitespace"], False), "multispace0": (CHAR_METHODS["is_ascii_whitespace"], True),
    "space1": (lambda c: c in " \t", False), "space0": (lambda c: c in " \t", True),
    "anychar": (lambda c: True, False),
}


def last(p):
    return p.rsplit("::", 1)[-1] if p else ""


class Eval:
    def __init__(self, prog, crate):
        self.prog = prog
        self.c = crate

    # ------------------------------------------------------------ predicates on a character
    def pred_fn(self, f, ch, depth=0):
        """value of the character predicate `f` (closure, or path to a local fn(char) -> bool / a char method) for ch"""
        f = hir.strip_ref(hir.strip(f))
        if depth > 24:
            return None
        if f.get("k") == "Closure" and len(f.get("params") or []) == 1:
            ids = [bd["id"] for bd in hir.pat_bindings(f["params"][0])]
            return self.pred(f["body"], ch, set(ids), depth + 1)
        if f.get("k") == "Path":
            d = hir.path_def(f) or {}
            p = d.get("rp") or d.get("p") or ""
            if last(p) in CHAR_METHODS and ("char" in p):
                return bool(CHAR_METHODS[last(p)](ch))
            b = self.prog.body(p) if p.startswith("spl_frontend") or p.startswith("lsp4spl") else None
            if b is not None and len(b["params"]) == 1:
                ids = [bd["id"] for bd in hir.pat_bindings(b["params"][0])]
                return self.pred(b["body"], ch, set(ids), depth + 1)
        return None

    def is_char(self, e, ids):
        e = hir.strip_ref(hir.strip(e))
        while e.get("k") == "Unary" and e.get("op") in ("*", "Deref"):
            e = hir.strip_ref(hir.strip(e["e"]))
        pl = hir.path_local(e)
        return bool(pl) and pl["id"] in ids

    def pat_matches(self, p, ch):
        p = hir.pat_strip(p)
        k = p.get("k")
        if k == "Lit" and p["lit"].get("k") == "char":
            return ch == p["lit"].get("v")
        if k == "Range":
            lo, hi = p.get("lo"), p.get("hi")
            if (lo is not None and lo.get("k") != "char") or (hi is not None and hi.get("k") != "char"):
                return None
            ok = True
            if lo is not None:
                ok = ok and ch >= lo["v"]
            if hi is not None:
                ok = ok and (ch <= hi["v"] if p.get("incl") else ch < hi["v"])
            return ok
        if k == "Or":
            vs = [self.pat_matches(q, ch) for q in p["pats"]]
            if any(v is True for v in vs):
                return True
            return False if all(v is False for v in vs) else None
        if k == "Wild" or (k == "Binding" and not p.get("sub")):
            return True
        return None

    def pred(self, e, ch, ids, depth=0):
        """three-valued value of the boolean expression e, `ids` = locals that hold the character"""
        e = hir.strip(e)
        k = e.get("k")
        if depth > 32:
            return None
        if k == "Lit":
            v = e["lit"].get("v")
            return bool(v) if e["lit"].get("k") == "bool" or v in (True, False) else None
        if k == "Unary" and e.get("op") in ("!", "Not"):
            v = self.pred(e["e"], ch, ids, depth + 1)
            return None if v is None else (not v)
        if k == "Binary" and e["op"] in ("&&", "||"):
            a, b = self.pred(e["l"], ch, ids, depth + 1), self.pred(e["r"], ch, ids, depth + 1)
            if e["op"] == "&&":
                if a is False or b is False:
                    return False
                return True if (a is True and b is True) else None
            if a is True or b is True:
                return True
            return False if (a is False and b is False) else None
        if k == "Binary" and e["op"] in ("==", "!=", "<", "<=", ">", ">="):
            for x, y, flip in ((e["l"], e["r"], False), (e["r"], e["l"], True)):
                lv = hir.strip(y)
                if self.is_char(x, ids) and lv.get("k") == "Lit" and lv["lit"].get("k") == "char":
                    v = lv["lit"]["v"]
                    op = e["op"]
                    if flip:
                        op = {"<": ">", "<=": ">=", ">": "<", ">=": "<="}.get(op, op)
                    return {"==": ch == v, "!=": ch != v, "<": ch < v, "<=": ch <= v, ">": ch > v, ">=": ch >= v}[op]
            return None
        if k == "Match":
            if self.is_char(e["scrut"], ids):
                for arm in e["arms"]:
                    m = self.pat_matches(arm["pat"], ch)
                    if m is None:
                        return None
                    if m:
                        if arm.get("guard") is not None:
                            g = self.pred(arm["guard"], ch, ids, depth + 1)
                            if g is None:
                                return None
                            if not g:
                                continue
                        return self.pred(arm["body"], ch, ids, depth + 1)
                return None
            return None
        if k == "MethodCall":
            if self.is_char(e["recv"], ids) and e["m"] in CHAR_METHODS and not e["args"]:
                return bool(CHAR_METHODS[e["m"]](ch))
            # `span.starts_with(<class>)` on the one-character span that holds ch
            if e["m"] in ("starts_with", "ends_with", "contains") and self.is_char(e["recv"], ids) and e["args"]:
                a = hir.strip(e["args"][0])
                if a.get("k") == "Lit":
                    v = a["lit"].get("v")
                    return ch == v if isinstance(v, str) and len(v) == 1 else None
                return self.pred_fn(a, ch, depth + 1)
            return None
        if k == "Call":
            hb = hir.local_callee_body(self.prog, e)
            if hb is not None and len(hb["params"]) == 1 and len(e["args"]) == 1 and self.is_char(e["args"][0], ids):
                pid = [bd["id"] for bd in hir.pat_bindings(hb["params"][0])]
                return self.pred(hb["body"], ch, set(pid), depth + 1)
            return None
        if k == "If":
            cv = self.pred(e["cond"], ch, ids, depth + 1)
            if cv is None or e.get("else") is None:
                return None
            return self.pred(e["then"] if cv else e["else"], ch, ids, depth + 1)
        if k == "BlockExpr" and not e["b"].get("stmts") and e["b"].get("expr") is not None:
            return self.pred(e["b"]["expr"], ch, ids, depth + 1)
        return None

    # ------------------------------------------------------------ single-character parsers
    def accepts(self, p, ch, depth=0):
        """does the nom parser expression p succeed on an input whose next character is ch (None = end of input)?
        Only parsers that decide on the next character are understood."""
        p = hir.strip_ref(hir.strip(p))
        if depth > 16:
            return None
        k = p.get("k")
        if k == "Path":
            d = hir.path_def(p) or {}
            path = d.get("rp") or d.get("p") or ""
            nm = last(path)
            if path.startswith("nom::") and nm == "eof":
                return ch is None
            if path.startswith("nom::character") and nm in NOM_CLASSES:
                f, empty_ok = NOM_CLASSES[nm]
                return True if empty_ok else (ch is not None and bool(f(ch)))
            b = self.prog.body(path) if path.startswith("spl_frontend") else None
            if b is not None:
                return self.accepts_fn(b, ch, depth + 1)
            return None
        if k == "Closure":
            body = hir.strip(p["body"])
            if body.get("k") == "Call" and len(body["args"]) == 1:
                return self.accepts(body["f"], ch, depth + 1)
            return None
        if k != "Call":
            return None
        cal = hir.callee(p) or ""
        nm = last(cal)
        args = p["args"]
        if cal.startswith("nom::"):
            if nm == "alt" and args:
                vs = [self.accepts(x, ch, depth + 1) for x in hir.strip(args[0]).get("es", [])]
                if any(v is True for v in vs):
                    return True
                return False if vs and all(v is False for v in vs) else None
            if nm == "not" and args:
                v = self.accepts(args[0], ch, depth + 1)
                return None if v is None else (not v)
            if nm in ("peek", "recognize", "map", "cut", "complete", "consumed", "value") and args:
                return self.accepts(args[-1] if nm == "value" else args[0], ch, depth + 1)
            if nm in ("terminated", "pair", "preceded", "tuple"):
                return None
            if nm == "tag" and args:
                v = hir.lit_value(hir.strip(args[0]))
                if isinstance(v, str) and v:
                    if ch is None or ch != v[0]:
                        return False
                    return True if len(v) == 1 else None
                return None
            if nm == "char" and args:
                v = hir.lit_value(hir.strip(args[0]))
                return (ch is not None and ch == v) if isinstance(v, str) else None
            if nm in ("one_of", "none_of") and args:
                v = hir.lit_value(hir.strip(args[0]))
                if not isinstance(v, str):
                    return None
                return ch is not None and ((ch in v) == (nm == "one_of"))
            if nm == "satisfy" and args:
                return ch is not None and self.pred_fn(args[0], ch, depth + 1)
            if nm in ("take_while1", "take_till1") and args:
                if ch is None:
                    return False
                v = self.pred_fn(args[0], ch, depth + 1)
                return None if v is None else (v if nm == "take_while1" else not v)
            if nm in ("take_while", "take_till", "opt", "many0", "success"):
                return True
            if nm == "take" and args:
                return ch is not None if hir.lit_value(hir.strip(args[0])) in ("1", 1) else None
            if nm == "verify" and len(args) == 2:
                inner = hir.strip(args[0])
                one = inner.get("k") == "Call" and last(hir.callee(inner) or "") == "take" and hir.lit_value(hir.strip(inner["args"][0])) in ("1", 1)
                if not one:
                    return None
                if ch is None:
                    return False
                return self.pred_fn(args[1], ch, depth + 1)
            return None
        # a local combinator with the shape of nom's verify: fn(parser, predicate) that succeeds iff the parser does and the predicate
        # holds for its output
        hb = hir.local_callee_body(self.prog, p)
        if hb is not None and len(args) == 2 and len(hb["params"]) == 2:
            inner = hir.strip(args[0])
            one = inner.get("k") == "Call" and last(hir.callee(inner) or "") == "take" and hir.lit_value(hir.strip(inner["args"][0])) in ("1", 1)
            if one and self._is_verify_like(hb):
                if ch is None:
                    return False
                return self.pred_fn(args[1], ch, depth + 1)
        return None

    def _is_verify_like(self, hb):
        """fn(parser, verification) -> parser: applies `verification(&out)` to the output of `parser` and fails when it is false"""
        pids = [p_["id"] for p_ in hb["params"] if p_.get("k") == "Binding"]
        if len(pids) != 2:
            return False
        for iff in hir.nodes(hb["body"], "If"):
            cond = hir.strip(iff["cond"])
            if cond.get("k") == "Call" and (hir.path_local(hir.strip(cond["f"])) or {}).get("id") == pids[1]:
                then_ok = any(last((hir.path_def(x["f"]) or {}).get("ctor_of", "")) == "Ok" for x in hir.nodes(iff["then"], "Call"))
                else_err = iff.get("else") is not None and any(
                    last((hir.path_def(x["f"]) or {}).get("ctor_of", "")) == "Err" for x in hir.nodes(iff["else"], "Call"))
                if then_ok and else_err:
                    return True
        return False

    def accepts_fn(self, b, ch, depth=0):
        """a named parser function fn(Span) -> IResult: `P(input)` as its whole body, or `take(1)` followed by a test that fails"""
        body = hir.strip(b["body"])
        if body.get("k") == "Call" and len(body["args"]) == 1 and hir.strip(body["f"]).get("k") in ("Call", "Path"):
            return self.accepts(body["f"], ch, depth + 1)
        if body.get("k") == "BlockExpr":
            stmts = body["b"]["stmts"]
            taken = None
            for st in stmts:
                if st.get("k") == "Let" and st.get("init") is not None:
                    iv = hir.strip(st["init"])
                    if iv.get("k") == "Try":
                        iv = hir.strip(iv["e"])
                    if iv.get("k") == "Call" and hir.strip(iv["f"]).get("k") == "Call" and last(hir.callee(hir.strip(iv["f"])) or "") == "take" and \
                            hir.lit_value(hir.strip(hir.strip(iv["f"])["args"][0])) in ("1", 1):
                        bs = list(hir.pat_bindings(st["pat"]))
                        if len(bs) == 2:
                            taken = bs[1]["id"]
                inner = hir.stmt_inner(st)
                if taken is not None and inner is not None and inner.get("k") == "If":
                    fails = any(last((hir.path_def(x["f"]) or {}).get("ctor_of", "")) == "Err" for x in hir.nodes(inner["then"], "Call")) and \
                        any(True for _ in hir.nodes(inner["then"], "Ret"))
                    if fails:
                        if ch is None:
                            return False
                        v = self.pred(inner["cond"], ch, {taken}, depth + 1)
                        return None if v is None else (not v)
        return None
