"""Further table / provenance rules: MESSAGE-SITE, DISPLAY-FIELDS, KIND-FILTER, BUILTIN-SET, RELEX-WINDOW,
UPDATE-ORDER, DIAG-FLAG, IDENT-RANGE."""
from . import hir
from .core import Out
from .rules_tables import last, const_value, variants_of
from .rules_struct import place, calls_in
from . import roles
from . import flow

# SPL: which rule class is reported while checking which construct (frozen from the message texts / SPL spec)
# SPL: which rule class is reported while checking which *kind of node* (frozen from the message texts / SPL spec).
# A function is "about" node type N if it is a method of an impl for N, or takes N (possibly behind &mut/Option/Reference)
# as a parameter, or is a private helper only called from such functions.
MESSAGE_NODE = {
    "AssignmentHasDifferentTypes": "Assignment", "AssignmentRequiresIntegers": "Assignment",
    "IfConditionMustBeBoolean": "IfStatement", "WhileConditionMustBeBoolean": "WhileStatement",
    "UndefinedProcedure": "CallStatement", "CallOfNoneProcedure": "CallStatement", "ArgumentsTypeMismatch": "CallStatement",
    "ArgumentMustBeAVariable": "CallStatement", "TooFewArguments": "CallStatement", "TooManyArguments": "CallStatement",
    "OperatorDifferentTypes": "BinaryExpression", "ComparisonNonInteger": "BinaryExpression",
    "ArithmeticOperatorNonInteger": ("BinaryExpression", "UnaryExpression"),
    "UndefinedVariable": "Variable", "NotAVariable": "Variable",
    "IndexingNonArray": "ArrayAccess", "IndexingWithNonInteger": "ArrayAccess",
    "UndefinedType": "TypeExpression", "NotAType": "TypeExpression",
    "RedeclarationAsType": "TypeDeclaration", "MustBeAReferenceParameter": "ParameterDeclaration",
    "RedeclarationAsProcedure": "ProcedureDeclaration", "RedeclarationAsParameter": "ParameterDeclaration",
    "RedeclarationAsVariable": "VariableDeclaration", "MainIsMissing": "Program", "MainIsNotAProcedure": "TypeDeclaration",
    "MainMustNotHaveParameters": "Program",
}


def _about(c, b):
    """AST node types a function is directly about"""
    res = set()
    if "impl_self" in b:
        t = hir.peel(c, b["impl_self"])
        if t["k"] == "adt" and t["p"].startswith("spl_frontend::ast::"):
            res.add(last(t["p"]))
    for p_ in b["params"]:
        for bd in hir.pat_bindings(p_):
            t = c.ty(bd["bt"])
            # peel refs, Option, Box, Reference
            seen = 0
            while seen < 6:
                seen += 1
                if t["k"] == "ref":
                    t = c.ty(t["t"])
                elif t["k"] == "adt" and t["p"] in ("core::option::Option", "alloc::boxed::Box", "spl_frontend::ast::Reference") and t["a"]:
                    t = c.ty(int(t["a"][0]))
                else:
                    break
            if t["k"] == "adt" and t["p"].startswith("spl_frontend::ast::"):
                res.add(last(t["p"]))
    return res


def _is_about(prog, b, node, cmap, depth=0):
    """node: a node type name, or a tuple of admissible ones (every caller chain ends in a function about one of them)"""
    c = b["_crate"]
    nodes_ = set(node) if isinstance(node, (tuple, set, list)) else {node}
    if nodes_ & _about(c, b):
        return True
    if depth > 3:
        return False
    callers = cmap.get(b["p"], set()) - {b["p"]}
    if not callers:
        return False
    return all(prog.body(x) is not None and _is_about(prog, prog.body(x), node, cmap, depth + 1) for x in callers)


def _ctor_sites(prog, adt):
    res = {}
    c = prog.front
    for b in c.bodies:
        if not c.file_of(b["sp"]).startswith("spl_frontend/src/table"):
            continue
        for n, parents in hir.walk(b["body"]):
            if n.get("k") == "Path" and n["res"].get("ctor_of", "").startswith(adt + "::"):
                res.setdefault(last(n["res"]["ctor_of"]), []).append((b, n, parents))
    return res


def rule_message_site(prog):
    out = Out("MESSAGE-SITE")
    c = prog.front
    n = 0
    cmap = hir.callers_map(prog, "spl_frontend")
    for enum in ("BuildErrorMessage", "SemanticErrorMessage"):
        sites = _ctor_sites(prog, "spl_frontend::error::" + enum)
        for v, lst in sorted(sites.items()):
            want = MESSAGE_NODE.get(v)
            if want is None:
                continue  # a new message kind: VARIANTS still demands an emitting site and a text
            for b, node, parents in lst:
                n += 1
                wants = want if isinstance(want, tuple) else (want,)
                verdict_ = _is_about(prog, b, tuple(wants), cmap)
                if not verdict_:
                    # a message table keyed by a classification of the checker's own (`match kind { Arithmetic => .., Comparison => .. }`):
                    # which caller can reach which entry is decided by the values it passes, not by who calls the table
                    for pr_ in parents:
                        if pr_.get("k") == "Arm":
                            vs_ = hir.pat_variants_all(pr_["pat"])
                            if vs_ and all(v_.startswith("spl_frontend::table::") for v_ in vs_):
                                verdict_ = None
                out.add("error::%s::%s" % (enum, v), "is reported while checking a %s" % wants[0],
                        verdict_, c.loc(node["sp"]),
                        "`%s` is constructed in `%s`, a function that is not about `%s` nodes: a diagnostic would name the wrong rule"
                        % (v, b["d"], " / ".join(wants)), ("site",))
    # finer arm -> message tables
    call = [b for b in c.bodies if any(last(p_["res"].get("ctor_of", "")) == "TooFewArguments" for p_ in hir.nodes(b["body"], "Path"))
            and c.file_of(b["sp"]).startswith("spl_frontend/src/table")]
    if call:
        for m in hir.nodes(call[0]["body"], "Match"):
            arms = {}
            for arm in m["arms"]:
                pv = hir.pat_variant(arm["pat"]) or ""
                if pv.startswith("core::cmp::Ordering::"):
                    msgs = set(last(p["res"]["ctor_of"]) for p in hir.nodes(arm["body"], "Path")
                               if p["res"].get("ctor_of", "").startswith("spl_frontend::error::SemanticErrorMessage::"))
                    arms[last(pv)] = msgs
            if arms:
                # scrutinee: arg_len.cmp(&param_len)
                sc = hir.strip(m["scrut"])
                ok_dir = sc.get("k") == "MethodCall" and sc["m"] == "cmp"
                if ok_dir:
                    # which side counts the arguments? (follow local lets)
                    defs_ = {}
                    for l_ in hir.nodes(call[0]["body"], "Let"):
                        if l_["pat"].get("k") == "Binding" and l_.get("init") is not None:
                            defs_[l_["pat"]["id"]] = l_["init"]

                    def side(e_):
                        e_ = hir.strip_ref(e_)
                        pl_ = hir.path_local(e_)
                        if pl_ and pl_["id"] in defs_:
                            e_ = defs_[pl_["id"]]
                        names_ = [f_["name"] for f_ in hir.nodes(e_, "Field")]
                        return "args" if "arguments" in names_ else "params" if "parameters" in names_ else None
                    l_side, r_side = side(sc["recv"]), side(sc["args"][0])
                    if (l_side, r_side) == ("params", "args"):
                        arms = {"Less": arms.get("Greater"), "Greater": arms.get("Less"), "Equal": arms.get("Equal")}
                    elif (l_side, r_side) != ("args", "params"):
                        ok_dir = None
                n += 1
                out.add(call[0]["d"], "fewer arguments than parameters => TooFewArguments, more => TooManyArguments",
                        (arms.get("Less") == {"TooFewArguments"} and arms.get("Greater") == {"TooManyArguments"} and not arms.get("Equal")) if ok_dir else None,
                        c.loc(m["sp"]), "arms: %s" % {k: sorted(v) for k, v in arms.items()}, ("arm",))
    binb = [b for b in c.bodies if any(last(p_["res"].get("ctor_of", "")) == "ComparisonNonInteger" for p_ in hir.nodes(b["body"], "Path"))
            and c.file_of(b["sp"]).startswith("spl_frontend/src/table")]
    if binb:
        for iff in hir.nodes(binb[0]["body"], "If"):
            cond = hir.strip(iff["cond"])
            if cond.get("k") == "MethodCall" and cond["m"] == "is_arithmetic":
                t = set(last(p["res"]["ctor_of"]) for p in hir.nodes(iff["then"], "Path") if "SemanticErrorMessage::" in p["res"].get("ctor_of", ""))
                e = set(last(p["res"]["ctor_of"]) for p in hir.nodes(iff.get("else") or {}, "Path") if "SemanticErrorMessage::" in p["res"].get("ctor_of", ""))
                if t or e:
                    n += 1
                    out.add(binb[0]["d"], "arithmetic operator => ArithmeticOperatorNonInteger, comparison => ComparisonNonInteger",
                            t == {"ArithmeticOperatorNonInteger"} and e == {"ComparisonNonInteger"}, c.loc(iff["sp"]), "then %s else %s" % (sorted(t), sorted(e)), ("arm",))
                else:
                    # the result type decision: arithmetic => Int, else Bool
                    tv = set(last(p["res"]["ctor_of"]) for p in hir.nodes(iff["then"], "Path") if "table::DataType::" in p["res"].get("ctor_of", ""))
                    ev = set(last(p["res"]["ctor_of"]) for p in hir.nodes(iff.get("else") or {}, "Path") if "table::DataType::" in p["res"].get("ctor_of", ""))
                    if tv or ev:
                        n += 1
                        out.add(binb[0]["d"], "arithmetic operators yield int, comparisons yield boolean", tv == {"Int"} and ev == {"Bool"},
                                c.loc(iff["sp"]), "then %s else %s" % (sorted(tv), sorted(ev)), ("arm",))
    for kind, want in (("IfStatement", "IfConditionMustBeBoolean"), ("WhileStatement", "WhileConditionMustBeBoolean")):
        bs = [b for b in c.bodies if any(last(p_["res"].get("ctor_of", "")) == want for p_ in hir.nodes(b["body"], "Path"))
              and c.file_of(b["sp"]).startswith("spl_frontend/src/table")]
        if bs:
            # guarded by `condition_type != DataType::Bool` (in the function itself, or in a local helper the message is handed to)
            ok = None

            def bool_guards(root):
                res = []
                for iff in hir.nodes(root, "If"):
                    cond = hir.strip(iff["cond"])
                    if cond.get("k") == "Binary" and cond["op"] in ("!=", "==") and \
                            any(p["res"].get("ctor_of", "").endswith("DataType::Bool") for p in hir.nodes(cond, "Path")):
                        res.append((cond["op"], iff))
                return res

            for op, iff in bool_guards(bs[0]["body"]):
                if any(last(p["res"].get("ctor_of", "")) == want for p in hir.nodes(iff["then"], "Path")):
                    ok = op == "!="
            if ok is None:
                for call in hir.nodes(bs[0]["body"], "Call"):
                    if any(last(p["res"].get("ctor_of", "")) == want for a in call["args"] for p in hir.nodes(a, "Path")):
                        hb = hir.local_callee_body(prog, call)
                        if hb is not None:
                            for op, iff in bool_guards(hb["body"]):
                                if any((hir.callee(x) or "").endswith("append_error") for x in hir.nodes(iff["then"]) if x.get("k") in ("Call", "MethodCall")):
                                    ok = op == "!="
            n += 1
            out.add(bs[0]["d"], "%s is reported exactly when the condition's type is not boolean" % want, ok, c.loc(bs[0]["sp"]), "", ("arm",))
    # every operator node checks its operands: the arm of the expression analysis that handles a Binary / Unary expression reaches
    # (through the helpers it calls) the operator messages.  An arm that only forwards the operand's type accepts `-(1 < 2)`.
    SEM = "spl_frontend::error::SemanticErrorMessage::"
    need = {"Binary": {"OperatorDifferentTypes", "ComparisonNonInteger", "ArithmeticOperatorNonInteger"}, "Unary": {"ArithmeticOperatorNonInteger"}}
    found_dispatch = False
    for b in c.bodies:
        if not b["p"].startswith("spl_frontend::table::semantic") or "/tests" in c.file_of(b["sp"]):
            continue
        for m_ in hir.nodes(b["body"], "Match"):
            arms = {}
            for a_ in m_["arms"]:
                for v_ in hir.pat_variants_all(a_["pat"]):
                    if v_.startswith("spl_frontend::ast::Expression::"):
                        arms.setdefault(last(v_), []).append(a_)
            if not ({"Binary", "Unary"} <= set(arms)) or "DataType" not in c.tstr(b.get("sig_out", 0) or 0):
                continue
            found_dispatch = True
            for kind_, msgs in sorted(need.items()):
                got = set()
                for a_ in arms[kind_]:
                    # (not through the dispatch itself: `u.expr.analyze(..)` re-enters it for the operand, whose checks are not the operator's)
                    for x in hir.nodes_deep(prog, a_["body"], 4, {b["p"]}, crate=c):
                        if x.get("k") == "Path" and x["res"].get("ctor_of", "").startswith(SEM):
                            got.add(last(x["res"]["ctor_of"]))
                n += 1
                out.add(b["d"], "the operand(s) of a %s expression are type checked" % kind_.lower(), msgs <= got, c.loc(arms[kind_][0]["sp"]),
                        "the analysis of a %s expression reaches only the messages %s (needed: %s): an operand of the wrong type passes "
                        "unreported" % (kind_.lower(), sorted(got), sorted(msgs)), ("arm", "operand"))
    if not found_dispatch:
        out.missing("expression analysis dispatch (match on ast::Expression returning a DataType) in table::semantic")
    # `expression combines different types` is decided by comparing the two operand types, not by one of them being int
    for v_, lst in _ctor_sites(prog, "spl_frontend::error::SemanticErrorMessage").items():
        if v_ != "OperatorDifferentTypes":
            continue
        for b, node, parents in lst:
            ok = None
            why = ""
            for i_, pr_ in enumerate(parents):
                cond = None
                if pr_.get("k") == "Arm":
                    if any(x.endswith("table::DataType::Int") for x in hir.pat_variants_all(pr_["pat"])):
                        ok = False
                        why = "the arm that reports it matches on DataType::Int"
                    cond = pr_.get("guard")
                elif pr_.get("k") == "If" and i_ + 1 < len(parents) and parents[i_ + 1] is pr_.get("then"):
                    cond = pr_["cond"]
                if cond is not None and ok is None:
                    for bn in hir.nodes(cond, "Binary"):
                        if bn["op"] in ("!=", "Ne") and not any("DataType::" in x["res"].get("ctor_of", "") for x in hir.nodes(bn, "Path")):
                            ok = True
            n += 1
            out.add(b["d"], "`different types` is reported exactly when the two operand types differ", ok, c.loc(node["sp"]),
                    "%s: two operands of different non-integer types (two array types, boolean and array) are reported with the "
                    "`requires integer operands` rule instead" % why, ("arm", "operand"))
    if n < 27:
        out.missing("message construction sites (found %d)" % n)
    return out


def rule_display_fields(prog):
    """Signatures shown by hover/completion/signature help: the Display impls read every field that is part of a signature."""
    out = Out("DISPLAY-FIELDS")
    c = prog.front
    want = {"table::VariableEntry": {"is_ref", "name", "data_type"}, "table::ProcedureEntry": {"name", "parameters"},
            "table::TypeEntry": {"name", "data_type"}, "table::DataType": None}
    kind_word = {"table::ProcedureEntry": "proc", "table::TypeEntry": "type"}
    n = 0
    for b in c.bodies:
        if b.get("impl_trait") != "core::fmt::Display" or b["name"] != "fmt" or "impl_self" not in b:
            continue
        st = c.tstr(b["impl_self"])
        if st not in want:
            continue
        n += 1
        if want[st] is None:
            # DataType: Array arm shows size and base type, Int/Bool their names
            lits = [l["lit"].get("v") for l in hir.nodes(b["body"], "Lit") if l["lit"]["k"] == "str"]
            used = set()
            for m in hir.nodes(b["body"], "Match"):
                for arm in m["arms"]:
                    for alt in hir.pat_alternatives(arm["pat"]):
                        if (hir.pat_variant(alt) or "").endswith("DataType::Array"):
                            for bd in hir.pat_bindings(alt):
                                if any(p["res"].get("k") == "Local" and p["res"]["id"] == bd["id"] for p in hir.nodes(arm["body"], "Path")):
                                    used.add(bd["name"])
            # (the array may also be taken apart by `let .. else` / `if let`)
            for l_ in hir.nodes(b["body"]):
                if l_.get("k") in ("Let", "LetExpr") and l_.get("pat"):
                    for alt in hir.pat_alternatives(l_["pat"]):
                        if (hir.pat_variant(alt) or "").endswith("DataType::Array"):
                            for bd in hir.pat_bindings(alt):
                                if any(p["res"].get("k") == "Local" and p["res"]["id"] == bd["id"] for p in hir.nodes(b["body"], "Path")):
                                    used.add(bd["name"])
            out.add("Display for DataType", "shows int / boolean / array size and element type", {"int", "boolean"} <= set(lits) and {"size", "base_type"} <= used,
                    c.loc(b["sp"]), "literals %s, array fields used %s" % (lits[:6], sorted(used)))
            # "fully resolved type": the element type is printed by its structure, never by the name of the declaration that created it
            # (also through helper methods of DataType the impl calls)
            reads_creator = "creator" in used or any(
                f_.get("k") == "Field" and f_["name"] == "creator" for f_ in hir.nodes_deep(prog, b["body"], 2, crate=c))
            out.add("Display for DataType", "an array type is printed by its structure, not by the name of its creator", not reads_creator,
                    c.loc(b["sp"]), "the Array arm reads `creator`: an element type that was declared (`type vector = array [5] of int`) is shown as "
                    "`array [3] of vector` - hover and signature help promise the fully resolved type", ("resolved",))
            continue
        def self_fields(root):
            """fields of self read below root, also inside methods of the same type that are called on self (`self.parameter_list()`)"""
            res_ = set(f["name"] for f in hir.nodes(root, "Field") if (place(f["base"]) or "").startswith("self#"))
            for mc_ in hir.nodes(root, "MethodCall"):
                if (place(hir.strip_ref(hir.strip(mc_["recv"]))) or "").startswith("self#"):
                    hb_ = hir.local_callee_body(prog, mc_)
                    if hb_ is not None and hb_["_crate"] is c and "impl_self" in hb_ and hb_.get("impl_self") == b.get("impl_self"):
                        res_ |= set(f["name"] for f in hir.nodes(hb_["body"], "Field") if (place(f["base"]) or "").startswith("self#"))
            # ... or inside a local function self is handed to (`PassingMode::of(self)`)
            for cl_ in hir.nodes(root, "Call"):
                hb_ = hir.local_callee_body(prog, cl_)
                if hb_ is None or hb_["_crate"] is not c:
                    continue
                for ai_, a_ in enumerate(cl_["args"]):
                    pl_ = place(hir.strip_ref(hir.strip(a_))) or ""
                    if pl_.startswith("self#") and "." not in pl_ and ai_ < len(hb_["params"]) and hb_["params"][ai_].get("k") == "Binding":
                        pre_ = hb_["params"][ai_]["name"] + "#"
                        res_ |= set(f["name"] for f in hir.nodes(hb_["body"], "Field") if (place(f["base"]) or "").startswith(pre_))
            return res_

        read = self_fields(b["body"])
        out.add("Display for " + last(st), "signature shows %s" % sorted(want[st]), want[st] <= read, c.loc(b["sp"]),
                "fields read: %s — a signature that omits the reference marker, the name or the type does not tell the truth" % sorted(read))
        # ... on every path: each `write!` of the impl prints all of them (an arm that prints less shows some entries without name/kind)
        writes = [x for x in hir.nodes(b["body"], "MethodCall") if x["m"] == "write_fmt"]
        if len(writes) > 1:
            for wi, w_ in enumerate(writes):
                rd = self_fields(w_)
                # values bound earlier from self fields (match scrutinee / lets) count when the write uses the binding
                txt = " ".join(hir.format_text(w_))
                okw = (want[st] - {"data_type"}) <= rd and (st not in kind_word or kind_word[st] in txt)
                out.add("Display for " + last(st), "every branch of the signature shows %s" % sorted(want[st] - {"data_type"}), okw, c.loc(w_["sp"]),
                        "one `write!` of the impl reads only %s (text %r): the entries that take this branch are shown without their name / kind"
                        % (sorted(rd), txt[:40]), ("branch",))
        if st in kind_word:
            lits = " ".join(hir.format_text(b["body"]))
            out.add("Display for " + last(st), "signature names the kind (`%s`)" % kind_word[st], kind_word[st] in lits, c.loc(b["sp"]),
                    "text pieces of the signature: %r" % lits[:60])
    # Entry / GlobalEntry / LocalEntry Display delegate per variant
    if n < 4:
        out.missing("Display impls of table entries (found %d)" % n)
    return out


def rule_kind_filter(prog):
    """Completion: search_types proposes types, search_procedures procedures, search_variables variables and parameters."""
    out = Out("KIND-FILTER")
    c = prog.lsp
    want = {"search_types": ({"Type"}, "STRUCT"), "search_procedures": ({"Procedure"}, "FUNCTION"), "search_variables": ({"Variable", "Parameter"}, "VARIABLE")}
    for fn, (kinds, ck) in sorted(want.items()):
        b = prog.body("lsp4spl::features::completion::" + fn)
        if b is None:
            out.missing("completion::" + fn)
            continue
        got = set()
        # (the filter may be a predicate function handed to a shared helper: `search_and_create_items(table, is_type, ..)`)
        for m in (x_ for x_ in hir.nodes_deep(prog, b["body"], 1, crate=c, values=True) if x_.get("k") == "Match"):
            if "matches!" in (m.get("mx") or []):
                for arm in m["arms"]:
                    if hir.lit_value(arm["body"]) is True:
                        for alt in hir.pat_alternatives(arm["pat"]):
                            pv = hir.pat_variant(alt)
                            if pv:
                                got.add(last(pv))
        kinds_used = [last(p["res"]["p"]) for p in hir.nodes(b["body"], "Path") if p["res"].get("k") == "Def" and "CompletionItemKind" in (p["res"].get("d") or "") + c.tstr(p["t"])]
        out.add("completion::" + fn, "proposes exactly the entries of kind %s" % sorted(kinds), got == kinds, c.loc(b["sp"]), "filter keeps %s" % sorted(got))
        tbl = c.tstr(b["params"][0]["bt"]) if b["params"] else ""
        want_tbl = "LocalTable" if fn == "search_variables" else "GlobalTable"
        out.add("completion::" + fn, "searches the %s" % want_tbl, want_tbl in tbl, c.loc(b["sp"]), "parameter type %s" % tbl)
    ns = prog.body("lsp4spl::features::completion::new_stmt")
    if ns is None:
        out.missing("completion::new_stmt")
    else:
        # which search functions the statement-start proposals are built from (called, or handed to a combinator as a value);
        # that search_variables gets the local and search_procedures the global table is settled by their parameter types above
        uses = set()
        for n in hir.nodes_deep(prog, ns["body"], 1, crate=c):
            if n.get("k") in ("Call", "MethodCall"):
                uses.add(last(hir.callee(n) or ""))
            if n.get("k") == "Path" and n["res"].get("k") == "Def" and n["res"].get("dk") in ("Fn", "AssocFn"):
                uses.add(last(n["res"].get("p") or ""))
        out.add("completion::new_stmt", "variables come from the local table, procedures from the global table",
                {"search_variables", "search_procedures"} <= uses, c.loc(ns["sp"]), "search functions used: %s" % sorted(u for u in uses if u.startswith("search_")))
    _stmt_zone(prog, out)
    return out


_SEARCHES = ("find", "position", "rposition", "rfind", "skip_while", "take_while", "any", "all", "filter", "find_map", "filter_map")


def _stmt_zone(prog, out):
    """A procedure body is `declarations, then statements`: where the statement zone begins is decided by a search over the
    `statements` of the ProcedureDeclaration with a predicate on the statement kind.  Error recovery leaves placeholder statements
    (variants of ast::Statement whose only payload is the AstInfo: Empty, Error), which such a predicate may set aside; every variant
    that carries a construct of its own (Assignment, Call, If, While, Block - read from the enum definition, not from the predicate)
    is a statement of the grammar and must get the same answer.  Predicates of another shape are undecided, not violations."""
    c = prog.lsp
    STMT = "spl_frontend::ast::Statement"
    adt = prog.front.adts.get(STMT)
    if not adt:
        return
    real = set()
    for v in adt["variants"]:
        ts = [prog.front.tstr(f["t"]) for f in v.get("fields") or []]
        if ts and not all(t.endswith("AstInfo") for t in ts):
            real.add(v["name"])
    if len(real) < 2:
        return
    for b in c.bodies:
        if not b["p"].startswith("lsp4spl::features::completion") or "/tests" in c.file_of(b["sp"]) or b["k"] == "closure":
            continue
        for mc in hir.nodes(b["body"], "MethodCall"):
            if mc["m"] not in _SEARCHES or not mc["args"]:
                continue
            # the receiver chain starts at the `statements` field of a ProcedureDeclaration
            over = False
            for f in hir.nodes(mc["recv"], "Field"):
                if f["name"] == "statements" and any("ProcedureDeclaration" in c.tstr(x.get("t")) for x in hir.nodes(f["base"]) if x.get("t") is not None):
                    over = True
            if not over:
                continue
            for m in hir.nodes_deep(prog, mc["args"][0], 1, crate=c, values=True):
                if m.get("k") != "Match":
                    continue
                verdicts = {}
                decided = True
                for v in sorted(real):
                    val = None
                    for arm in m["arms"]:
                        hit = None
                        for alt in hir.pat_alternatives(arm["pat"]):
                            a_ = hir.pat_strip(alt)
                            pv = hir.pat_variant(a_)
                            if pv is not None:
                                if pv.startswith(STMT + "::"):
                                    if last(pv) == v:
                                        hit = True
                                else:
                                    hit = "?"
                            elif a_.get("k") == "Wild" or (a_.get("k") == "Binding" and not a_.get("sub")):
                                hit = True
                            else:
                                hit = "?"
                            if hit:
                                break
                        if hit == "?" or (hit and arm.get("guard") is not None):
                            decided = False
                            break
                        if hit:
                            val = hir.lit_value(arm["body"])
                            if val not in (True, False):
                                decided = False
                            break
                    if not decided:
                        break
                    verdicts[v] = val
                if not any(hir.pat_variant(hir.pat_strip(alt)) and hir.pat_variant(hir.pat_strip(alt)).startswith(STMT + "::")
                           for arm in m["arms"] for alt in hir.pat_alternatives(arm["pat"])):
                    continue
                ok = None if not decided else len(set(verdicts.values())) == 1
                out.add(b["d"], "the search for the first statement of a procedure body treats every statement kind of the grammar alike",
                        ok, c.loc(m["sp"]),
                        "over `statements` of a ProcedureDeclaration, predicate per variant: %s (variants with a construct payload, from "
                        "the enum definition: %s)" % (", ".join("%s=%s" % kv for kv in sorted(verdicts.items())), sorted(real)), ("zone",))


def rule_builtin_set(prog):
    """DEFAULT_ENTRIES (what is_default() tests) lists exactly the names GlobalTable::initialized() enters."""
    out = Out("BUILTIN-SET")
    c = prog.front
    de = prog.body("spl_frontend::table::initialization::DEFAULT_ENTRIES")
    ini = [b for b in c.bodies if b["name"] == "initialized" and "initialization" in b["p"] and b["k"] == "assoc_fn"]
    if de is None or not ini:
        out.missing("table::initialization::{DEFAULT_ENTRIES, GlobalTable::initialized}")
        return out

    def name_of(e):
        e = hir.strip(e)
        if e.get("k") == "MethodCall" and e["m"] in ("to_string", "to_owned", "into"):
            e = hir.strip_ref(e["recv"])
        d = hir.path_def(e)
        if d and d["dk"].startswith("Const"):
            return const_value(prog, d["p"])
        return hir.lit_value(e)

    listed = [name_of(x) for x in hir.strip(de["body"]).get("es", [])]
    keys = []
    for call in hir.nodes(ini[0]["body"], "Call"):
        if last(hir.callee(call) or "") == "from" and "HashMap" in c.tstr(call["t"]):
            arr = hir.strip(call["args"][0])
            pl_ = hir.path_local(arr)
            if pl_:
                # (the array may be bound to a local first)
                for l_ in hir.nodes(ini[0]["body"], "Let"):
                    if l_["pat"].get("k") == "Binding" and l_["pat"]["id"] == pl_["id"] and l_.get("init") is not None:
                        arr = hir.strip(l_["init"])
            for tup in arr.get("es", []):
                tup = hir.strip(tup)
                if tup.get("k") == "Tup" and tup["es"]:
                    keys.append(name_of(tup["es"][0]))
                elif tup.get("k") == "Call":
                    # an entry built by a local constructor that returns `(key, entry)` with the key made from one of its parameters
                    hb_ = hir.local_callee_body(prog, tup)
                    key_ = None
                    if hb_ is not None and hb_["_crate"] is c:
                        tails = [hir.strip(x_) for x_ in hir.nodes(hb_["body"], "Tup") if len(x_.get("es") or []) == 2]
                        for tl_ in tails:
                            k0 = hir.strip(tl_["es"][0])
                            while k0.get("k") == "MethodCall" and k0["m"] in ("to_string", "to_owned", "into", "clone"):
                                k0 = hir.strip_ref(hir.strip(k0["recv"]))
                            kp = hir.path_local(k0)
                            # (the key may be bound to a local first)
                            if kp:
                                for l2 in hir.nodes(hb_["body"], "Let"):
                                    if l2["pat"].get("k") == "Binding" and l2["pat"]["id"] == kp["id"] and l2.get("init") is not None:
                                        k0 = hir.strip(l2["init"])
                                        while k0.get("k") == "MethodCall" and k0["m"] in ("to_string", "to_owned", "into", "clone"):
                                            k0 = hir.strip_ref(hir.strip(k0["recv"]))
                                        kp = hir.path_local(k0) or kp
                            for j_, q_ in enumerate(hb_["params"]):
                                if kp and q_.get("k") == "Binding" and q_["id"] == kp["id"] and j_ < len(tup["args"]):
                                    key_ = name_of(tup["args"][j_])
                    keys.append(key_)
    out.add("table::initialization", "DEFAULT_ENTRIES == names entered by GlobalTable::initialized()",
            None not in listed and None not in keys and sorted(listed) == sorted(keys) and len(keys) > 0, c.loc(de["sp"]),
            "listed %s / entered %s: a builtin that is not listed is treated as a user declaration with the empty range 0..0"
            % (sorted(map(str, listed)), sorted(map(str, keys))))
    # every builtin entry has range 0..0 and its key equals its name
    out.add("table::initialization", "builtin count", len(keys) >= 11, c.loc(ini[0]["sp"]), "%d entries" % len(keys))
    # predefined procedures have no source: their entries carry the dummy range 0..0 and `is_default()` - the only guard in front
    # of `to_text_range` - recognises global entries only (ENTRY-KIND).  So no *local* entry may exist for a builtin.
    n_lit = 0
    bad = None
    for bb in [x for x in c.bodies if x["p"].startswith(ini[0]["p"])]:
        for st in hir.nodes(bb["body"], "Struct"):
            if (st.get("adt") or "").endswith("table::ProcedureEntry"):
                n_lit += 1
                f = {x["name"]: x["e"] for x in st["fields"]}
                lt = hir.strip(f.get("local_table", {}))
                empty = lt.get("k") == "Call" and last(hir.callee(lt) or "") in ("default", "new") and not lt["args"]
                if not empty:
                    bad = st
    if n_lit:
        out.add("table::initialization", "predefined procedures have an empty local table", bad is None, c.loc((bad or ini[0])["sp"]),
                "a builtin's local table holds entries whose ranges are the dummy 0..0; `Entry::is_default()` is false for locals, "
                "so go-to on a same-named parameter of a redeclared builtin slices `tokens[0..0]` with them and panics")
    return out


def rule_relex_window(prog):
    """lexer::update: re-lexed tokens are shifted by the very offset the re-lexed text was cut at; the TokenChange window is
    computed from the lengths of head / tail / new tokens; the result is head ++ new ++ tail ++ eof."""
    out = Out("RELEX-WINDOW")
    c = prog.front
    b = prog.body("spl_frontend::lexer::update")
    if b is None:
        out.missing("lexer::update")
        return out
    # text slice start
    cut = None
    for ix in hir.nodes(b["body"], "Index"):
        if c.tstr(ix["base"]["t"]).endswith("str"):
            r = hir.strip(ix["idx"])
            if r.get("k") == "Struct":
                f = {x["name"]: x["e"] for x in r["fields"]}
                cut = place(f.get("start", {}))
    shifts = [m for m in hir.nodes(b["body"], "MethodCall") if m["m"] == "shift" and (m.get("d") or "").endswith("Shiftable>::shift") or (m["m"] == "shift" and "Token" in c.tstr(m["recv"]["t"]))]
    sh = place(shifts[0]["args"][0]) if shifts and shifts[0]["args"] else None
    out.add("lexer::update", "re-lexed tokens are shifted by the offset the text was cut at", cut is not None and cut == sh, c.loc(b["sp"]),
            "text cut at `%s`, tokens shifted by `%s`" % (cut, sh))
    # cut offset = end of the last unaffected token
    defs = {}
    for l in hir.nodes(b["body"], "Let"):
        if l["pat"].get("k") == "Binding" and l.get("init") is not None:
            defs["%s#%s" % (l["pat"]["name"], l["pat"]["id"])] = l["init"]
    ok = False
    if cut in defs:
        init = defs[cut]
        ok = any(m["m"] == "last" for m in hir.nodes(init, "MethodCall")) and any(f["name"] == "end" for f in hir.nodes(init, "Field"))
    out.add("lexer::update", "re-lexing starts at the end of the last unaffected token", ok, c.loc(b["sp"]), "")
    # every way through update() runs the lexer over the text behind the untouched head: a path that answers without lexing (a "fast
    # path" for changes that look harmless - white space, an empty insertion) applies a change to the token vector that was never lexed
    def ev_relex(n_):
        if n_.get("k") == "Call" and (hir.callee(n_) or "").endswith("nom::combinator::iterator"):
            return ("relex", n_)
        if n_.get("k") == "Path" and n_["res"].get("k") == "Def" and (n_["res"].get("rp") or n_["res"].get("p") or "").endswith("::lex") and \
                "Lexer" in (n_["res"].get("d") or n_["res"].get("p") or ""):
            return ("relex", n_)
        if n_.get("k") == "Call":
            hb_ = hir.local_callee_body(prog, n_)
            if hb_ is not None and hb_["_crate"] is c and hb_["p"] != b["p"] and any(
                    x_.get("k") == "Call" and (hir.callee(x_) or "").endswith("nom::combinator::iterator") for x_ in hir.nodes(hb_["body"])):
                return ("relex", n_)
        return None
    try:
        from . import flow
        ps_r = flow.paths(b["body"], ev_relex)
        has_any = any(any(e_[0] == "relex" for e_ in p_) for p_ in ps_r)
        skipping = [p_ for p_ in ps_r if not any(e_[0] == "relex" for e_ in p_) and not (p_ and p_[-1][0] == "panic")]
        # (paths that end in a panic!/expect are not answers)
        if has_any:
            where = next((e_[1] for p_ in skipping for e_ in p_ if e_[0] == "return" and isinstance(e_[1], dict)), b)
            out.add("lexer::update", "every path through update() lexes the text behind the untouched head", not skipping, c.loc(where["sp"]),
                    "%d of %d paths return a token vector and a TokenChange without having run the lexer: whatever the change inserted or "
                    "joined on that path is never tokenised (white space in the sense of `str::trim` is not what the lexer skips; a deletion "
                    "can join two tokens)" % (len(skipping), len(ps_r)), ("relex",))
    except OverflowError:
        pass
    # window
    tc = [call for call in hir.nodes(b["body"], "Call") if (hir.callee_display(call) or "") == "tokens::TokenChange::new"]
    conc = [m for m in hir.nodes(b["body"], "MethodCall") if m["m"] == "concat"]
    if len(tc) != 1:
        out.missing("TokenChange::new / concat in lexer::update")
        return out
    order = None
    order_site = b
    if len(conc) == 1:
        order = [place(x) for x in hir.strip_ref(conc[0]["recv"]).get("es", [])]
        order_site = conc[0]
    else:
        # accumulated form: `let mut all = head; all.extend(new); all.extend(tail); all.push(eof);` at statement level of the function
        blk_ = hir.strip(b["body"])
        stmts_ = (blk_["b"]["stmts"] + ([blk_["b"]["expr"]] if blk_["b"].get("expr") else [])) if blk_.get("k") == "BlockExpr" else []
        acc = None
        for st_ in stmts_:
            if st_.get("k") == "Let" and st_["pat"].get("k") == "Binding" and "Mut" in st_["pat"]["mode"] and st_.get("init") is not None \
                    and "Vec<tokens::Token>" in c.tstr(st_["pat"]["bt"]).replace("spl_frontend::", "") and place(hir.strip(st_["init"])):
                nm_ = "%s#%s" % (st_["pat"]["name"], st_["pat"]["id"])
                later = []
                for s2 in stmts_[stmts_.index(st_) + 1:]:
                    in_ = hir.stmt_inner(s2)
                    if in_ is not None and in_.get("k") == "MethodCall" and in_["m"] in ("extend", "push", "append") and place(in_["recv"]) == nm_ and in_["args"]:
                        later.append(place(hir.strip_ref(in_["args"][0])))
                if len(later) >= 2:
                    acc = [place(hir.strip(st_["init"]))] + later
                    order_site = st_
        order = acc
    if order is None:
        for lbl_ in ("window start = number of untouched head tokens", "window end = old length minus reused tail",
                     "insertion length = number of freshly lexed tokens", "result = head ++ new ++ tail ++ [eof]"):
            out.add("lexer::update", lbl_, None, c.loc(tc[0]["sp"]), "the way the result vector is assembled is not recognised")
    order = [o or "?" for o in (order or [])]

    def lens_in(e, depth=0):
        res = set()
        e = hir.strip_ref(e)
        for m in hir.nodes(e, "MethodCall"):
            if m["m"] == "len":
                res.add(place(m["recv"]))
        for pth in hir.nodes(e, "Path"):
            pl = place(pth)
            if pl in defs and depth < 4 and c.tstr(pth["t"]) == "usize":
                res |= lens_in(defs[pl], depth + 1)
        return res

    rng = hir.strip(tc[0]["args"][0])
    rdef = defs.get(place(rng)) if place(rng) else rng
    rdef = hir.strip(rdef) if rdef is not None else {}
    f = {x["name"]: x["e"] for x in rdef.get("fields", [])} if rdef.get("k") == "Struct" else {}
    start_l = lens_in(f.get("start", {})) if f else set()
    end_l = lens_in(f.get("end", {})) if f else set()
    ins_l = lens_in(tc[0]["args"][1])
    head, new, tail = (order + ["?", "?", "?"])[:3]
    if order:
        out.add("lexer::update", "window start = number of untouched head tokens", start_l == {head}, c.loc(tc[0]["sp"]), "start from len of %s, head is %s" % (start_l, head))
        out.add("lexer::update", "window end = old length minus reused tail", tail in end_l and len(end_l) == 2, c.loc(tc[0]["sp"]), "end from len of %s, tail is %s" % (end_l, tail))
        out.add("lexer::update", "insertion length = number of freshly lexed tokens", ins_l == {new}, c.loc(tc[0]["sp"]), "from len of %s, new is %s" % (ins_l, new))
        out.add("lexer::update", "result = head ++ new ++ tail ++ [eof]", len(order) == 4 and "?" not in order[:3], c.loc(order_site["sp"]), "%s" % order)
    # batch lexer and incremental lexer skip the same thing between tokens, and the batch lexer sees the text as given
    lx = prog.body("spl_frontend::lexer::lex")
    if lx is None:
        out.missing("lexer::lex")
        return out

    def skippers(body):
        res = set()
        for call in hir.nodes_deep(prog, body["body"], 1, crate=c):
            if call.get("k") == "Call" and (hir.callee(call) or "").endswith("nom::sequence::preceded") and len(call["args"]) == 2:
                d0, d1 = hir.path_def(call["args"][0]), hir.path_def(call["args"][1])
                if d1 and (d1.get("rp") or d1["p"]).endswith("::lex"):
                    res.add((d0.get("rp") or d0["p"]) if d0 else "?")
        return res

    s_lex, s_upd = skippers(lx), skippers(b)
    ok = (s_lex == s_upd and len(s_lex) == 1) if (s_lex and s_upd and "?" not in s_lex | s_upd) else None
    out.add("lexer::lex/update", "batch and incremental lexer skip the same separator class between tokens", ok, c.loc(b["sp"]),
            "lex skips %s, update skips %s: text that only one of the two treats as a separator yields different token streams"
            % (sorted(s_lex), sorted(s_upd)), ("lexinput",))
    spans = [call for call in hir.nodes(lx["body"], "Call") if (hir.callee(call) or "").startswith("nom_locate::") and last(hir.callee(call) or "") == "new"]
    pid = None
    for pp in lx["params"]:
        bs = list(hir.pat_bindings(pp))
        if len(bs) == 1:
            pid = bs[0]["id"]
    if spans:
        a0 = hir.path_local(hir.strip_ref(spans[0]["args"][0])) if spans[0]["args"] else None
        out.add("lexer::lex", "token ranges refer to the text that was handed in", bool(a0) and a0["id"] == pid, c.loc(spans[0]["sp"]),
                "the Span the tokens take their ranges from is not built over the `src` parameter itself: a trimmed or re-sliced input "
                "shifts every range against the text the caller (AnalyzedSource.text, lexer::update, the features) keeps", ("lexinput",))
    # lexing is free of the position: update() lexes a Span that is built over the text *behind the untouched head*, whose offset 0 /
    # line 1 / column 1 is not the start of the document.  A position read from the Span may become part of a token range (it is
    # shifted afterwards), it must not decide what is lexed.
    POS = ("location_offset", "location_line", "get_column", "get_utf8_column", "naive_get_utf8_column", "get_line_beginning")
    n_pos, deciding = 0, []
    for lb in c.bodies:
        if not roles.in_lexer_module(c, lb) or "/tests" in c.file_of(lb["sp"]):
            continue
        # (functions that are handed a Span: the sub-lexers and their helpers; lex() and update() build theirs)
        if not any("LocatedSpan" in c.tstr(pp_["t"]) for pp_ in lb["params"] if pp_.get("t") is not None):
            continue
        ldefs = {}
        for l_ in hir.nodes(lb["body"], "Let"):
            if l_.get("init") is not None:
                for bd in hir.pat_bindings(l_["pat"]):
                    ldefs[bd["id"]] = l_["init"]
        pos_locals = {i_ for i_, v_ in ldefs.items()
                      if hir.strip_ref(v_).get("k") == "MethodCall" and hir.strip_ref(v_)["m"] in POS and "LocatedSpan" in c.tstr(hir.strip_ref(hir.strip_ref(v_)["recv"])["t"])}

        def is_pos(x_):
            if x_.get("k") == "MethodCall" and x_["m"] in POS and "LocatedSpan" in c.tstr(hir.strip_ref(x_["recv"])["t"]):
                return True
            pl_ = hir.path_local(x_) if x_.get("k") == "Path" else None
            return bool(pl_ and pl_["id"] in pos_locals)
        for x_, parents in hir.walk(lb["body"]):
            if not is_pos(x_):
                continue
            n_pos += 1
            # the position decides if it reaches a condition through operators only (an argument of a call is handed on, e.g. as the
            # position of an error - what the callee does with it is its own matter)
            chain = list(parents) + [x_]
            for i_ in range(len(chain) - 2, -1, -1):
                p_, nx_ = chain[i_], chain[i_ + 1]
                k_ = p_.get("k")
                if (k_ == "If" and nx_ is p_.get("cond")) or (k_ == "Match" and nx_ is p_.get("scrut")) or \
                        (k_ == "Binary" and p_.get("op") in ("==", "!=", "<", "<=", ">", ">=")) or \
                        (k_ == "Call" and last(hir.callee(p_) or "") in ("cond", "verify") and p_.get("args") and nx_ is p_["args"][0]) or \
                        (k_ == "Arm" and nx_ is p_.get("guard")) or (k_ == "While" and nx_ is p_.get("cond")):
                    deciding.append((lb, x_))
                    break
                if k_ in ("Binary", "Unary", "Paren", "Cast", "DropTemps", "AddrOf") or (k_ == "MethodCall" and nx_ is p_.get("recv")):
                    continue
                break
    if n_pos:
        out.add("lexer", "what is lexed does not depend on the position inside the Span", not deciding,
                c.loc(deciding[0][1]["sp"]) if deciding else c.loc(b["sp"]),
                ("%s tests a position of its Span; " % deciding[0][0]["d"] if deciding else "") +
                "update() lexes a Span over the text behind the untouched head: offset 0 there is not the start of the document, so a "
                "lexer that treats `location_offset() == 0` specially (a byte order mark is skipped) lexes the same text differently "
                "in lex() and update() (%d position reads looked at)" % n_pos, ("lexinput", "posfree"))
    # the old tokens that survive behind the re-lexed ones are those that *begin* at or behind the end of the last re-lexed token: a
    # selection by where an old token *ends* keeps a token that begins inside the re-lexed text and reaches beyond it (a comment owns
    # its line break) - two tokens then cover the same text
    for mc in hir.nodes_deep(prog, b["body"], 1, crate=c):
        if mc.get("k") != "MethodCall" or mc["m"] not in ("skip_while", "take_while", "position", "find", "filter", "partition_point", "rposition"):
            continue
        if "Token" not in c.tstr(hir.strip(mc["recv"])["t"]) or not mc["args"]:
            continue
        clo = hir.strip(mc["args"][0])
        if clo.get("k") != "Closure":
            continue
        pids = {bd["id"] for q in clo["params"] for bd in hir.pat_bindings(q)}
        for cmp_ in hir.nodes(clo["body"], "Binary"):
            if cmp_["op"] not in ("<", "<=", ">", ">="):
                continue
            sides = []
            for sd in (cmp_["l"], cmp_["r"]):
                sd_ = hir.strip_ref(hir.strip(sd))
                if sd_.get("k") == "Field" and sd_["name"] in ("start", "end") and hir.strip(sd_["base"]).get("k") == "Field" and \
                        hir.strip(sd_["base"])["name"] == "range":
                    root = hir.path_local(hir.strip_ref(hir.strip(hir.strip(sd_["base"])["base"])))
                    sides.append((sd_["name"], bool(root) and root["id"] in pids))
                else:
                    sides.append(None)
            if None in sides or sides[0][1] == sides[1][1]:
                continue
            own = sides[0] if sides[0][1] else sides[1]
            other = sides[1] if sides[0][1] else sides[0]
            if other[0] != "end":
                continue
            out.add("lexer::update", "an old token survives behind the re-lexed ones only if it begins at or behind their end", own[0] == "start",
                    c.loc(cmp_["sp"]), "the old tokens to keep are selected by their `range.%s` against the end of the last re-lexed token: an old "
                    "token that begins inside the re-lexed text but ends behind it (a comment includes its line break) is kept, the token "
                    "stream has two tokens over the same text" % own[0], ("tail", "overlap"))
    # the tail of old tokens that survives: when its start is an index found by a search (`position(..)`), a failed search means that
    # re-lexing ran to the end of the text without meeting an old token - *no* old token survives.  A default of 0 keeps all of them
    defs_ = {}
    for l_ in hir.nodes(b["body"], "Let"):
        if l_["pat"].get("k") == "Binding" and l_.get("init") is not None:
            defs_[l_["pat"]["id"]] = l_["init"]
    for mc in hir.nodes(b["body"], "MethodCall"):
        if mc["m"] not in ("split_off", "skip", "drain") or "Token" not in c.tstr(hir.strip(mc["recv"])["t"]) or not mc["args"]:
            continue
        roots, seen_ = [mc["args"][0]], set()
        default_zero = None
        from_search = False
        while roots:
            r_ = roots.pop()
            for x in hir.nodes(r_):
                pl_ = hir.path_local(x)
                if pl_ and pl_["id"] in defs_ and pl_["id"] not in seen_:
                    seen_.add(pl_["id"])
                    roots.append(defs_[pl_["id"]])
                if x.get("k") == "MethodCall" and x["m"] in ("position", "rposition", "find_map"):
                    from_search = True
                if x.get("k") == "MethodCall" and (x["m"] == "unwrap_or_default" or (x["m"] == "unwrap_or" and x["args"] and hir.lit_value(hir.strip(x["args"][0])) in ("0", 0))):
                    default_zero = x
        # the searched index may also be assigned inside a closure (`tail_start = ..position(..)`)
        for as_ in hir.nodes(b["body"], "Assign"):
            pl_ = hir.path_local(hir.strip(as_["l"]))
            if pl_ and pl_["id"] in seen_ | {(hir.path_local(hir.strip(mc["args"][0])) or {}).get("id")} and \
                    any(x.get("k") == "MethodCall" and x["m"] in ("position", "rposition") for x in hir.nodes(as_["r"])):
                from_search = True
        if default_zero is not None:
            out.add("lexer::update", "a failed search for the start of the surviving tail keeps no old token", not from_search or False,
                    c.loc(default_zero["sp"]), "the tail of old tokens starts at an index found by a search and defaults to 0 when nothing is found: "
                    "re-lexing that reaches the end of the text without meeting an old token keeps *all* old tokens behind the new ones", ("tail",))
    return out


def rule_update_order(prog):
    """AnalyzedSource::update: per change, text is edited, then tokens are updated against the *new* text, stored, then the
    AST is updated with the new tokens and the token change that belongs to them."""
    out = Out("UPDATE-ORDER")
    c = prog.front
    bs = [b for b in c.bodies if b["d"] == "AnalyzedSource::update"]
    if not bs:
        out.missing("AnalyzedSource::update")
        return out
    b = bs[0]
    # (small helpers of the step - `change.apply_to(&mut acc.text)` - are read in place; the lexer, the parser and the table are not)
    b = dict(b, body=hir.simplify(hir.inline_calls(prog, b["body"], c, depth=2, only=lambda hb: not hb["p"].startswith(
        ("spl_frontend::lexer", "spl_frontend::parser", "spl_frontend::table", "spl_frontend::tokens")) and hb["d"] != "AnalyzedSource::update")))
    blk = None
    for cand in (x for x in hir.nodes_deep(prog, b["body"], 2) if x.get("k") == "Block"):
        direct = cand["stmts"] + ([cand["expr"]] if cand.get("expr") else [])
        for st in direct:
            e = st.get("init") if st.get("k") == "Let" else st.get("e", st)
            if e is not None and any(n.get("k") == "Call" and (hir.callee(n) or "").endswith("lexer::update") for n in hir.nodes(e)) \
                    and not any(x.get("k") == "Block" and x is not cand and any(
                        n.get("k") == "Call" and (hir.callee(n) or "").endswith("lexer::update") for n in hir.nodes(x)) for x in hir.nodes(e)):
                blk = cand
    if blk is None:
        out.missing("per-change step (block containing lexer::update) in AnalyzedSource::update")
        return out
    step = {"body": {"k": "BlockExpr", "b": blk}}
    seq = blk["stmts"] + ([blk["expr"]] if blk.get("expr") else [])

    def idx(pred):
        for i, s in enumerate(seq):
            if any(pred(n) for n in hir.nodes(s)):
                return i
        return None

    i_rep = idx(lambda n: n.get("k") == "MethodCall" and n["m"] == "replace_range")
    i_lex = idx(lambda n: n.get("k") == "Call" and (hir.callee(n) or "").endswith("lexer::update"))
    i_par = idx(lambda n: n.get("k") == "Call" and (hir.callee(n) or "").endswith("parser::update"))
    i_tok = idx(lambda n: n.get("k") == "Assign" and (place(n["l"]) or "").endswith(".tokens"))
    # (the new tokens may also stay in the local they were bound to by `let (tokens, change) = lexer::update(..)` and be stored when
    #  the struct is put together again: then "stored" is the binding itself)
    lex_bind = None
    for l_ in hir.nodes(blk, "Let"):
        if l_.get("init") is not None and hir.strip(l_["init"]).get("k") == "Call" and (hir.callee(hir.strip(l_["init"])) or "").endswith("lexer::update"):
            bs_ = list(hir.pat_bindings(l_["pat"]))
            if len(bs_) == 2:
                lex_bind = ("%s#%s" % (bs_[0]["name"], bs_[0]["id"]), "%s#%s" % (bs_[1]["name"], bs_[1]["id"]))
    if i_tok is None and lex_bind is not None:
        i_tok = i_lex
    ok = None not in (i_rep, i_lex, i_par, i_tok) and i_rep < i_lex <= i_tok < i_par or (None not in (i_rep, i_lex, i_par, i_tok) and i_rep < i_lex < i_par and i_tok < i_par)
    out.add("AnalyzedSource::update", "edit text -> update tokens -> store tokens -> update AST, per change", bool(ok), c.loc(b["sp"]),
            "statement indices: replace_range %s, lexer::update %s, tokens assigned %s, parser::update %s" % (i_rep, i_lex, i_tok, i_par))
    # the same change feeds replace_range and lexer::update; parser gets the TokenChange returned by that lexer call
    lex = [n for n in hir.nodes(blk, "Call") if (hir.callee(n) or "").endswith("lexer::update")]
    rep = [n for n in hir.nodes(blk, "MethodCall") if n["m"] == "replace_range"]
    par = [n for n in hir.nodes(blk, "Call") if (hir.callee(n) or "").endswith("parser::update")]
    ok = False
    if lex and rep and par:
        ch_lex = (place(lex[0]["args"][2]) or "").split(".")[0]
        ch_rep = (place(hir.strip(rep[0]["args"][0]).get("recv", rep[0]["args"][0])) or "").split(".")[0]
        tc_bind = None
        for l in hir.nodes(blk, "Let"):
            if l.get("init") is not None and hir.strip(l["init"]) is lex[0]:
                bs_ = list(hir.pat_bindings(l["pat"]))
                if len(bs_) == 2:
                    tc_bind = "%s#%s" % (bs_[1]["name"], bs_[1]["id"])
        nw = [n for n in hir.nodes(par[0], "Call") if (hir.callee_display(n) or "").endswith("new_with_change")]
        if not nw:
            # the stream is bound to a local first: `let stream = TokenStream::new_with_change(..); parser::update(ast, stream)`
            for a_ in par[0]["args"]:
                pl_ = hir.path_local(hir.strip_ref(hir.strip(a_)))
                if pl_:
                    for l in hir.nodes(blk, "Let"):
                        if l["pat"].get("k") == "Binding" and l["pat"]["id"] == pl_["id"] and l.get("init") is not None:
                            nw += [n for n in hir.nodes(l["init"], "Call") if (hir.callee_display(n) or "").endswith("new_with_change")]
        toks_arg = place(hir.strip_ref(hir.strip(nw[0]["args"][0]))) or "" if nw else ""
        text_arg = place(hir.strip_ref(hir.strip(lex[0]["args"][0]))) or ""
        edited = place(hir.strip_ref(hir.strip(rep[0]["recv"]))) or ""
        new_tokens_ok = toks_arg.endswith(".tokens") or (lex_bind is not None and toks_arg == lex_bind[0])
        text_ok = text_arg.endswith(".text") or (edited != "" and text_arg == edited)
        ok = ch_lex == ch_rep and bool(nw) and place(nw[0]["args"][1]) == tc_bind and new_tokens_ok and text_ok
        if not ok and nw:
            # the same facts behind destructuring and tuple fields (`let TextChange { range, text } = &change;`, `relexed.1`): every
            # value is followed to where it comes from - a parameter / loop variable, or the lexer call
            defs_ = {}
            for l in hir.nodes(blk):
                if l.get("k") in ("Let", "LetExpr") and l.get("init") is not None and l.get("pat"):
                    for bd in hir.pat_bindings(l["pat"]):
                        defs_.setdefault(bd["id"], l["init"])

            def root_of(e_, d_=0):
                e_ = hir.strip_ref(hir.strip(e_))
                if d_ > 8:
                    return None
                if e_ is lex[0] or (e_.get("k") == "Call" and (hir.callee(e_) or "").endswith("lexer::update")):
                    return "LEX"
                if e_.get("k") == "MethodCall" and e_["m"] in ("clone", "to_owned", "to_range", "as_ref", "as_str", "borrow", "into"):
                    return root_of(e_["recv"], d_ + 1)
                if e_.get("k") == "Field":
                    return root_of(e_["base"], d_ + 1)
                pl_ = hir.path_local(e_)
                if pl_:
                    return root_of(defs_[pl_["id"]], d_ + 1) if pl_["id"] in defs_ else "local:%s" % pl_["id"]
                return None
            r_lex, r_rep = root_of(lex[0]["args"][2]), root_of(rep[0]["args"][0])
            r_tc, r_tk = root_of(nw[0]["args"][1]), root_of(nw[0]["args"][0])
            parts = [None if None in (r_lex, r_rep) else r_lex == r_rep,
                     None if r_tc is None else r_tc == "LEX",
                     True if (new_tokens_ok or r_tk == "LEX") else None if r_tk is None else False,
                     True if text_ok else None]
            ok = False if any(x_ is False for x_ in parts) else None if any(x_ is None for x_ in parts) else True
    reord = [n for n in hir.nodes_deep(prog, b["body"], 2, crate=c) if n.get("k") == "MethodCall" and n["m"] in (
        "rev", "reverse", "sort", "sort_by", "sort_by_key", "sort_unstable", "sort_unstable_by", "sort_unstable_by_key", "sort_by_cached_key",
        "dedup", "dedup_by", "dedup_by_key", "retain")
        and "TextChange" in c.tstr(n["recv"]["t"]) + "".join(c.tstr(a["to"]) for a in n["recv"].get("adj") or [])]
    out.add("AnalyzedSource::update", "changes are applied in the order given, none dropped", not reord,
            c.loc((reord[0] if reord else b)["sp"]), "every TextChange is relative to the text produced by its predecessors: "
            "`%s` on the change list applies them to a text they were not computed for" % (reord[0]["m"] if reord else ""))
    out.add("AnalyzedSource::update", "lexer sees the edited text and the same change; the parser gets that lexer run's TokenChange and the new tokens",
            ok, c.loc(b["sp"]), "")
    # every change is applied: the only way out of update() in front of the per-change step is "there is no change".  A shortcut that looks
    # at one of the changes (`if changes.last().range == 0..self.text.len() { return Self::new(..) }`) judges that change against a text
    # it was not computed for - the changes in front of it were never applied - and drops them
    ch_ids = set()
    for q_ in b["params"]:
        for bd in hir.pat_bindings(q_):
            if "TextChange" in c.tstr(bd["bt"]):
                ch_ids.add(bd["id"])
    shortcut = None
    shortcut_undecided = False
    n_ret = 0
    for r_, rps in hir.walk(b["body"]):
        if r_.get("k") != "Ret" or any(q_.get("k") == "Closure" for q_ in rps):
            continue
        n_ret += 1
        for q_ in rps:
            if q_.get("k") != "If" or not any(z_ is r_ for z_ in hir.nodes(q_["then"])):
                continue
            cnd_ = hir.strip(q_["cond"])
            plain_empty = cnd_.get("k") == "MethodCall" and cnd_["m"] == "is_empty" and (hir.path_local(hir.strip_ref(hir.strip(cnd_["recv"]))) or {}).get("id") in ch_ids
            if not plain_empty and any((hir.path_local(z_) or {}).get("id") in ch_ids for z_ in hir.nodes(q_["cond"])):
                # (a shortcut for a batch of exactly one change skips nothing: not decided here)
                single = any(z_.get("k") == "Binary" and z_["op"] == "==" and hir.lit_value(hir.strip(z_["r"])) in ("1", 1) and
                             hir.strip(z_["l"]).get("k") == "MethodCall" and hir.strip(z_["l"])["m"] == "len" for z_ in hir.nodes(q_["cond"]))
                if single:
                    shortcut_undecided = True
                else:
                    shortcut = shortcut or q_
    out.add("AnalyzedSource::update", "no change of a batch is skipped (the only early exit is the empty batch)",
            (shortcut is None) if (shortcut is not None or not shortcut_undecided) else None,
            c.loc((shortcut or b)["sp"]), "update() returns early under a condition on the changes other than `is_empty()`: the changes that were not "
            "looked at are dropped, and the one that was is judged against a text it was not computed for (%d early exits)" % n_ret, ("all",))
    return out


def rule_diag_flag(prog):
    """The broker's `publish diagnostics` flag is the client's publishDiagnostics capability."""
    out = Out("DIAG-FLAG")
    c = prog.lsp
    ini = [b for b in c.bodies if b["d"] == "server::LanguageServer::initialize"]
    run = [b for b in c.bodies if b["d"] == "server::LanguageServer::run"]
    if not ini or not run:
        out.missing("LanguageServer::{initialize, run}")
        return out
    ok = False
    detail = ""
    defs_i = {l_["pat"]["id"]: l_["init"] for l_ in hir.nodes(ini[0]["body"], "Let") if l_["pat"].get("k") == "Binding" and l_.get("init") is not None}
    for a in hir.nodes(ini[0]["body"], "Assign"):
        if (place(a["l"]) or "").endswith(".client_details.diagnostics"):
            # (the value may be computed into a local first)
            rhs = [a["r"]]
            pl_ = hir.path_local(hir.strip(a["r"]))
            if pl_ and pl_["id"] in defs_i:
                rhs.append(defs_i[pl_["id"]])
            reads = [f["name"] for r_ in rhs for f in hir.nodes(r_, "Field")]
            ok = "publish_diagnostics" in reads and any(m["m"] == "is_some" for r_ in rhs for m in hir.nodes(r_, "MethodCall"))
            # the Option that is tested is the capability itself, not an Option wrapped around it
            for m in [m_ for r_ in rhs for m_ in hir.nodes(r_, "MethodCall")]:
                if m["m"] in ("is_some", "is_none"):
                    t = c.tstr(m["recv"]["t"]).replace(" ", "")
                    for ad in m["recv"].get("adj") or []:
                        t = c.tstr(ad["to"]).replace(" ", "")
                    inner = t[t.find("Option<") + len("Option<"):] if "Option<" in t else ""
                    if not inner.startswith("lsp_types::PublishDiagnosticsClientCapabilities"):
                        ok = False
                        detail = "the tested value has type %s: `Some(None)` (a client that sent `textDocument` without `publishDiagnostics`) counts as support" % t
    out.add("server::LanguageServer::initialize", "diagnostics support = client announced textDocument.publishDiagnostics", ok, c.loc(ini[0]["sp"]), detail)
    ok = False
    # (the broker may be started by a helper method of the server: `self.spawn_broker(docrx, iotx.clone())`)
    for call in [x_ for x_ in hir.nodes_deep(prog, run[0]["body"], 2, crate=c) if x_.get("k") == "Call"]:
        bf = roles.broker_fn(prog)
        if bf is not None and (hir.callee(call) or "") == bf["p"]:
            ok = any((place(a) or "").endswith(".client_details.diagnostics") for a in call["args"])
    out.add("server::LanguageServer::run", "the broker is started with the negotiated diagnostics flag", ok, c.loc(run[0]["sp"]), "")
    # run(): initialization precedes the broker start (the flag is only known afterwards)
    return out


def rule_ident_range(prog):
    """hover and prepare-rename answer with exactly the range of the identifier token under the cursor."""
    out = Out("IDENT-RANGE")
    c = prog.lsp
    IDENT = next((p_ for p_ in sorted(c.adts) if p_.startswith("lsp4spl::features::") and p_.endswith("::Ident")), "lsp4spl::features::Ident")
    n = 0
    for fn, callee_name in (("lsp4spl::features::hover::hover", "create_hover"), ("lsp4spl::features::references::prepare_rename", None)):
        b = prog.body(fn)
        if b is None:
            out.missing(fn)
            continue
        apr = roles.conv(prog).get("as_pos_range")
        convs = [x for x in hir.nodes_deep(prog, b["body"], 1) if x.get("k") == "Call" and apr is not None and (hir.callee(x) or "") == apr["p"]]
        for cv in convs:
            a0 = hir.strip_ref(cv["args"][0])
            ok = a0.get("k") == "MethodCall" and a0["m"] == "to_range" and hir.adt_path(c, a0["recv"]["t"]) == IDENT
            for ad in a0.get("recv", {}).get("adj") or []:
                pass
            n += 1
            out.add(b["d"], "the range answered is the cursor identifier's token range", ok, c.loc(cv["sp"]), "")
    cur = [b for b in c.bodies if b["d"].startswith("features::") and b["d"].endswith("DocumentCursor::ident")]
    if cur:
        ok = False
        for s in hir.nodes(cur[0]["body"], "Struct"):
            if s.get("adt") == IDENT:
                f = {x["name"]: x["e"] for x in s["fields"]}
                re_ = hir.strip_ref(hir.strip(f.get("range", {})).get("recv", f.get("range", {})))
                # (by role: the `range` field of a value of type Token)
                ok = re_.get("k") == "Field" and re_["name"] == "range" and "tokens::Token" in (
                    c.tstr(hir.strip(re_["base"])["t"]) + "".join(c.tstr(a_["to"]) for a_ in hir.strip(re_["base"]).get("adj") or []))
        n += 1
        out.add("features::DocumentCursor::ident", "Ident.range is the byte range of the token under the cursor", ok, c.loc(cur[0]["sp"]), "")
    # the *text* range a feature answers with for a name is the range of the identifier token.  The token parsers skip the comments in
    # front of their token inside the node, so the token range of an Identifier node starts with them (C04 wants exactly that); the
    # conversion of a node into a text range - AstInfo::to_text_range, which every feature goes through - therefore starts at the first
    # token that is no comment.  (Until 46b589d the parser excluded the comments from the identifier's token range instead: also accepted.)
    fc = prog.front
    comments = roles.comment_parsers(prog)
    ttr = [b for b in fc.bodies if b["d"] == "<ast::AstInfo as ToTextRange>::to_text_range"]
    conv_skips = False
    for b_ in ttr:
        for x in hir.nodes_deep(prog, b_["body"], 1, crate=fc):
            pats = [a_["pat"] for a_ in x["arms"]] if x.get("k") == "Match" else [x["pat"]] if x.get("k") == "LetExpr" else []
            if any("spl_frontend::tokens::TokenType::Comment" in hir.pat_variants_all(pt) for pt in pats):
                conv_skips = True
    idp = [b for b in fc.bodies if b["d"].endswith("<ast::Identifier as parser::Parser>::parse")]
    if not idp or not ttr:
        out.missing("<Identifier as Parser>::parse / <AstInfo as ToTextRange>::to_text_range")
    else:
        INFO = "spl_frontend::parser::utility::info"
        parser_excludes = None
        for x, parents in hir.walk(idp[0]["body"]):
            if x.get("k") == "Call" and (hir.callee(x) or "") == INFO:
                parser_excludes = False
                for pr in parents:
                    if pr.get("k") == "Call" and last(hir.callee(pr) or "") in ("preceded", "pair", "tuple") and pr["args"]:
                        first = hir.strip(pr["args"][0])
                        if last(hir.callee(pr) or "") == "tuple":
                            es = first.get("es", [])
                            first = hir.strip(es[0]) if es else {}
                        if first.get("k") == "Call" and (hir.callee(first) or "").endswith("multi::many0") and first["args"] and \
                                ((hir.path_def(hir.strip(first["args"][0])) or {}).get("rp") or (hir.path_def(hir.strip(first["args"][0])) or {}).get("p")) in comments \
                                and not any(a_ is x for a_ in [pr["args"][0]]):
                            parser_excludes = True
        n += 1
        out.add("<Identifier as Parser>::parse", "the range of an identifier does not include the comments in front of it",
                True if (conv_skips or parser_excludes) else (False if parser_excludes is False else None), fc.loc((ttr or idp)[0]["sp"]),
                "the token parser skips comments *inside* `info(literals::ident)`, so the identifier's token range starts at a comment written in "
                "front of it, and AstInfo::to_text_range takes the start of the first token as it is: every feature that answers with the range "
                "of a name (go-to, references, rename edits, hover) then marks - and rename overwrites - the comment too", ("identexact",))
    if n < 2:
        out.missing("identifier range producers (found %d)" % n)
    return out


# ------------------------------------------------------------------ STRIP-REBUILD

def rule_strip_rebuild(prog):
    """AnalyzedSource::update re-runs table::build/analyze, which *append* their diagnostics to the tree; the only thing
    that removes the previous generation's build/semantic diagnostics is parser::update (via `affected`).  So on every
    path that reaches the re-analysis, parser::update ran at least once for the tree: (1) the per-change step has no path
    that leaves without calling it, (2) if the step runs once per element of the change list, an empty list is turned
    away before the re-analysis."""
    out = Out("STRIP-REBUILD")
    c = prog.front
    bs = [b for b in c.bodies if b["d"] == "AnalyzedSource::update"]
    if not bs:
        out.missing("AnalyzedSource::update")
        return out
    b = bs[0]

    def sig(x):
        if "sig_in" not in x:
            return None, None
        return [c.tstr(t).replace(" ", "") for t in x["sig_in"]], c.tstr(x["sig_out"]).replace(" ", "")

    # roles: strip = fn(Program, TokenStream) -> Program ; append = fn(&mut Program, ..) of module table
    strip_ps, append_ps = set(), set()
    for x in c.bodies:
        ins, o = sig(x)
        if ins is None or x["k"] != "fn":
            continue
        if len(ins) == 2 and ins[0] == "ast::Program" and "TokenStream" in ins[1] and o == "ast::Program":
            strip_ps.add(x["p"])
        if ins and ins[0] == "&mutast::Program" and x["p"].startswith("spl_frontend::table::") and "impl" not in x["p"]:
            append_ps.add(x["p"])
    if not strip_ps or not append_ps:
        out.missing("parser::update (fn(Program, TokenStream) -> Program) / table::build+analyze (fn(&mut Program, ..))")
        return out

    def is_call(n, ps):
        return n.get("k") == "Call" and (hir.callee(n) or "") in ps

    # the function bodies that make up update(): itself plus private helpers it calls
    parts = [b]
    for n in hir.nodes_deep(prog, b["body"], 2, crate=c):
        if n.get("k") in ("Call", "MethodCall"):
            hb = hir.local_callee_body(prog, n)
            if hb is not None and hb["_crate"] is c and hb not in parts and hb["p"] not in strip_ps and hb["p"] not in append_ps and (
                    "AnalyzedSource" in hb["d"] or c.file_of(hb["sp"]) == c.file_of(b["sp"])):
                parts.append(hb)
    appends = [(pb, n) for pb in parts for n in hir.nodes(pb["body"]) if is_call(n, append_ps)]
    strips = [(pb, n, parents) for pb in parts for n, parents in hir.walk(pb["body"]) if is_call(n, strip_ps)]
    if not appends:
        out.add("AnalyzedSource::update", "re-analysis present", None, c.loc(b["sp"]), "no table::build/analyze call found")
        return out
    if not strips:
        out.add("AnalyzedSource::update", "the old build/semantic diagnostics are stripped (parser::update) before the tree is re-analysed",
                False, c.loc(appends[0][1]["sp"]), "table::build/analyze append their diagnostics; nothing removes the previous ones")
        return out
    for pb, sn, parents in strips:
        # (1) the step: innermost closure / loop body / helper function body around the strip call
        step = None
        iterated = False
        for p in reversed(parents):
            if p.get("k") in ("Closure", "ForLoop", "While", "Loop"):
                step = p["body"]
                iterated = True
                break
        if step is None:
            step = pb["body"]
            # a helper called once per element?
            if pb is not b:
                for n, ps in hir.walk(b["body"]):
                    if n.get("k") in ("Call", "MethodCall") and hir.local_callee_body(prog, n) is pb:
                        iterated = iterated or any(q.get("k") in ("Closure", "ForLoop", "While", "Loop") for q in ps)
                    # handed to an iterator adaptor as a function value: `rest.fold(first, Self::with_change)`
                    if n.get("k") == "MethodCall" and n["m"] in ("fold", "try_fold", "for_each", "map", "scan") and any(
                            (hir.path_def(hir.strip(a_)) or {}).get("p") == pb["p"] or (hir.path_def(hir.strip(a_)) or {}).get("rp") == pb["p"]
                            for a_ in n["args"]):
                        iterated = True

        def classify(n):
            if is_call(n, strip_ps):
                return ("strip", n)
            if n.get("k") == "Call" and (hir.callee(n) or "").startswith("core::panicking"):
                return ("stop", ("panic", n))
            return None
        try:
            ps_ = flow.paths(step, classify)
        except OverflowError:
            ps_ = None
        if ps_ is None:
            ok = None
        else:
            ok = all(any(ev[0] == "strip" for ev in p) or (p and p[-1][0] == "panic") for p in ps_)
        out.add("AnalyzedSource::update", "every path through the per-change step runs parser::update", ok, c.loc(sn["sp"]),
                "a path leaves the per-change step without parser::update: the nodes keep their old build/semantic diagnostics and "
                "the re-analysis at the end appends them a second time")
        # (2) zero iterations
        if iterated:
            guard = False
            for n in hir.nodes(b["body"], "If"):
                cond = hir.strip(n["cond"])
                if cond.get("k") == "MethodCall" and cond["m"] == "is_empty" and "TextChange" in c.tstr(cond["recv"]["t"]) + "".join(
                        c.tstr(a["to"]) for a in cond["recv"].get("adj") or []):
                    if any(True for _ in hir.nodes(n["then"], "Ret")):
                        guard = True
                    # `if changes.is_empty() { self } else { <re-parse and re-analyse> }`: the branch of the empty list calls nothing
                    elif n.get("else") is not None and not any(is_call(x_, append_ps) or x_.get("k") in ("Call", "MethodCall")
                                                               for x_ in hir.nodes(n["then"])) and \
                            any(is_call(x_, append_ps) for x_ in hir.nodes_deep(prog, n["else"], 2, crate=c)):
                        guard = True
            if not guard:
                def _is_changes(e_):
                    return any("TextChange" in c.tstr(x_["t"]) + "".join(c.tstr(a_["to"]) for a_ in x_.get("adj") or [])
                               for x_ in hir.nodes(e_) if x_.get("k") in ("Path", "MethodCall") and "t" in x_)
                other_test = False
                for n in hir.nodes(b["body"]):
                    # `match changes.as_slice() { [] => self, [..] => <re-parse and re-analyse> }`
                    if n.get("k") == "Match" and n.get("src") == "match" and _is_changes(n["scrut"]):
                        other_test = True
                        for a_ in n["arms"]:
                            pt_ = hir.pat_strip(a_["pat"])
                            empty_ = pt_.get("k") == "Slice" and not (pt_.get("before") or pt_.get("after") or pt_.get("mid") or pt_.get("slice"))
                            if empty_ and not any(x_.get("k") in ("Call", "MethodCall") for x_ in hir.nodes(a_["body"])) and any(
                                    is_call(x_, append_ps) for o_ in n["arms"] if o_ is not a_ for x_ in hir.nodes_deep(prog, o_["body"], 2, crate=c)):
                                guard = True
                    # `let Some(first) = changes.next() else { return self };`
                    if n.get("k") == "Let" and n.get("els") is not None and n.get("init") is not None and _is_changes(n["init"]):
                        other_test = True
                        i_ = hir.strip(n["init"])
                        if i_.get("k") == "MethodCall" and i_["m"] in ("next", "first", "split_first", "pop", "last") and \
                                any(True for _ in hir.nodes(n["els"], "Ret")) and not any(is_call(x_, append_ps) for x_ in hir.nodes(n["els"])):
                            guard = True
                if not guard and other_test:
                    guard = None    # the batch is tested in a way this clause does not read
            out.add("AnalyzedSource::update", "an empty change list does not reach the re-analysis", guard, c.loc(b["sp"]),
                    "the per-change step (the only place that strips old build/semantic diagnostics) runs zero times for an empty "
                    "change list, but table::build/analyze still run and append every diagnostic again: didChange with "
                    "`contentChanges: []` duplicates all build/semantic diagnostics")
    return out


# ------------------------------------------------------------------ NO-MERGE

def rule_no_merge(prog):
    """completion: proposal lists of different kinds are concatenated; nothing merges, de-duplicates or drops items by
    label (SPL lets a variable and a procedure share a name, both must be proposed)."""
    out = Out("NO-MERGE")
    c = prog.lsp
    bodies = [b for b in c.bodies if b["p"].startswith("lsp4spl::features::completion") and "/tests" not in c.file_of(b["sp"])]
    if len(bodies) < 5:
        out.missing("features::completion::* (found %d)" % len(bodies))
        return out
    removing = ("dedup", "dedup_by", "dedup_by_key", "retain", "retain_mut", "truncate", "drain", "pop", "remove", "swap_remove", "clear",
                "split_off")
    keyed = ("HashMap<", "BTreeMap<", "HashSet<", "BTreeSet<", "IndexMap<")
    for b in bodies:
        if b["k"] == "closure":
            continue
        bad = None
        why = ""
        for n in hir.nodes(b["body"]):
            if "t" not in n:
                continue
            td = hir.peel(c, n["t"])
            if td["k"] == "adt" and any(td["p"].endswith("::" + k[:-1]) for k in keyed) and any(
                    "CompletionItem" in c.tstr(int(a)) for a in td.get("a") or [] if str(a).isdigit()):
                bad, why = n, "a keyed collection of completion items (%s): items with equal keys overwrite each other" % td["p"].split("::")[-1]
            if n.get("k") == "MethodCall" and n["m"] in removing:
                rt = c.tstr(n["recv"]["t"]) + "".join(c.tstr(a["to"]) for a in n["recv"].get("adj") or [])
                if "CompletionItem" in rt:
                    bad, why = n, "`%s` on a list of completion items" % n["m"]
            if n.get("k") == "MethodCall" and n["m"] in ("filter", "take_while", "skip_while", "skip", "take", "step_by", "filter_map", "map_while"):
                rt = c.tstr(n["recv"]["t"])
                if "CompletionItem" in rt:
                    bad, why = n, "`%s` over already built completion items prunes proposals" % n["m"]
        out.add(b["d"], "completion items are neither merged by key nor removed after they were collected", bad is None,
                c.loc((bad or b)["sp"]), why)
    return out


# ------------------------------------------------------------------ CURSOR-CMP

def rule_cursor_cmp(prog):
    """A token lies *before* the cursor iff its range starts before the cursor offset (equivalently, for a non-empty
    token, ends at or before it).  Every ordering comparison between a bound of a Token's byte range and the cursor
    offset in the request handlers is written in one of the four forms that implement this: start < i, start >= i,
    end <= i, end > i (either operand order).  The other four (start <= i, start > i, end < i, end >= i) treat a token that
    starts exactly at the cursor as lying before it (or one that ends at the cursor as lying behind it)."""
    out = Out("CURSOR-CMP")
    c = prog.lsp
    bodies = [b for b in c.bodies if b["p"].startswith("lsp4spl::features") and "/tests" not in c.file_of(b["sp"]) and b["k"] in ("fn", "assoc_fn")]

    def is_cursor_field(e):
        e = hir.strip_ref(e)
        while e.get("k") == "Unary" and e.get("op") in ("*", "Deref", "deref"):
            e = hir.strip_ref(e["e"])
        if e.get("k") == "Field" and e["name"] == "index":
            t = c.tstr(e["base"]["t"]) + "".join(c.tstr(a["to"]) for a in e["base"].get("adj") or [])
            return "DocumentCursor" in t
        return False

    def local_id(e):
        e = hir.strip_ref(e)
        while e.get("k") == "Unary":
            e = hir.strip_ref(e["e"])
        pl = hir.path_local(e)
        return pl["id"] if pl else None

    cursor = set()    # (fn path, binding id)
    pidx = {}
    for b in bodies:
        ids = []
        for pp in b["params"]:
            bs = list(hir.pat_bindings(pp))
            ids.append(bs[0]["id"] if len(bs) == 1 and "usize" in c.tstr(bs[0]["bt"]) else None)
        pidx[b["p"]] = ids
    changed = True
    rounds = 0
    while changed and rounds < 8:
        changed = False
        rounds += 1
        for b in bodies:
            # locals bound to the cursor offset
            for l in hir.nodes(b["body"], "Let"):
                if l["pat"].get("k") == "Binding" and l.get("init") is not None:
                    if is_cursor_field(l["init"]) or (b["p"], local_id(l["init"])) in cursor:
                        if (b["p"], l["pat"]["id"]) not in cursor:
                            cursor.add((b["p"], l["pat"]["id"]))
                            changed = True
            for call in hir.nodes(b["body"]):
                if call.get("k") not in ("Call", "MethodCall"):
                    continue
                hb = hir.local_callee_body(prog, call)
                if hb is None or hb["p"] not in pidx:
                    continue
                args = ([call["recv"]] if call.get("k") == "MethodCall" else []) + list(call["args"])
                for i, a in enumerate(args):
                    if i < len(pidx[hb["p"]]) and pidx[hb["p"]][i] is not None:
                        if is_cursor_field(a) or (b["p"], local_id(a)) in cursor:
                            if (hb["p"], pidx[hb["p"]][i]) not in cursor:
                                cursor.add((hb["p"], pidx[hb["p"]][i]))
                                changed = True

    def bound_of_token(e):
        """`<Token>.range.start|end` -> 'start'/'end'"""
        e = hir.strip_ref(e)
        if e.get("k") == "Field" and e["name"] in ("start", "end"):
            r = hir.strip_ref(e["base"])
            if r.get("k") == "Field" and r["name"] == "range" and hir.adt_path(c, r["base"]["t"]) == "spl_frontend::tokens::Token":
                return e["name"]
        return None

    GOOD = {("start", "<"), ("start", ">="), ("end", "<="), ("end", ">")}
    FLIP = {"<": ">", ">": "<", "<=": ">=", ">=": "<="}
    n = 0
    for b in bodies:
        for cmp_ in hir.nodes(b["body"], "Binary"):
            if cmp_["op"] not in FLIP:
                continue
            lb, rb = bound_of_token(cmp_["l"]), bound_of_token(cmp_["r"])
            lc = is_cursor_field(cmp_["l"]) or (b["p"], local_id(cmp_["l"])) in cursor
            rc = is_cursor_field(cmp_["r"]) or (b["p"], local_id(cmp_["r"])) in cursor
            if lb and rc:
                form = (lb, cmp_["op"])
            elif rb and lc:
                form = (rb, FLIP[cmp_["op"]])
            else:
                continue
            n += 1
            out.add(b["d"], "token/cursor comparison puts a token that starts at the cursor behind it", form in GOOD, c.loc(cmp_["sp"]),
                    "`token.range.%s %s cursor`: with this form a token that starts exactly at the cursor counts as lying before it "
                    "(or one that ends at the cursor as lying behind it); e.g. the comma right behind the cursor is counted and the "
                    "next parameter is marked active" % form)
    # one coordinate per handler: a handler that corrects the cursor offset before it looks things up (completion: the token *behind*
    # which the user types decides) reads the raw offset only to correct it.  A second look-up with the raw offset (also inside a
    # DocumentCursor method the handler calls) places the cursor in another declaration / token than the rest of the decision.
    for b in bodies:
        if b["k"] != "fn" or "::features::" not in b["p"] or b["p"].count("::") < 3:
            continue
        corrections = []
        for call in hir.nodes(b["body"], "Call"):
            hb = hir.local_callee_body(prog, call)
            if hb is None or "sig_in" not in hb or len(call.get("args") or []) != 1:
                continue
            hc = hb["_crate"]
            if [hc.tstr(t) for t in hb["sig_in"]] == ["usize"] and hc.tstr(hb["sig_out"]) == "usize" and is_cursor_field(call["args"][0]):
                corrections.append(call)
        if not corrections:
            continue
        exempt = {id(x) for call in corrections for x in hir.nodes(call)}
        raw = [x for x in hir.nodes_deep(prog, b["body"], 3, crate=c)
               if x.get("k") == "Field" and is_cursor_field(x) and id(x) not in exempt]
        out.add(b["d"], "a handler that corrects the cursor offset looks nothing up with the raw offset", not raw,
                c.loc((raw or corrections)[0]["sp"]),
                "the handler decides with `%s(cursor.index)`, but %d further read(s) of the raw `index` are in its reach: at the end of a "
                "top-level gap, directly in front of `proc`/`type`, the declaration is chosen with one offset and the context inside it with "
                "the other - completion answers nothing instead of the declaration starters"
                % (last(hir.callee(corrections[0]) or "?"), len(raw)), ("onecoord",))
    if n == 0:
        out.missing("comparisons of a token bound with the cursor offset in lsp4spl::features")
    return out


# ------------------------------------------------------------------ SLICE-FIRST

def rule_slice_first(prog):
    """Every token parser skips the comments in front of its token, and `info(..)` counts them: the token slice of a node
    (AstInfo::slice / tokens[node range]) may start with comments.  A handler that takes the *first* token of such a slice
    as the node's own first token (first(), split_first(), [0]) reads a comment instead - unless the slice went through a
    function that skips comments first."""
    out = Out("SLICE-FIRST")
    c = prog.lsp
    bodies = [b for b in c.bodies if b["p"].startswith("lsp4spl::features") and "/tests" not in c.file_of(b["sp"]) and b["k"] in ("fn", "assoc_fn")]
    n_slices = 0
    for b in bodies:
        defs = {}
        for l in hir.nodes(b["body"], "Let"):
            if l["pat"].get("k") == "Binding" and l.get("init") is not None:
                defs[l["pat"]["id"]] = l["init"]

        def is_node_slice(e, depth=0):
            """e is (a borrow of) AstInfo::slice(..) / tokens[<node>.to_range()..] directly, not a value computed from it"""
            e = hir.strip_ref(e)
            if e.get("k") == "MethodCall" and e["m"] == "slice" and "AstInfo" in (hir.callee_display(e) or hir.callee(e) or ""):
                return True
            if e.get("k") == "Index" and "Token" in c.tstr(e["base"]["t"]):
                idx = hir.strip(e["idx"])
                if any(m["m"] == "to_range" for m in hir.nodes(idx, "MethodCall")):
                    return True
            pl = hir.path_local(e)
            if pl and pl["id"] in defs and depth < 4:
                return is_node_slice(defs[pl["id"]], depth + 1)
            return False

        bad = None
        for n in hir.nodes(b["body"]):
            if n.get("k") == "MethodCall" and n["m"] in ("first", "split_first", "first_mut") and "Token" in c.tstr(n["recv"]["t"]) + "".join(
                    c.tstr(a["to"]) for a in n["recv"].get("adj") or []):
                if is_node_slice(n["recv"]):
                    bad = n
            if n.get("k") == "Index" and "Token" in c.tstr(n["base"]["t"]) and hir.lit_value(hir.strip(n["idx"])) in ("0", 0):
                if is_node_slice(n["base"]):
                    bad = n
            if n.get("k") == "MethodCall" and n["m"] == "slice" and "AstInfo" in (hir.callee_display(n) or hir.callee(n) or ""):
                n_slices += 1
        if any(True for x in hir.nodes(b["body"]) if (x.get("k") == "MethodCall" and x["m"] in ("first", "split_first")) or x.get("k") == "Index") or bad:
            # (a function that also panics when the token is not what it expects turns the wrong token into a crash of the handler)
            panics = any((x.get("k") == "Call" and (hir.callee(x) or "").startswith("core::panicking")) or
                         (x.get("k") == "MethodCall" and x["m"] in ("expect", "unwrap")) for x in hir.nodes(b["body"]))
            out.add(b["d"], "the first token of a node's slice is not taken for the node's own first token", bad is None,
                    c.loc((bad or b)["sp"]), "a node's token range starts with the comments written in front of it (every token parser "
                    "skips them inside `info(..)`): `first()` of the slice is such a comment whenever there is one" +
                    (" - and this function panics when the token is not the one it expects: the request is never answered and the server exits" if panics else ""),
                    ("panics",) if panics else ())
    if n_slices == 0:
        out.missing("AstInfo::slice uses in lsp4spl::features")
    return out


# ------------------------------------------------------------------ DOC-FLOW

def rule_doc_flow(prog):
    """The documentation of a table entry is the whole doc-comment block of its declaration: the function that turns the
    parser's comment lines into `Option<String>` concatenates all of them and answers None only when there is nothing; it
    never selects, skips or quantifies over individual lines."""
    out = Out("DOC-FLOW")
    c = prog.front
    fns = []
    for b in c.bodies:
        if b["k"] != "fn" or "sig_in" not in b or not b["p"].startswith("spl_frontend::table::") or "/tests" in c.file_of(b["sp"]):
            continue
        ins = [c.tstr(t).replace(" ", "") for t in b["sig_in"]]
        o = c.tstr(b["sig_out"]).replace(" ", "")
        if len(ins) == 1 and ins[0] in ("&[std::string::String]", "&std::vec::Vec<std::string::String>") and o == "std::option::Option<std::string::String>":
            fns.append(b)
    if not fns:
        out.missing("fn(&[String]) -> Option<String> in spl_frontend::table (documentation builder)")
        return out
    selecting = ("any", "all", "find", "position", "filter", "filter_map", "skip", "take", "skip_while", "take_while", "first", "last",
                 "nth", "get", "split_first", "split_last", "contains", "starts_with", "ends_with", "dedup", "retain", "rev")
    for b in fns:
        pid = None
        for pp in b["params"]:
            bs = list(hir.pat_bindings(pp))
            pid = bs[0]["id"] if len(bs) == 1 else None

        def from_param(e, depth=0):
            e = hir.strip_ref(e)
            pl = hir.path_local(e)
            if pl:
                return pl["id"] == pid
            if e.get("k") == "MethodCall" and e["m"] in ("iter", "into_iter", "as_slice", "as_ref", "to_vec", "clone", "map", "cloned", "copied") and depth < 6:
                return from_param(e["recv"], depth + 1)
            return False

        bad = None
        joined = False
        for m in hir.nodes(b["body"], "MethodCall"):
            if from_param(m["recv"]):
                if m["m"] in selecting:
                    bad = m
                if m["m"] in ("concat", "join", "collect"):
                    joined = True
            if m["m"] in ("concat", "join") and from_param(m["recv"]):
                joined = True
        for ix in hir.nodes(b["body"], "Index"):
            if from_param(ix["base"]):
                bad = ix
        # loop form: `for line in docs { text.push_str(line) }` over the whole parameter, every iteration appending
        for fl in hir.nodes(b["body"], "ForLoop"):
            if from_param(fl.get("iter") or {}) and fl.get("pat") is not None:
                lids = {bd["id"] for bd in hir.pat_bindings(fl["pat"])}
                blk_ = hir.strip(fl["body"])
                top = (blk_["b"]["stmts"] + ([blk_["b"]["expr"]] if blk_["b"].get("expr") else [])) if blk_.get("k") == "BlockExpr" else [blk_]
                for st_ in top:
                    in_ = hir.stmt_inner(st_) or (st_ if st_.get("k") == "MethodCall" else None)
                    if in_ is not None and in_.get("k") == "MethodCall" and in_["m"] in ("push_str", "push", "extend", "add_assign") and any(
                            (hir.path_local(hir.strip_ref(hir.strip(x_))) or {}).get("id") in lids for a_ in in_["args"] for x_ in hir.nodes(a_)):
                        joined = True
                    if in_ is not None and in_.get("k") == "AssignOp" and in_.get("op") == "+=" and any(
                            (hir.path_local(x_) or {}).get("id") in lids for x_ in hir.nodes(in_["r"], "Path")):
                        joined = True
        out.add(b["d"], "the documentation is the concatenation of all doc-comment lines", (joined and bad is None) if (joined or bad is not None) else None,
                c.loc((bad or b)["sp"]), ("`%s` on the comment lines: the documentation shown by hover / signature help / completion "
                                          "depends on individual lines (a blank `//` line, the first line, ...) instead of being the whole block"
                                          % (bad.get("m") or "index")) if bad else "no concat/join of the lines found")
    return out


# ------------------------------------------------------------------ BSEARCH-MONO

def rule_bsearch_mono(prog):
    """A binary search over tokens or nodes (`partition_point`, `binary_search_by(_key)`) is only meaningful for a predicate
    that is monotone along the slice.  Tokens and declarations are ordered by position, so a predicate that compares a range
    bound / offset with a position is monotone; a predicate on the token *kind* (comments also occur in the middle of a slice)
    or on names is not."""
    out = Out("BSEARCH-MONO")
    n = 0
    for c in prog.crates.values():
        for b in c.bodies:
            if "/tests" in c.file_of(b["sp"]) or b["k"] == "closure":
                continue
            for m in hir.nodes(b["body"], "MethodCall"):
                if m["m"] not in ("partition_point", "binary_search_by", "binary_search_by_key"):
                    continue
                rt = c.tstr(m["recv"]["t"]) + "".join(c.tstr(a["to"]) for a in m["recv"].get("adj") or [])
                if not ("tokens::Token" in rt or "ast::" in rt):
                    continue
                n += 1
                clo = hir.strip(m["args"][-1]) if m["args"] else {}
                positional = False
                kind_test = False
                for x in hir.nodes(clo):
                    if x.get("k") == "Field" and x["name"] in ("start", "end", "offset"):
                        positional = True
                    if x.get("k") == "Field" and x["name"] in ("token_type", "value", "name"):
                        kind_test = True
                    if x.get("k") == "Match" and any(v.startswith("spl_frontend::tokens::TokenType::") for a in x["arms"] for v in hir.pat_variants_all(a["pat"])):
                        kind_test = True
                out.add(b["d"], "binary search over tokens/nodes uses a predicate that is monotone in position", positional and not kind_test,
                        c.loc(m["sp"]), "`%s` with a predicate on the token kind: the slice is ordered by position, not by kind, so the search "
                        "may stop at any token of that kind in the middle (e.g. a comment inside a procedure body)" % m["m"])
    if n == 0:
        # nothing to check today (all searches are linear scans): the rule holds vacuously and says so
        out.add("(whole program)", "no binary search over tokens/nodes", True, "", "0 sites")
    return out


# ------------------------------------------------------------------ NOT-A-KIND

def rule_not_a_kind(prog):
    """A `match` in the table builder / semantic checker whose wildcard arm reports an error (`... is not a type`, `indexing a
    non-array`, `call of non-procedure`) says: everything that is not the kind named by the arms above is wrong.  So the arms
    above must take *all* values of their kind: no guard and no refutable sub-pattern - otherwise a value of the right kind
    (an array whose element type already got its own error) falls through and gets a diagnostic for a rule it does not violate."""
    out = Out("NOT-A-KIND")
    c = prog.front
    n = 0

    def irrefutable(p):
        p = hir.pat_strip(p)
        k = p.get("k")
        if k in ("Wild", "Rest"):
            return True
        if k == "Binding":
            return not p.get("sub") or irrefutable(p["sub"])
        if k == "Tuple":
            return all(irrefutable(q) for q in p["pats"])
        return False

    for b in c.bodies:
        if not b["p"].startswith("spl_frontend::table::") or "/tests" in c.file_of(b["sp"]):
            continue
        for m in hir.nodes(b["body"], "Match"):
            if m.get("src") != "match" or len(m["arms"]) < 2:
                continue
            def unsome(p_):
                """`Some(<p>)` -> `<p>` (a match on the Option a lookup answers)"""
                p_ = hir.pat_strip(p_)
                if p_.get("k") == "TupleStruct" and last(hir.pat_variant(p_) or "") == "Some" and len(p_.get("pats") or []) == 1:
                    return hir.pat_strip(p_["pats"][0]), True
                return p_, False
            # the fall-through arm: `_`, or `Some(_)` behind the arms for the kinds that are wanted
            ft = None
            for i_, a_ in enumerate(m["arms"]):
                q_, was_some = unsome(a_["pat"])
                if (hir.is_wild(a_["pat"]) or (was_some and hir.is_wild(q_))) and i_ > 0:
                    ft = i_
                    break
            if ft is None:
                continue
            last_arm = m["arms"][ft]
            # (reported on the spot, through a helper, or by yielding the message that is reported once behind the match)
            reports = [x for x in hir.nodes_deep(prog, last_arm["body"], 2, crate=c) if x.get("k") == "MethodCall" and x["m"] == "append_error"] or \
                [x for x in hir.nodes(last_arm["body"], "Path") if "ErrorMessage::" in (x["res"].get("ctor_of") or "") and
                 (x["res"].get("ctor_of") or "").startswith("spl_frontend::error::")]
            if not reports:
                continue
            for arm in m["arms"][:ft]:
                for alt in hir.pat_alternatives(unsome(arm["pat"])[0]):
                    alt_s = hir.pat_strip(alt)
                    v = hir.pat_variant(alt_s)
                    if not v or last(v) in ("Some", "None", "Ok", "Err"):
                        continue
                    subs = [f["pat"] for f in alt_s.get("fields", [])] if alt_s.get("k") == "Struct" else alt_s.get("pats", [])
                    ok = all(irrefutable(q) for q in subs) and arm.get("guard") is None
                    n += 1
                    out.add(b["d"], "the arm for %s takes every %s (the wildcard arm below reports an error)" % (last(v), last(v)), ok,
                            c.loc(arm["sp"]), "the arm for `%s` has a %s: values of that kind which do not match it fall into the wildcard arm and "
                            "are reported as a violation of the rule that arm stands for, although an earlier error already explained them"
                            % (last(v), "guard" if arm.get("guard") is not None else "refutable sub-pattern"))
        # the `if let <Kind>(..) = x { .. } else { report }` form
        for iff in hir.nodes(b["body"], "If"):
            cond = hir.strip(iff["cond"])
            if cond.get("k") != "LetExpr" or not iff.get("else"):
                continue
            if not any(x.get("k") == "MethodCall" and x["m"] == "append_error" for x in hir.nodes_deep(prog, iff["else"], 2, crate=c)) and \
                    not any("ErrorMessage::" in (x["res"].get("ctor_of") or "") for x in hir.nodes(iff["else"], "Path")):
                continue
            for alt in hir.pat_alternatives(cond["pat"]):
                alt_s = hir.pat_strip(alt)
                v = hir.pat_variant(alt_s)
                if not v or v.startswith("core::option::Option") or v.startswith("core::result::Result"):
                    continue
                subs = [f["pat"] for f in alt_s.get("fields", [])] if alt_s.get("k") == "Struct" else alt_s.get("pats", [])
                n += 1
                out.add(b["d"], "the `if let` for %s takes every %s (the else branch reports an error)" % (last(v), last(v)),
                        all(irrefutable(q) for q in subs), c.loc(iff["sp"]),
                        "the pattern for `%s` has a refutable sub-pattern: values of that kind which do not match it are reported by the else "
                        "branch as a violation of the rule it stands for" % last(v))
    if n == 0:
        out.missing("matches with an error-reporting wildcard arm in spl_frontend::table")
    return out


# ------------------------------------------------------------------ POSITION-TOKEN

def _text_range_skips_comments(prog):
    """does AstInfo::to_text_range start behind the leading comments of a node (D26c)?"""
    fc = prog.front
    for b_ in fc.bodies:
        if b_["d"] == "<ast::AstInfo as ToTextRange>::to_text_range":
            for x in hir.nodes_deep(prog, b_["body"], 1, crate=fc):
                pats = [a_["pat"] for a_ in x["arms"]] if x.get("k") == "Match" else [x["pat"]] if x.get("k") == "LetExpr" else []
                if any("spl_frontend::tokens::TokenType::Comment" in hir.pat_variants_all(pt) for pt in pats):
                    return True
    return False


def rule_position_token(prog):
    """Completion classifies the syntactic position of the cursor by the kind of the token in front of it (`:` -> type position,
    `;` / `{` -> statement start ...).  Comments may stand in every token gap, so the token that decides must be the last one in front
    of the cursor that is *not a comment*: either the search itself (token_before) or its caller skips TokenType::Comment."""
    out = Out("POSITION-TOKEN")
    c = prog.lsp
    fc = prog.front
    tb = [b for b in fc.bodies if b["name"] == "token_before" and "/tests" not in fc.file_of(b["sp"])]
    if not tb:
        out.missing("tokens::TokenList::token_before")
        return out
    COMMENT = "spl_frontend::tokens::TokenType::Comment"

    def tests_comment(root, crate):
        for x in hir.nodes_deep(prog, root, 2, crate=crate):
            pats = [a["pat"] for a in x["arms"]] if x.get("k") == "Match" else [x["pat"]] if x.get("k") == "LetExpr" else []
            if any(COMMENT in hir.pat_variants_all(pt) for pt in pats):
                return True
        return False
    in_search = any(tests_comment(b["body"], fc) for b in tb)
    n = 0
    for b in c.bodies:
        if not b["p"].startswith("lsp4spl::features::completion") or "/tests" in c.file_of(b["sp"]) or b["k"] == "closure":
            continue
        for mc, parents in hir.walk(b["body"]):
            if mc.get("k") != "MethodCall" or mc["m"] != "token_before":
                continue
            n += 1
            ok = in_search
            if not ok:
                # the caller steps over comments itself?
                encl = [p_ for p_ in parents if p_.get("k") == "MethodCall" and p_["m"] in ("and_then", "map", "filter")]
                ok = any(tests_comment(a_, c) for p_ in encl for a_ in p_["args"])
            out.add(b["d"], "the token that classifies the cursor position is not a comment", ok, c.loc(mc["sp"]),
                    "token_before returns the last token that starts in front of the cursor, comments included, and the position is "
                    "classified by matching on its kind: with a comment between the deciding token and the cursor (`var i: int; // c` + "
                    "line break, or a comment line in front of the cursor) no arm matches and nothing is proposed", ("comment",))
    if n < 2:
        out.missing("token_before call sites in features::completion (found %d)" % n)
    # the statement the cursor is in: searched in a list of statements by `range.contains(position)`.  The token range of a statement
    # starts with the comments in front of it (every token parser swallows them), so the range that is tested must start at the first
    # token that is not a comment - otherwise a statement start behind a comment line counts as the inside of the next statement
    m = 0
    for b in c.bodies:
        if not b["p"].startswith("lsp4spl::features::completion") or "/tests" in c.file_of(b["sp"]) or b["k"] == "closure":
            continue
        takes_list = any("[spl_frontend::ast::Reference<spl_frontend::ast::Statement>]" in c.tstr(pp["bt"]).replace("ast::Reference<ast::Statement>", "spl_frontend::ast::Reference<spl_frontend::ast::Statement>")
                         for q in b["params"] for pp in hir.pat_bindings(q))
        if not takes_list:
            continue
        scopes = [clo for clo in hir.nodes(b["body"], "Closure")
                  if any(x["m"] == "contains" for x in hir.nodes(clo["body"], "MethodCall"))]
        if not scopes and any(x["m"] == "contains" and "Range" in c.tstr(hir.strip(x["recv"])["t"]) for x in hir.nodes(b["body"], "MethodCall")):
            # the search is written as a loop in the function itself
            scopes = [{"k": "Closure", "body": b["body"]}]
        for clo in scopes:
            cont = [x for x in hir.nodes(clo["body"], "MethodCall") if x["m"] == "contains"]
            if not cont:
                continue
            m += 1
            # direct form `stmt.to_text_range(tokens).contains(&position)`: the whole token range, comments included
            # (since AstInfo::to_text_range starts behind the leading comments itself, the plain `to_text_range(..).contains(..)` is right)
            direct = any(hir.strip(x["recv"]).get("k") == "MethodCall" and hir.strip(x["recv"])["m"] == "to_text_range" for x in cont) and \
                not _text_range_skips_comments(prog)
            # ... or from the first token of the statement's slice as it is
            cdefs = {}
            for l_ in hir.nodes(clo["body"], "Let"):
                if l_["pat"].get("k") == "Binding" and l_.get("init") is not None:
                    cdefs[l_["pat"]["id"]] = l_["init"]

            def range_sources(e, depth=0):
                yield e
                if depth < 3:
                    for y in hir.nodes(e):
                        pl_ = hir.path_local(y)
                        if pl_ and pl_["id"] in cdefs:
                            for z in range_sources(cdefs[pl_["id"]], depth + 1):
                                yield z
            first_used = any(y.get("k") == "MethodCall" and y["m"] in ("first", "split_first") and "Token" in c.tstr(hir.strip(y["recv"])["t"])
                             for x in cont for r_ in range_sources(x["recv"]) for y in hir.nodes(r_))
            # the start of the tested range must come out of a comment test; `tokens.first()` as it is starts at the leading comments
            start_skips = any(tests_comment(r_, c) for x in cont for r_ in range_sources(x["recv"]))
            if first_used and not start_skips:
                direct = True
            elif first_used and start_skips:
                # both forms present: look at what feeds the *start* only
                for x in cont:
                    rv = hir.strip(x["recv"])
                    rng = rv if rv.get("k") == "Struct" else hir.strip(rv.get("e", {})) if rv.get("k") == "Paren" else rv
                    if rng.get("k") == "Struct" and "Range" in (rng.get("adt") or ""):
                        f_ = {q["name"]: q["e"] for q in rng["fields"]}
                        if "start" in f_ and not any(tests_comment(r_, c) for r_ in range_sources(f_["start"])) and \
                                any(y.get("k") == "MethodCall" and y["m"] in ("first", "split_first") for r_ in range_sources(f_["start"]) for y in hir.nodes(r_)):
                            direct = True
            ok = (not direct) and (tests_comment(clo["body"], c) or _text_range_skips_comments(prog))
            out.add(b["d"], "the comments in front of a statement do not count as the statement when the cursor is located",
                    ok if (direct or tests_comment(clo["body"], c) or _text_range_skips_comments(prog)) else None,
                    c.loc(cont[0]["sp"]), "`stmt.to_text_range(tokens).contains(&position)`: a cursor behind a comment line and in front of the next "
                    "statement is taken to be inside that statement, so a statement start gets the proposals of the statement's interior (none)",
                    ("comment", "stmt"))
    if m < 1:
        out.missing("statement search by cursor position in features::completion (found %d)" % m)
    # brackets nest: the *first* closing bracket of a token slice is not the one that closes the construct.  A first-match search
    # (`find` / `position` / `take_while` up to it) whose predicate accepts closing brackets only is wrong as soon as an argument or a
    # condition contains parentheses (`f(g(1), |)`, `if ((a) |)`), an index an index, a block a block
    CLOSERS = {"RParen", "RBracket", "RCurly"}
    for b in prog.lsp.bodies:
        if not b["p"].startswith("lsp4spl::features") or "/tests" in c.file_of(b["sp"]) or b["k"] == "closure":
            continue
        for mc in hir.nodes(b["body"], "MethodCall"):
            if mc["m"] not in ("find", "position", "take_while", "skip_while", "find_map", "any") or not mc["args"]:
                continue
            if "Token" not in c.tstr(hir.strip(mc["recv"])["t"]):
                continue
            if mc["m"] == "any" and not any(
                    x.get("k") == "Binary" and x["op"] in ("<", "<=", ">", ">=") and any(
                        f_.get("k") == "Field" and f_["name"] in ("start", "end") for f_ in hir.nodes(x)) for x in hir.nodes(mc["args"][0])):
                # `any` is a first-match search only when it asks for a bracket *in front of / behind a position* ("is there a `)` before
                # the cursor"); whether the slice holds a closing bracket at all is another question
                continue
            kinds = set()
            other = False
            for x in hir.nodes(mc["args"][0]):
                pats = [a_["pat"] for a_ in x["arms"] if hir.lit_value(a_["body"]) is True] if x.get("k") == "Match" else [x["pat"]] if x.get("k") == "LetExpr" else []
                for pt in pats:
                    for v_ in hir.pat_variants_all(pt):
                        if v_.startswith("spl_frontend::tokens::TokenType::"):
                            kinds.add(last(v_))
                if x.get("k") == "Binary" and x["op"] == "==":
                    for y in hir.nodes(x, "Path"):
                        co = y["res"].get("ctor_of", "")
                        if co.startswith("spl_frontend::tokens::TokenType::"):
                            kinds.add(last(co))
                        elif y["res"].get("k") == "Local" and "TokenType" in c.tstr(y["t"]) and "Token>" not in c.tstr(y["t"]):
                            other = True     # compared with a kind handed in from outside: unknown
            if other and not kinds:
                # the kind is handed to a local closure (`let find = |tt| tokens.iter().find(|t| t.token_type == tt)`): the kinds it is
                # called with decide
                for cl_, cps_ in hir.walk(b["body"]):
                    if cl_.get("k") != "Closure" or not any(z_ is mc for z_ in hir.nodes(cl_["body"])):
                        continue
                    par_ = cps_[-1] if cps_ else {}
                    if par_.get("k") != "Let" or par_["pat"].get("k") != "Binding" or len(cl_.get("params") or []) != 1:
                        continue
                    fid_ = par_["pat"]["id"]
                    called = set()
                    for call_ in hir.nodes(b["body"], "Call"):
                        if (hir.path_local(hir.strip(call_["f"])) or {}).get("id") == fid_ and call_["args"]:
                            co = (hir.path_def(hir.strip(call_["args"][0])) or {}).get("ctor_of", "")
                            called.add(last(co) if co.startswith("spl_frontend::tokens::TokenType::") else "?")
                    if called and "?" not in called and (called & CLOSERS):
                        kinds, other = called & CLOSERS, False
            if kinds == {"Else"} and not other:
                # if statements nest as well: the first `else` of an if statement's tokens may belong to an if inside its then-branch
                out.add(b["d"], "the `else` of an if statement is not searched as the first `else` of its tokens", False, c.loc(mc["sp"]),
                        "`.%s(..)` stops at the first `else` of the slice; for `if (a) { if (b) x := 1; else x := 2; y := 3; }` that is the inner "
                        "one: every position behind it is taken to be in the else branch of the outer statement, statement starts there get "
                        "variables only" % mc["m"], ("nest",))
            if kinds and kinds <= CLOSERS and not other:
                out.add(b["d"], "the closing bracket of a construct is not searched as the first closing bracket of its tokens", False, c.loc(mc["sp"]),
                        "`.%s(..)` stops at the first %s of the slice; brackets nest, so for `f(g(1), 2)` / `a[b[0]]` this is the inner one and "
                        "everything behind it is treated as outside the construct" % (mc["m"], "/".join(sorted(kinds))), ("nest",))
    # the token that ends the file's last declaration: picked from a slice that runs to the end of the file, it must skip comments
    for b in prog.lsp.bodies:
        if not b["p"].startswith("lsp4spl::features::completion") or "/tests" in c.file_of(b["sp"]):
            continue
        defs_ = {}
        for l_ in hir.nodes(b["body"], "Let"):
            if l_["pat"].get("k") == "Binding" and l_.get("init") is not None:
                defs_[l_["pat"]["id"]] = l_["init"]

        def open_ended(e, depth=0):
            e = hir.strip_ref(e)
            while e.get("k") == "MethodCall" and e["m"] in ("iter", "as_slice", "as_ref", "rev"):
                e = hir.strip_ref(e["recv"])
            if e.get("k") == "Index":
                idx = hir.strip(e["idx"])
                return idx.get("k") == "Struct" and "RangeFrom" in (idx.get("adt") or "")
            pl_ = hir.path_local(e)
            if pl_ and pl_["id"] in defs_ and depth < 3:
                return open_ended(defs_[pl_["id"]], depth + 1)
            return False
        for mc in hir.nodes(b["body"], "MethodCall"):
            if mc["m"] not in ("last", "rfind", "next_back") or "Token" not in c.tstr(hir.strip(mc["recv"])["t"]):
                continue
            if not open_ended(mc["recv"]):
                continue
            skips = mc["m"] == "rfind" and mc["args"] and tests_comment(mc["args"][0], c)
            out.add(b["d"], "the last token of an open-ended token slice is taken comment-blind", bool(skips), c.loc(mc["sp"]),
                    "the slice runs to the end of the file, where comments behind the last declaration live: the token picked as `the end of "
                    "the declaration` can be a comment, and the classification that follows (`;` / `}` expected) goes wrong", ("comment",))
    # a comment never decides *that nothing is proposed*: no branch of the completion code whose condition inspects comment tokens
    # ends in `None` / an empty answer.  (A comment token covers its line break, and the position that is classified is the cursor
    # offset minus one: "the cursor is inside a comment" is also true in column 0 of the line below every comment.)
    for b in c.bodies:
        if not b["p"].startswith("lsp4spl::features::completion") or "/tests" in c.file_of(b["sp"]):
            continue
        for iff in hir.nodes(b["body"], "If"):
            if not tests_comment(iff["cond"], c):
                continue
            gives_up = False
            for x in hir.nodes(iff["then"]):
                if x.get("k") == "Ret" and x.get("e") is not None:
                    if any(last(p_["res"].get("ctor_of", "")) == "None" for p_ in hir.nodes(x["e"], "Path")):
                        gives_up = True
            tail = hir.strip(iff["then"])
            tail = tail["b"].get("expr") if tail.get("k") == "BlockExpr" else None
            if tail is not None and hir.strip(tail).get("k") == "Path" and last(hir.strip(tail)["res"].get("ctor_of", "")) == "None":
                gives_up = True
            if gives_up:
                out.add(b["d"], "no branch that inspects comment tokens answers with `no proposals`", False, c.loc(iff["sp"]),
                        "a test on comment tokens decides that nothing is proposed: the range of a comment token includes its line break and "
                        "the classified position is one in front of the cursor, so column 0 below any comment line gets no proposals", ("comment", "suppress"))
    # the kind of the token *in front of* an identifier decides what it names (`:` / `of` -> a type, `proc` / `type` -> a global
    # declaration): a predicate over (tokens, index) that matches the kind of a neighbouring token against TokenType variants must pick
    # that neighbour comment-blind - a comment may stand in every token gap.  Picked by position alone (`index - 1`, `checked_sub(1)`,
    # `[..index].last()`) with no comment test anywhere in the function, `x: // c⏎ t` names something else than `x: t`
    for b in c.bodies:
        if not b["p"].startswith("lsp4spl::features") or "/tests" in c.file_of(b["sp"]) or b["k"] != "fn":
            continue
        pts = [c.tstr(p_.get("bt")) for p_ in b["params"] if p_.get("k") == "Binding"]
        if not (any("[spl_frontend::tokens::Token]" in t_ for t_ in pts) and any(t_ == "usize" for t_ in pts)):
            continue
        if c.tstr(b["body"].get("t")) != "bool":
            continue
        kinds = set()
        for x in hir.nodes_deep(prog, b["body"], 1, crate=c, values=True):
            pats = [a_["pat"] for a_ in x["arms"]] if x.get("k") == "Match" else [x["pat"]] if x.get("k") == "LetExpr" else []
            for pt in pats:
                for v_ in hir.pat_variants_all(pt):
                    if v_.startswith("spl_frontend::tokens::TokenType::"):
                        kinds.add(last(v_))
        if not (kinds - {"Comment"}):
            continue
        blind = tests_comment(b["body"], c)
        # the predecessor by position: `index - 1`, `index.checked_sub(1)`, or the last element of `tokens[..index]`
        idx_ids = {p_["id"] for p_ in b["params"] if p_.get("k") == "Binding" and c.tstr(p_.get("bt")) == "usize"}

        def on_index(e):
            return any((hir.path_local(y) or {}).get("id") in idx_ids for y in hir.nodes(e))
        deep = list(hir.nodes_deep(prog, b["body"], 1, crate=c, values=True))
        takes_last = any(x.get("k") == "MethodCall" and x["m"] in ("last", "next_back", "split_last") for x in deep)
        positional = any(
            (x.get("k") == "MethodCall" and x["m"] == "checked_sub" and on_index(x["recv"])) or
            (x.get("k") == "Binary" and x["op"] == "-" and str(hir.lit_value(hir.strip(x["r"]))) == "1" and on_index(x["l"])) or
            (takes_last and x.get("k") == "Index" and hir.strip(x["idx"]).get("k") == "Struct" and "RangeTo" in (hir.strip(x["idx"]).get("adt") or "")
             and on_index(x["idx"]))
            for x in deep)
        out.add(b["d"], "a neighbouring token that classifies an identifier is picked comment-blind", True if blind else (False if positional else None),
                c.loc(b["sp"]), "the function decides by the kind of a token next to `index` (%s) and %s" % (
                    sorted(kinds - {"Comment"})[:6], "skips comments on the way" if blind else
                    "takes it by position with no test for comments: a comment between the two tokens changes what the identifier names"), ("comment", "prev"))
    return out
