"""Layering / unit rules: POS-CONV (who may convert between byte offsets and LSP positions),
TOKEN-RANGE-SOURCE (token ranges come from consumed input), KEYWORD-BOUNDARY, SEND-AWAIT."""
from . import hir
from .core import Out
from .rules_tables import last
from .rules_struct import place
from . import roles

CONV = ("document::as_position", "document::as_pos_range")  # default; replaced per program by roles.conv()


def _defs(body):
    d = {}
    mutated = set()
    counted = set()
    for l in hir.nodes(body["body"]):
        pat = init = None
        if l.get("k") == "Let" and l.get("init") is not None:
            pat, init = l["pat"], l["init"]
        elif l.get("k") == "LetExpr":
            pat, init = l["pat"], l["init"]
        if pat is not None:
            ps, es = hir.pat_strip(pat), hir.strip(init)
            if ps.get("k") == "Tuple" and es.get("k") == "Tup" and len(ps["pats"]) == len(es["es"]):
                for q, x in zip(ps["pats"], es["es"]):
                    for bd in hir.pat_bindings(q):
                        d[bd["id"]] = x
            else:
                for bd in hir.pat_bindings(pat):
                    d[bd["id"]] = init
        elif l.get("k") in ("Assign", "AssignOp"):
            # a local that is written after its `let` is not what its initialiser says (`let mut line = 0; .. line += 1;`)
            pl_ = hir.path_local(hir.strip(l["l"]))
            if pl_:
                mutated.add(pl_["id"])
                if l.get("k") == "AssignOp":
                    counted.add(pl_["id"])
        elif l.get("k") == "MethodCall" and l["m"] in ("map", "and_then", "map_or", "map_or_else"):
            # the parameter of the closure receives what the receiver holds (`range.map(|range| Location { uri, range })`)
            cl_ = hir.strip(l["args"][-1]) if l["args"] else {}
            if cl_.get("k") == "Closure" and len(cl_.get("params") or []) == 1:
                for bd in hir.pat_bindings(cl_["params"][0]):
                    d.setdefault(bd["id"], l["recv"])
    for i_ in mutated:
        if i_ in d and (hir.strip(d[i_]).get("k") == "Lit" or i_ in counted):
            d[i_] = {"k": "Computed", "sp": d[i_].get("sp")}
    return d


def _params(body):
    res = {}
    for i, p in enumerate(body["params"]):
        for bd in hir.pat_bindings(p):
            res[bd["id"]] = (i, bd["name"])
    # async fns re-bind their parameters inside the coroutine: follow `let x = x;`
    return res


_CONV_NOW = {"names": CONV}


def from_conv(e, body, dmap, pmap, depth=0):
    """True / False / ('param', i, name): is the value derived only from as_position/as_pos_range results?"""
    if depth > 40 or e is None:
        return False
    e = hir.strip_ref(e)
    k = e.get("k")
    if k == "MethodCall" and e["m"] not in ("clone", "to_owned", "into", "try_into", "unwrap", "expect"):
        # a method of the crate that answers with a conversion result (`target.pos_range(&occurrence)`)
        prog = _CONV_NOW.get("prog")
        hb = hir.local_callee_body(prog, e) if prog is not None else None
        if hb is not None and hb["_crate"] is body["_crate"] and depth < 25 and hb["k"] in ("fn", "assoc_fn") and \
                not any(True for _ in hir.nodes(hb["body"], "Ret")):
            hbody = hir.strip(hb["body"])
            tail = hbody["b"].get("expr") if hbody.get("k") == "BlockExpr" else hbody
            if tail is not None and from_conv(tail, hb, _defs(hb), _params(hb), depth + 5) is True:
                return True
        return False
    if k == "Closure":
        # a conversion handed over as a function value: what matters is what it answers with
        cb = hir.strip(e["body"])
        tail = cb["b"].get("expr") if cb.get("k") == "BlockExpr" else cb
        if tail is None or any(True for _ in hir.nodes(e["body"], "Ret")):
            return False
        return from_conv(tail, body, dmap, pmap, depth + 1)
    if k == "Call" and hir.path_local(hir.strip(e["f"])) is not None:
        # the result of calling a function value: decided where the function value comes from
        return from_conv(e["f"], body, dmap, pmap, depth + 1)
    if k == "Call":
        d = hir.callee_display(e) or ""
        if d in _CONV_NOW["names"]:
            return True
        if last_seg((hir.path_def(e["f"]) or {}).get("ctor_of", "")) in ("Some", "Ok") and len(e["args"]) == 1:
            return from_conv(e["args"][0], body, dmap, pmap, depth + 1)
        # arithmetic on positions moved into a local helper: the result derives from conversions if the helper computes it from
        # its parameters only and every argument does
        prog = _CONV_NOW.get("prog")
        hb = hir.local_callee_body(prog, e) if prog is not None else None
        if hb is not None and hb["_crate"] is body["_crate"] and depth < 25 and hb["k"] in ("fn", "assoc_fn"):
            hbody = hir.strip(hb["body"])
            tail = hbody["b"].get("expr") if hbody.get("k") == "BlockExpr" else hbody
            rets = [r_ for r_ in hir.nodes(hb["body"], "Ret")]
            if tail is not None and rets and all(r_.get("e") is not None for r_ in rets):
                # early returns: every value the helper can answer with
                vals = [from_conv(x_, hb, _defs(hb), _params(hb), depth + 5) for x_ in [tail] + [r_["e"] for r_ in rets]]
                if all(v is True for v in vals):
                    return True
                return False
            if tail is not None and not rets:
                r = from_conv(tail, hb, _defs(hb), _params(hb), depth + 5)
                if r is True:
                    # the helper answers with a conversion result whatever it is handed
                    return True
                if isinstance(r, tuple):
                    vals = [from_conv(a_, body, dmap, pmap, depth + 1) for a_ in e["args"]]
                    if vals and all(v is True for v in vals):
                        return True
                    if vals and all(v is True or isinstance(v, tuple) for v in vals):
                        return [v for v in vals if isinstance(v, tuple)][0]
        return False
    if k == "Path" and e["res"].get("k") == "Local":
        i = e["res"]["id"]
        if i in dmap:
            return from_conv(dmap[i], body, dmap, pmap, depth + 1)
        if i in pmap:
            return ("param",) + pmap[i]
        return False
    if k == "Field":
        return from_conv(e["base"], body, dmap, pmap, depth + 1)
    if k == "Unary":
        return from_conv(e["e"], body, dmap, pmap, depth + 1)
    if k == "Cast":
        return from_conv(e["e"], body, dmap, pmap, depth + 1)
    if k == "Lit":
        return True
    if k == "Tup":
        vals = [from_conv(x, body, dmap, pmap, depth + 1) for x in e["es"]]
        if vals and all(v is True for v in vals):
            return True
        if vals and all(v is True or isinstance(v, tuple) for v in vals):
            return [v for v in vals if isinstance(v, tuple)][0]
        return False
    if k == "Binary":
        a = from_conv(e["l"], body, dmap, pmap, depth + 1)
        b = from_conv(e["r"], body, dmap, pmap, depth + 1)
        if a is True and b is True:
            return True
        for x in (a, b):
            if isinstance(x, tuple):
                return x if (a is True or isinstance(a, tuple)) and (b is True or isinstance(b, tuple)) else False
        return False
    if k == "If":
        a = from_conv(e["then"], body, dmap, pmap, depth + 1)
        b = from_conv(e.get("else"), body, dmap, pmap, depth + 1) if e.get("else") else True
        if a is True and b is True:
            return True
        for x in (a, b):
            if isinstance(x, tuple) and (a is True or isinstance(a, tuple)) and (b is True or isinstance(b, tuple)):
                return x
        return False
    if k == "BlockExpr":
        t = e["b"].get("expr")
        return from_conv(t, body, dmap, pmap, depth + 1) if t else False
    if k == "Match" and e.get("arms"):
        vals = [from_conv(a_["body"], body, dmap, pmap, depth + 1) for a_ in e["arms"]
                if hir.strip(a_["body"]).get("k") not in ("Ret", "Continue", "Break")]
        if vals and all(v is True for v in vals):
            return True
        if vals and all(v is True or isinstance(v, tuple) for v in vals):
            return [v for v in vals if isinstance(v, tuple)][0]
        return False
    if k in ("Try", "Await"):
        return from_conv(e.get("e"), body, dmap, pmap, depth + 1)
    if k == "Path" and last_seg(e["res"].get("ctor_of", "")) == "None":
        return True
    if k == "MethodCall" and e["m"] in ("clone", "to_owned", "into", "try_into", "unwrap", "expect"):
        return from_conv(e["recv"], body, dmap, pmap, depth + 1)
    return False


def last_seg(p):
    return p.rsplit("::", 1)[-1] if p else ""


def rule_pos_conv(prog):
    out = Out("POS-CONV")
    c = prog.lsp
    cv = roles.conv(prog)
    if "as_position" not in cv or "get_insertion_index" not in cv or "as_pos_range" not in cv:
        out.missing("position conversion functions (usize,&str)->Position / (&Position,&str)->usize / (&Range<usize>,&str)->lsp Range")
        return out
    _CONV_NOW["names"] = (cv["as_position"]["d"], cv["as_pos_range"]["d"])
    _CONV_NOW["prog"] = prog
    conv_ds = set(v["d"] for v in cv.values())
    bodies = [b for b in c.bodies if "/tests" not in c.file_of(b["sp"]) and "_serde" not in b["d"] and b["k"] in ("fn", "assoc_fn")]
    by_disp = {}
    for b in bodies:
        by_disp.setdefault(b["d"], b)
    n = 0
    site_index = {}

    def check(e, body, label, loc, seen=frozenset()):
        nonlocal n
        v = from_conv(e, body, _defs(body), _params(body))
        if isinstance(v, tuple):
            _, idx, name = v
            if body["d"].startswith("features::semantic_tokens::") and idx < len(body["params"]) and \
                    body["params"][idx].get("k") == "Binding" and c.tstr(body["params"][idx]["bt"]).replace("&mut ", "").replace("&", "").strip() == "lsp_types::Position":
                n += 1
                out.add(body["d"], label, True, loc, "delta base threaded from the previous as_position result (checked by SEMTOK-PAIRING)")
                return
            if not site_index:
                for cb in bodies:
                    for call in hir.nodes(cb["body"], "Call"):
                        site_index.setdefault(hir.callee_display(call) or "", []).append((cb, call))
            sites = [(cb, call) for cb, call in site_index.get(body["d"], []) if idx < len(call["args"])]
            if not sites or (body["d"], idx) in seen:
                n += 1
                out.add(body["d"], label, None, loc, "parameter `%s` without visible call site" % name)
                return
            for cb, call in sites:
                check(call["args"][idx], cb, label + " <- " + cb["d"].rsplit("::", 1)[-1], c.loc(call["sp"]), seen | {(body["d"], idx)})
            return
        n += 1
        out.add(body["d"], label, bool(v), loc,
                "LSP positions must come from document::as_position / as_pos_range (the one place that knows about lines and "
                "UTF-16 columns); this value is computed some other way")

    def _conv_fn(x):
        return x["d"] in (cv["as_position"]["d"], cv["get_insertion_index"]["d"])

    def _conv_layer(x):
        # (as_pos_range may share a private helper with as_position; it is no place for Position literals of its own)
        return _conv_fn(x) or x["d"] == cv["as_pos_range"]["d"]

    conv_helpers = set(b["p"] for b in bodies if not _conv_layer(b) and hir.only_called_from(prog, b["p"], _conv_layer))
    for b in bodies:
        f = c.file_of(b["sp"])
        if b["p"] in conv_helpers:
            continue  # private helper of the conversion functions: part of the conversion layer
        for s in hir.nodes(b["body"], "Struct"):
            adt = s.get("adt") or ""
            if not adt.startswith("lsp_types"):
                continue
            nm = last(adt)
            fl = {x["name"]: x["e"] for x in s["fields"]}
            if nm == "Position":
                zero = all(hir.lit_value(v) == "0" for v in fl.values())
                if _conv_fn(b):
                    continue
                n += 1
                out.add(b["d"], "Position literal only in document::as_position (or the 0/0 origin)", zero, c.loc(s["sp"]),
                        "a Position is assembled by hand outside the conversion function")
            elif nm == "FoldingRange":
                for k in ("start_line", "end_line"):
                    if k in fl:
                        check(fl[k], b, "FoldingRange.%s derives from as_pos_range" % k, c.loc(s["sp"]))
            elif nm in ("Location", "TextEdit", "Diagnostic", "Hover"):
                if "range" in fl:
                    e = hir.strip(fl["range"])
                    # Some(range) for Hover
                    if e.get("k") == "Call" and hir.path_def(e["f"]) and last(hir.path_def(e["f"]).get("ctor_of", "")) == "Some":
                        e = e["args"][0]
                    check(e, b, "%s.range derives from as_pos_range" % nm, c.loc(s["sp"]))
            elif nm == "Range" and b["d"] != cv["as_pos_range"]["d"]:
                n += 1
                out.add(b["d"], "lsp Range literal only in document::as_pos_range", False, c.loc(s["sp"]), "")
            elif nm == "SemanticToken":
                for k in ("delta_line", "delta_start"):
                    if k in fl:
                        check(fl[k], b, "SemanticToken.%s derives from as_position" % k, c.loc(s["sp"]))
        # reads of incoming positions
        for fld in hir.nodes(b["body"], "Field"):
            if fld["name"] in ("line", "character") and "lsp_types::Position" in c.tstr(fld["base"]["t"]):
                if _conv_fn(b):
                    continue
                v = from_conv(fld["base"], b, _defs(b), _params(b))
                ok = v is True or (isinstance(v, tuple) and b["d"].startswith("features::semantic_tokens::")
                                   and c.tstr(b["params"][v[1]]["bt"]).replace("&mut ", "").replace("&", "").strip() == "lsp_types::Position")
                if not ok and isinstance(v, tuple) and b["d"] != cv["get_insertion_index"]["d"]:
                    # a position handed in: decided by what the callers hand in (a conversion result is no client position)
                    if not site_index:
                        for cb in bodies:
                            for call in hir.nodes(cb["body"], "Call"):
                                site_index.setdefault(hir.callee_display(call) or "", []).append((cb, call))
                    sites_ = [(cb, call) for cb, call in site_index.get(b["d"], []) if v[1] < len(call["args"])]
                    if not sites_ and "impl_trait" in b and b.get("impl_trait") in ("core::convert::From", "core::convert::Into"):
                        ok = None     # reached through `.into()`: the call sites are not resolved here
                    elif sites_ and all(from_conv(call["args"][v[1]], cb, _defs(cb), _params(cb)) is True for cb, call in sites_):
                        ok = True
                n += 1
                out.add(b["d"], "Position.%s of a client position is read only by get_insertion_index" % fld["name"], ok,
                        c.loc(fld["sp"]),
                        "a client-supplied line/character is interpreted outside document::get_insertion_index, the one place that "
                        "maps UTF-16 columns to byte offsets")
    # `rangeLength` of a content change counts UTF-16 code units (and is deprecated): it is not a byte length.  The server derives the
    # replaced span from `range` through the conversion functions only
    rl_bad = None
    n_rl = 0
    for b in bodies:
        for x in hir.nodes(b["body"]):
            if x.get("k") == "Field" and x["name"] == "range_length":
                rl_bad = rl_bad or (b, x)
            pats_ = [x["pat"]] if x.get("k") in ("Let", "LetExpr") and x.get("pat") else [a_["pat"] for a_ in x["arms"]] if x.get("k") == "Match" else \
                list(x.get("params") or []) if x.get("k") == "Closure" else []
            for pt in pats_:
                for sp_ in _struct_pats(pt):
                    if "TextDocumentContentChangeEvent" not in (hir.pat_variant(sp_) or sp_.get("adt") or ""):
                        continue
                    n_rl += 1
                    for f_ in sp_["fields"]:
                        if f_["name"] == "range_length":
                            for bd in hir.pat_bindings(f_["pat"]):
                                if any(p_["res"].get("k") == "Local" and p_["res"]["id"] == bd["id"] for p_ in hir.nodes(b["body"], "Path")):
                                    rl_bad = rl_bad or (b, f_["pat"])
    out.add("TextDocumentContentChangeEvent.range_length", "the replaced span comes from `range` through the conversion functions, never from rangeLength",
            rl_bad is None, c.loc(rl_bad[1]["sp"]) if rl_bad else "", ("%s reads `rangeLength`; " % rl_bad[0]["d"] if rl_bad else "") +
            "rangeLength counts UTF-16 code units: used as a byte length it cuts a non-ASCII character in two (`replace_range` panics, the "
            "document broker dies) or replaces a span the client did not mean", ("rangelen",))
    # the unit the conversions implement is the unit that is promised: no position encoding other than UTF-16 is announced
    bad = None
    for b in bodies:
        cands = []
        for st in hir.nodes(b["body"], "Struct"):
            for f in st["fields"]:
                if f["name"] == "position_encoding":
                    cands.append(f["e"])
        for a in hir.nodes(b["body"], "Assign"):
            l = hir.strip(a["l"])
            if l.get("k") == "Field" and l["name"] == "position_encoding":
                cands.append(a["r"])
        for e in cands:
            e_ = hir.strip(e)
            is_none = e_.get("k") == "Path" and last_seg(e_["res"].get("ctor_of", "")) == "None"
            is_utf16 = e_.get("k") == "Call" and last_seg((hir.path_def(e_["f"]) or {}).get("ctor_of", "")) == "Some" and \
                ((hir.path_def(hir.strip(e_["args"][0])) or {}).get("p", "")).endswith("PositionEncodingKind::UTF16")
            if not (is_none or is_utf16):
                bad = (b, e)
    out.add("ServerCapabilities.position_encoding", "no position encoding other than UTF-16 is announced", bad is None,
            c.loc(bad[1]["sp"]) if bad else "", "the initialize reply promises a column unit the conversion functions do not implement "
            "(they count UTF-16 code units): a client that takes the offer sends and expects other columns" if bad else "", ("encoding",))
    if n < 15:
        out.missing("LSP position producers/consumers (found %d)" % n)
    return out


# ------------------------------------------------------------------ TOKEN-RANGE-SOURCE

def rule_token_range_source(prog):
    """Byte ranges of tokens are taken from the consumed input (Span::to_range / location_offset), never computed."""
    out = Out("TOKEN-RANGE-SOURCE")
    c = prog.front
    n = 0
    for b in c.bodies:
        if not roles.in_lexer_module(c, b) or c.file_of(b["sp"]).endswith("utility.rs"):
            continue
        if b["name"] in ("shift_token", "update", "shift_range"):
            continue
        # (helpers of the lexer that are handed the pieces - `lex_ranged(input, body, |out, range| Token::new(.., range))` - are read
        # in place, closures called where they stand included)
        b = dict(b, body=hir.simplify(hir.inline_calls(prog, b["body"], c, depth=3, only=lambda hb: roles.in_lexer_module(c, hb) and
                                                       hb.get("impl_trait") is None and not hb["d"].startswith("<"))))
        dmap = _defs(b)
        param_ids = {bd["id"] for pp in b["params"] for bd in hir.pat_bindings(pp)} | \
            {bd["id"] for cl in hir.nodes(b["body"], "Closure") for pp in cl.get("params") or [] for bd in hir.pat_bindings(pp)}

        def is_offset(e, depth=0):
            e = hir.strip_ref(e)
            if depth > 8:
                return False
            if e.get("k") == "MethodCall" and e["m"] == "location_offset":
                return True
            if e.get("k") == "Path" and e["res"].get("k") == "Local" and e["res"]["id"] in dmap:
                return is_offset(dmap[e["res"]["id"]], depth + 1)
            return False

        def ok_range(e, depth=0):
            e = hir.strip_ref(e)
            if e.get("k") == "BlockExpr" and e["b"].get("expr") is not None and depth < 8:
                return ok_range(e["b"]["expr"], depth + 1)
            if e.get("k") == "MethodCall" and e["m"] == "to_range" and "LocatedSpan" in c.tstr(e["recv"]["t"]):
                return True
            if e.get("k") == "MethodCall" and e["m"] == "clone":
                return ok_range(e["recv"], depth + 1)
            if e.get("k") == "Struct" and (e.get("adt") or "").startswith("core::ops::range::Range"):
                if all(is_offset(f["e"]) for f in e["fields"]):
                    return True
                # positively computed: a bound built by arithmetic / from a length
                if any(x.get("k") == "Binary" and x["op"] in ("+", "-") or (x.get("k") == "MethodCall" and x["m"] in ("len", "len_utf8", "count"))
                       for f in e["fields"] for x in hir.nodes(f["e"])):
                    return False
                return None
            if e.get("k") == "Path" and e["res"].get("k") == "Local" and e["res"]["id"] in dmap and depth < 8:
                return ok_range(dmap[e["res"]["id"]], depth + 1)
            if e.get("k") == "Path" and e["res"].get("k") == "Local" and e["res"]["id"] in param_ids:
                # handed in by the caller: not followed
                return None
            return False

        per_macro = {}
        for call in hir.nodes(b["body"], "Call"):
            d = hir.callee_display(call) or ""
            if d in ("tokens::Token::new", "tokens::Token::new_with_errors") and len(call["args"]) >= 2:
                n += 1
                why = ("the token's byte range is computed by arithmetic instead of being taken from Span::to_range() / "
                       "location_offset() of the input that was actually consumed: wrong for multi-byte characters")
                mx = [m for m in (call.get("mx") or []) if m.startswith("lex_") or not m.startswith(("vec!", "format"))]
                if mx:
                    # one source site expanded many times: one instance per macro
                    e = per_macro.setdefault(mx[-1], [True, c.loc(call["sp"])])
                    v_ = ok_range(call["args"][1])
                    if v_ is False or (v_ is None and e[0] is True):
                        e[0], e[1] = v_, c.loc(call["sp"])
                    continue
                out.add(b["d"], "token range is the range of the consumed input", ok_range(call["args"][1]), c.loc(call["sp"]), why)
        for m, (ok, loc) in sorted(per_macro.items()):
            out.add(b["d"], "token range is the range of the consumed input (in %s)" % m, ok, loc, why)
    if n < 8:
        out.missing("Token::new call sites in lexer.rs (found %d)" % n)
    return out


# ------------------------------------------------------------------ KEYWORD-BOUNDARY

def rule_keyword_boundary(prog):
    """A keyword ends where an identifier could not continue: lex_keyword!'s boundary test and Ident::lex's continuation
    use the same character class."""
    out = Out("KEYWORD-BOUNDARY")
    c = prog.front
    lex = [b for b in c.bodies if b["d"] == "<tokens::Token as lexer::Lexer>::lex"]
    ident = [roles.sub_lexers(prog)["Ident"]] if "Ident" in roles.sub_lexers(prog) else []
    if not lex or not ident:
        out.missing("Token::lex / lexer::utility::alpha_numeric0 / Ident::lex")
        return out

    def fn_paths(node):
        return [n["res"]["p"] for n in hir.nodes(node, "Path") if n["res"].get("k") == "Def" and n["res"]["dk"] == "Fn"
                and n["res"]["p"].startswith("spl_frontend::")]

    # the identifier continuation class: the character predicate(s) (fn(char) -> bool of the lexer module) the identifier lexer
    # repeats over - named directly, or inside the repetition helper it uses (alpha_numeric0)
    def is_char_pred(p_):
        pb = prog.body(p_)
        return pb is not None and "sig_in" in pb and [c.tstr(t_) for t_ in pb["sig_in"]] == ["char"] and c.tstr(pb["sig_out"]) == "bool"

    cont = []
    for n_ in hir.nodes_deep(prog, ident[0]["body"], 2, crate=c, values=True):
        if n_.get("k") == "Path" and n_["res"].get("k") == "Def" and n_["res"].get("dk") == "Fn" and is_char_pred(n_["res"]["p"]):
            # (the class of the first character - alphabetic - is not the continuation: it is the one handed to a repetition)
            cont.append(n_["res"]["p"])
    # keep only predicates that are handed to an unbounded repetition (take_while / many0 ..) somewhere below Ident::lex
    rep = set()
    for n_ in hir.nodes_deep(prog, ident[0]["body"], 2, crate=c, values=True):
        if n_.get("k") == "Call" and last(hir.callee(n_) or "") in ("take_while", "take_while1", "many0", "many1", "take_till", "fold_many0") and n_["args"]:
            for x_ in hir.nodes_deep(prog, n_["args"][0], 1, crate=c, values=True):
                if x_.get("k") == "Path" and x_["res"].get("k") == "Def" and x_["res"].get("dk") == "Fn" and is_char_pred(x_["res"]["p"]):
                    rep.add(x_["res"]["p"])
    cont = sorted(rep) if rep else sorted(set(cont))
    out.add("<Ident as Lexer>::lex", "identifier continuation is alpha_numeric0", bool(cont), c.loc(ident[0]["sp"]),
            "continuation class: %s" % cont)
    # the whole-word test: `starts_with(<class>)` calls under the keyword alternatives' look-ahead (`peek`), in the macro
    # expansion or in the helper the alternatives call (sub-lexers `X::lex` are separate alternatives, not descended into)
    n = 0
    bad = None
    no_starts_with = False

    def boundary_tests(root, depth=3, seen=None):
        seen = seen if seen is not None else set()
        for x in hir.nodes(root):
            if x.get("k") == "MethodCall" and x["m"] == "starts_with" and "LocatedSpan" in c.tstr(x["recv"]["t"]):
                yield x
            if depth > 0 and x.get("k") == "Call":
                hb = hir.local_callee_body(prog, x)
                if hb is not None and "impl_trait" not in hb and hb["p"] not in seen and hb["p"].startswith("spl_frontend::lexer"):
                    seen.add(hb["p"])
                    yield from boundary_tests(hb["body"], depth - 1, seen)
            if depth > 0 and x.get("k") == "Path" and x["res"].get("k") == "Def" and x["res"].get("dk") == "Fn":
                # a lexer function named as a value (an alternative group, the boundary parser handed to `peek`)
                hb = prog.body(x["res"].get("rp") or x["res"].get("p") or "")
                if hb is not None and "impl_trait" not in hb and hb["p"] not in seen and hb["p"].startswith("spl_frontend::lexer") and hb["k"] == "fn":
                    seen.add(hb["p"])
                    yield from boundary_tests(hb["body"], depth - 1, seen)

    for m in boundary_tests(lex[0]["body"], 4):
        n += 1
        arg = hir.strip(m["args"][0]) if m["args"] else {}
        d = hir.path_def(arg)
        if not (bool(d) and d["p"] in cont):
            bad = m
    if n:
        out.add("<Token as Lexer>::lex", "keyword boundary uses the identifier continuation class", bad is None,
                c.loc((bad or lex[0])["sp"]),
                "the look-ahead that decides whether a keyword is a whole word uses a different character class than "
                "Ident::lex (%s): text such as `ref_count` or `type1` is split into a keyword and an identifier" % cont)
    else:
        no_starts_with = True
    # ---- the two classes, evaluated over a sample of characters (vlib/charclass.py): (spec) an identifier continues exactly over
    # ASCII letters, ASCII digits and `_` (SPL lexical grammar); (agree) the look-ahead behind a keyword succeeds exactly where an
    # identifier cannot continue, and at the end of the text
    from . import charclass
    ev = charclass.Eval(prog, c)

    def cont_value(ch):
        vs = [ev.pred_fn({"k": "Path", "res": {"k": "Def", "dk": "Fn", "p": p_}, "t": 0, "sp": ident[0]["sp"]}, ch) for p_ in cont]
        if any(v is True for v in vs):
            return True
        return False if vs and all(v is False for v in vs) else None

    spec = lambda ch: ch.isascii() and (ch.isalnum() or ch == "_")
    cvals = {ch: cont_value(ch) for ch in charclass.SAMPLES}
    wrong = sorted(ch for ch, v in cvals.items() if v is not None and v != spec(ch))
    undec = [ch for ch, v in cvals.items() if v is None]
    out.add("<Ident as Lexer>::lex", "an identifier continues exactly over ASCII letters, digits and `_`",
            False if wrong else (None if undec else True), c.loc(ident[0]["sp"]),
            "the identifier continuation class %s differs from the lexical grammar for %r: such an identifier is cut in two (or swallows a "
            "character that is not part of it), and a keyword in front of that character is taken for a whole word"
            % (cont, wrong), ("class",))
    # the boundary parser: second operand of the `terminated(<keyword text>, <boundary>)` of a keyword alternative
    from .rules_tables import lex_order
    _b, order_ = lex_order(prog, Out("x"))
    boundary = None
    for kind_, name_, el in order_ or []:
        if kind_ != "lex_keyword":
            continue
        for x in hir.nodes_deep(prog, el, 2, crate=c):
            if x.get("k") == "Call" and (hir.callee(x) or "").endswith("sequence::terminated") and len(x["args"]) == 2:
                boundary = x["args"][1]
                break
        if boundary is not None:
            break
    if boundary is None and no_starts_with:
        out.missing("whole-word boundary test of the keyword alternatives in Token::lex (`terminated(<keyword>, <boundary>)` / `starts_with(<class>)`)")
    if boundary is not None:
        bvals = {ch: ev.accepts(boundary, ch) for ch in charclass.SAMPLES + [None]}
        bad_b = sorted(repr(ch) for ch, v in bvals.items() if v is not None and (
            (ch is None and v is not True) or (ch is not None and cvals.get(ch) is not None and v == cvals[ch])))
        und_b = [ch for ch, v in bvals.items() if v is None or (ch is not None and cvals.get(ch) is None)]
        out.add("<Token as Lexer>::lex", "a keyword ends exactly where an identifier cannot continue (or the text ends)",
                False if bad_b else (None if und_b else True), c.loc(boundary["sp"]),
                "the look-ahead behind a keyword and the identifier continuation disagree for %s: text such as `if0` or `type_x` is split into a "
                "keyword and another token (a valid program gets syntax errors), or a keyword at the end of the text / in front of that "
                "character is lexed as an identifier" % ", ".join(bad_b), ("class",))
    # character classes are decided on the character itself: `c as u8` cuts off the upper bits, so `Ł` (U+0141) is classified as `A`
    bad = None
    n_cast = 0
    for lb in c.bodies:
        f_ = c.file_of(lb["sp"])
        if not (f_.endswith("lexer.rs") or "/lexer/" in f_) or "/tests" in f_:
            continue
        for cs in hir.nodes(lb["body"], "Cast"):
            src_t = c.tstr(cs["e"]["t"]) if "t" in cs.get("e", {}) else ""
            dst_t = c.tstr(cs["t"]) if "t" in cs else ""
            if src_t == "char" and dst_t in ("u8", "i8"):
                n_cast += 1
                bad = cs
    # ... and its value is its code point: nowhere in the front end is a `char` narrowed to a byte (the value of the character literal
    # `'€'` is 8364, not 172)
    bad_v = None
    for lb in c.bodies:
        f_ = c.file_of(lb["sp"])
        if f_.endswith("lexer.rs") or "/lexer/" in f_ or "/tests" in f_ or not f_.startswith("spl_frontend/src"):
            continue
        for cs in hir.nodes(lb["body"], "Cast"):
            src_t = c.tstr(cs["e"]["t"]) if "t" in cs.get("e", {}) else ""
            dst_t = c.tstr(cs["t"]) if "t" in cs else ""
            if src_t == "char" and dst_t in ("u8", "i8", "u16", "i16"):
                bad_v = (lb, cs)
    out.add("front end", "the value of a character is its code point (no `char as u8`)", bad_v is None,
            c.loc(bad_v[1]["sp"]) if bad_v else "", "`c as u8` in `%s`: every character outside Latin-1 gets the value of an unrelated "
            "character (`'€'` = 172)" % (bad_v[0]["d"] if bad_v else ""), ("charvalue",))
    out.add("lexer character classes", "no character is narrowed to a byte before it is classified", bad is None,
            c.loc(bad["sp"]) if bad else c.loc(ident[0]["sp"]),
            "`c as u8` keeps only the low 8 bits: `Ł` (U+0141) becomes `A`, so non-ASCII letters are accepted inside identifiers and end "
            "keywords differently than the lexical grammar says")
    return out


# ------------------------------------------------------------------ SEND-AWAIT

def rule_send_await(prog):
    """Every message put on a channel is awaited until accepted: no lossy try_send on the response/diagnostics path."""
    out = Out("SEND-AWAIT")
    c = prog.lsp
    n = 0
    for b in c.bodies:
        if "/tests" in c.file_of(b["sp"]) or "_serde" in b["d"]:
            continue
        for m, parents in hir.walk(b["body"]):
            if m.get("k") != "MethodCall":
                continue
            rt = c.tstr(m["recv"]["t"])
            for a in m["recv"].get("adj") or []:
                rt = c.tstr(a["to"])
            if "mpsc::Sender<" not in rt and "mpsc::bounded::Sender<" not in rt:
                continue
            if m["m"] in ("clone",):
                continue
            n += 1
            awaited = bool(parents) and parents[-1].get("k") == "Await"
            ok = m["m"] == "send" and awaited
            out.add(b["d"], "channel send is `send(..).await`", ok, c.loc(m["sp"]),
                    "`%s` on a bounded channel can drop the message when the channel is full (burst of changes): the last "
                    "diagnostics/response may never be delivered" % m["m"])
    if n < 8:
        out.missing("mpsc sender uses (found %d)" % n)
    # order: what is taken out of a channel is passed on in the order it came.  A collection of protocol messages (or document
    # requests) that is emptied from its end, reversed, sorted or pruned changes the order of responses / notifications
    REORDER = ("pop", "rev", "reverse", "sort", "sort_by", "sort_by_key", "sort_unstable", "sort_unstable_by", "sort_unstable_by_key",
               "swap_remove", "swap", "rotate_left", "rotate_right", "retain", "dedup", "dedup_by", "dedup_by_key", "pop_back", "split_off")
    bad = None
    for b in c.bodies:
        if "/tests" in c.file_of(b["sp"]) or "_serde" in b["d"]:
            continue
        for m in hir.nodes(b["body"], "MethodCall"):
            r_ = hir.strip(m["recv"])
            t_ = (c.tstr(r_["t"]) + "".join(c.tstr(a_["to"]) for a_ in r_.get("adj") or [])).replace(" ", "")
            is_queue = any(("%s<%s" % (col, el)) in t_ for col in ("Vec", "VecDeque", "Drain", "IntoIter")
                           for el in ("io::Message", "io::Response", "io::Notification", "document::DocumentRequest"))
            if is_queue and m["m"] in REORDER and not ("VecDeque<" in t_ and m["m"] == "pop_front"):
                bad = (b, m)
    out.add("message queues", "messages taken from a channel are passed on in the order they came", bad is None,
            c.loc(bad[1]["sp"]) if bad else "", "`.%s()` on a collection of protocol messages in `%s`: a batch that was queued while the "
            "other side was busy is written back to front (or thinned out): responses leave request order, the last diagnostics published are "
            "not the ones of the final content" % (bad[1]["m"] if bad else "", bad[0]["d"] if bad else ""), ("order",))
    # wait: an answer from the other side of a channel is waited for, however long it takes.  A wait that gives up (`timeout`, `try_recv`,
    # `select!` against a timer) answers differently when the broker is busy - with "no such document" behind a burst of changes
    timed = None
    n_wait = 0
    for b in c.bodies:
        if "/tests" in c.file_of(b["sp"]) or "_serde" in b["d"]:
            continue
        for x in hir.nodes(b["body"]):
            if x.get("k") == "Await":
                n_wait += 1
            if x.get("k") == "Call" and (hir.callee(x) or "").startswith("tokio::time::") and last_seg(hir.callee(x) or "") in (
                    "timeout", "timeout_at", "sleep", "sleep_until", "interval"):
                timed = timed or (b, x)
            if x.get("k") == "MethodCall" and x["m"] in ("try_recv", "recv_timeout", "blocking_recv") and "Receiver" in (
                    c.tstr(hir.strip(x["recv"])["t"]) + "".join(c.tstr(a_["to"]) for a_ in hir.strip(x["recv"]).get("adj") or [])):
                timed = timed or (b, x)
    out.add("message queues", "a wait for the other side of a channel does not give up", timed is None,
            c.loc(timed[1]["sp"]) if timed else "", ("%s waits with a time limit / without waiting; " % timed[0]["d"] if timed else "") +
            "a request behind hundreds of pipelined changes is answered when the broker gets to it - an answer that depends on how long that takes "
            "(`null` after one second) is not the answer from the changed document (%d awaits looked at)" % n_wait, ("wait",))
    return out


# ------------------------------------------------------------------ DOC-IN-RANGE

def rule_doc_in_range(prog):
    """Doc comments consumed by a node parser are part of the node's token range (inside `info(..)`): the formatter and
    the table builder find a node's comments by slicing with that range."""
    out = Out("DOC-IN-RANGE")
    c = prog.front
    n = 0
    from . import roles
    comments = roles.comment_parsers(prog)
    for b in c.bodies:
        f_ = c.file_of(b["sp"])
        if not (f_.endswith("src/parser.rs") or "/parser/" in f_) or "/tests" in f_:
            continue
        # the node parsers: Parser::parse impls (with their nested functions) and functions of the parser that yield a node of the tree
        if "parser::Parser>::parse" not in b["d"] and not ("sig_out" in b and "ast::" in c.tstr(b["sig_out"])):
            continue
        for call, parents in hir.walk(b["body"]):
            if call.get("k") != "Call" or not (hir.callee(call) or "").endswith("nom::multi::many0"):
                continue
            d = hir.path_def(call["args"][0]) if call["args"] else None
            if not d or (d.get("rp") or d["p"]) not in comments:
                continue
            # (leaf token nodes included: a node's token range covers its leading comments; what the features report is the *text*
            # range, which AstInfo::to_text_range starts behind them - IDENT-RANGE)
            n += 1
            inside = any(p.get("k") == "Call" and (hir.callee(p) or "").endswith("parser::utility::info") for p in parents)
            if not inside:
                # a parser value that is put together first and used below info(..): `let skipped = tuple((many0(comment), ..)); info(skipped)(input)`
                for p in parents:
                    if p.get("k") == "Let" and p.get("init") is not None and p["pat"].get("k") == "Binding":
                        uses = [(y, yp) for y, yp in hir.walk(b["body"]) if y.get("k") == "Path" and (hir.path_local(y) or {}).get("id") == p["pat"]["id"]]
                        if uses and all(any(q.get("k") == "Call" and (hir.callee(q) or "").endswith("parser::utility::info") for q in yp) for _, yp in uses):
                            inside = True
            out.add(b["d"], "leading comments are consumed inside the node's info(..) range", inside, c.loc(call["sp"]),
                    "`many0(comment)` runs outside `info(..)`: the comments are consumed but lie outside the node's token range, so "
                    "whoever slices with that range (formatter, semantic tokens) never sees them")
    if n < 4:
        out.missing("many0(comment) in node parsers (found %d)" % n)
    return out


# ------------------------------------------------------------------ CHAR-ESCAPES

def rule_char_escapes(prog):
    """Character literals are printed with exactly the escapes the lexer understands."""
    out = Out("CHAR-ESCAPES")
    c = prog.front
    lex = [roles.sub_lexers(prog)["Char"]] if "Char" in roles.sub_lexers(prog) else []
    disp = [b for b in c.bodies if b["d"] == "<tokens::TokenType as std::fmt::Display>::fmt"]
    if not lex or not disp:
        out.missing("Char::lex / Display for TokenType")
        return out
    known = set()
    for call in hir.nodes_deep(prog, lex[0]["body"], 2, crate=c, values=True):
        if call.get("k") == "Call" and (hir.callee(call) or "").endswith("complete::tag") and call["args"]:
            v = hir.lit_value(call["args"][0])
            if v and v.startswith("\\"):
                known.add(v)
    out.add("<Char as Lexer>::lex", "lexer escape table extracted", bool(known), c.loc(lex[0]["sp"]), "escapes: %s" % sorted(known))
    TT = "spl_frontend::tokens::TokenType::Char"
    arm = None
    for m in hir.nodes_deep(prog, disp[0]["body"], 1, crate=c):
        if m.get("k") != "Match":
            continue
        for a in m["arms"]:
            for alt in hir.pat_alternatives(a["pat"]):
                if hir.pat_variant(alt) == TT:
                    arm = a
    if arm is None:
        out.missing("Char arm of Display for TokenType")
        return out
    emitted = set()
    arm_nodes = list(hir.nodes_deep(prog, arm["body"], 1, crate=c))
    for l in [x_ for x_ in arm_nodes if x_.get("k") == "Lit"]:
        v = l["lit"].get("v") or ""
        if l["lit"]["k"] == "str":
            i = v.find("\\")
            while i >= 0 and i + 1 < len(v):
                emitted.add(v[i:i + 2])
                i = v.find("\\", i + 2)
    esc_calls = [m_ for m_ in arm_nodes if m_.get("k") == "MethodCall" and m_["m"].startswith("escape_")]
    # `{:?}` of a char applies Rust's escape_debug (\t, \r, \', \\, \u{..}), far more than the lexer's table
    for call in [x_ for x_ in arm_nodes if x_.get("k") == "Call"]:
        if (hir.callee(call) or "").endswith("::new_debug") and call["args"] and c.tstr(call["args"][0]["t"]).replace("&", "").strip() == "char":
            esc_calls.append({"m": "Debug for char (`{:?}`), i.e. escape_debug"})
    out.add("Display for TokenType", "Char is printed with escapes the lexer knows", emitted <= known and not esc_calls, c.loc(arm["sp"]),
            "printer emits %s%s, lexer accepts %s: a formatted character literal must lex back to the same character"
            % (sorted(emitted), " and calls %s()" % esc_calls[0]["m"] if esc_calls else "", sorted(known)))
    return out


# ------------------------------------------------------------------ INDEX-ELEM

def rule_index_elem(prog):
    """Handlers never index a vector element with a computed index (request/document dependent): use get()."""
    out = Out("INDEX-ELEM")
    c = prog.lsp
    n = 0
    for b in c.bodies:
        if not b["p"].startswith("lsp4spl::features") or "/tests" in c.file_of(b["sp"]) or b["k"] not in ("fn", "assoc_fn"):
            continue
        defs_ix = {l_["pat"]["id"]: l_["init"] for l_ in hir.nodes(b["body"], "Let") if l_["pat"].get("k") == "Binding" and l_.get("init") is not None}
        # (`match found { Some(index) => v[index], .. }` / `if let Some(index) = found`: the binding holds what was searched)
        for m_ in hir.nodes(b["body"]):
            if m_.get("k") == "Match":
                for a_ in m_["arms"]:
                    pt_ = hir.pat_strip(a_["pat"])
                    if pt_.get("k") == "TupleStruct" and len(pt_["pats"]) == 1 and hir.pat_strip(pt_["pats"][0]).get("k") == "Binding" and \
                            (hir.pat_variant(pt_) or "").endswith("Option::Some"):
                        defs_ix.setdefault(hir.pat_strip(pt_["pats"][0])["id"], m_["scrut"])
            elif m_.get("k") in ("LetExpr", "Let") and m_.get("init") is not None and m_.get("pat"):
                pt_ = hir.pat_strip(m_["pat"])
                if pt_.get("k") == "TupleStruct" and len(pt_["pats"]) == 1 and hir.pat_strip(pt_["pats"][0]).get("k") == "Binding" and \
                        (hir.pat_variant(pt_) or "").endswith("Option::Some"):
                    defs_ix.setdefault(hir.pat_strip(pt_["pats"][0])["id"], m_["init"])

        def searched_in(e_, vec_place, depth=0):
            """is e_ an index that was found by searching the very vector that is indexed (`v.iter().position(..)`, also through a
            local helper that is handed v, also unwrapped with `?`)"""
            e_ = hir.strip(e_)
            if depth > 4:
                return False
            if e_.get("k") == "Try":
                return searched_in(e_["e"], vec_place, depth + 1)
            pl_ = hir.path_local(e_)
            if pl_ and pl_["id"] in defs_ix:
                return searched_in(defs_ix[pl_["id"]], vec_place, depth + 1)
            if e_.get("k") == "MethodCall" and e_["m"] in ("position", "rposition"):
                r_ = hir.strip(e_["recv"])
                while r_.get("k") == "MethodCall" and r_["m"] in ("iter", "into_iter", "enumerate", "rev", "as_slice"):
                    r_ = hir.strip(r_["recv"])
                return place(hir.strip_ref(r_)) == vec_place
            if e_.get("k") == "Call":
                hb_ = hir.local_callee_body(prog, e_)
                if hb_ is not None and hb_["_crate"] is c and len(hb_["params"]) == len(e_["args"]):
                    tail_ = hir.strip(hb_["body"])
                    tail_ = hir.strip(tail_["b"]["expr"]) if tail_.get("k") == "BlockExpr" and tail_["b"].get("expr") is not None else tail_
                    if tail_.get("k") == "MethodCall" and tail_["m"] in ("position", "rposition"):
                        r_ = hir.strip(tail_["recv"])
                        while r_.get("k") == "MethodCall" and r_["m"] in ("iter", "into_iter", "enumerate", "rev", "as_slice"):
                            r_ = hir.strip(r_["recv"])
                        rp_ = hir.path_local(hir.strip_ref(r_))
                        for j_, q_ in enumerate(hb_["params"]):
                            if rp_ and q_.get("k") == "Binding" and q_["id"] == rp_["id"]:
                                return place(hir.strip_ref(hir.strip(e_["args"][j_]))) == vec_place
            return False

        def counted_over(body_, idx_id, vec_place):
            """the local idx_id runs over `0..v.len()` of the very vector that is indexed (`for i in 0..v.len()`,
            `(0..v.len()).filter_map(|i| ..)`), or is the counter of `v.iter().enumerate()`"""
            def is_len_range(e_):
                e_ = hir.strip(e_)
                if e_.get("k") == "Struct" and (e_.get("adt") or "") == "core::ops::range::Range":
                    f_ = {x_["name"]: x_["e"] for x_ in e_["fields"]}
                    end_ = hir.strip(f_.get("end") or {})
                    return end_.get("k") == "MethodCall" and end_["m"] == "len" and place(hir.strip_ref(hir.strip(end_["recv"]))) == vec_place
                return False
            for n_ in hir.nodes(body_["body"]):
                if n_.get("k") == "ForLoop" and is_len_range(n_["iter"]) and any(bd["id"] == idx_id for bd in hir.pat_bindings(n_["pat"])):
                    return True
                if n_.get("k") == "MethodCall" and is_len_range(n_["recv"]):
                    for a_ in n_["args"]:
                        a_ = hir.strip(a_)
                        if a_.get("k") == "Closure" and len(a_.get("params") or []) == 1 and \
                                any(bd["id"] == idx_id for bd in hir.pat_bindings(a_["params"][0])):
                            return True
            return False

        def param_sites_ok(ix_):
            """`v[i]` with v and i both parameters: decided at the call sites -> True / None"""
            vl_, il_ = hir.path_local(hir.strip_ref(hir.strip(ix_["base"]))), hir.path_local(hir.strip(ix_["idx"]))
            pids_ = [q_["id"] if q_.get("k") == "Binding" else None for q_ in b["params"]]
            if not vl_ or not il_ or vl_["id"] not in pids_ or il_["id"] not in pids_:
                return False
            vi_, ii_ = pids_.index(vl_["id"]), pids_.index(il_["id"])
            sites_ = []
            for y in c.bodies:
                if "/tests" in c.file_of(y["sp"]) or y["k"] not in ("fn", "assoc_fn"):
                    continue
                for cl_ in hir.nodes(y["body"], "Call"):
                    if hir.callee(cl_) == b["p"] and len(cl_["args"]) == len(pids_):
                        sites_.append((y, cl_))
            if not sites_:
                return None
            for y, cl_ in sites_:
                ia_ = hir.path_local(hir.strip(cl_["args"][ii_]))
                vp2_ = place(hir.strip_ref(hir.strip(cl_["args"][vi_])))
                if not ia_ or not vp2_ or not counted_over(y, ia_["id"], vp2_):
                    return None
            return True

        for ix, ix_parents in hir.walk(b["body"]):
            if ix.get("k") != "Index":
                continue
            it = c.ty(ix["idx"]["t"])
            n += 1
            is_range = it["k"] == "adt" and it["p"].startswith("core::ops::range::")
            lit = hir.lit_value(ix["idx"]) is not None
            if not (is_range or lit):
                vp_ = place(hir.strip_ref(hir.strip(ix["base"])))
                ip_ = place(hir.strip_ref(hir.strip(ix["idx"])))
                # bounded by the condition of the enclosing loop / branch: `while i < v.len() { .. v[i] .. }`
                for pr_ in ix_parents:
                    cnd_ = hir.strip(pr_.get("cond") or {}) if pr_.get("k") in ("While", "If") else {}
                    if cnd_.get("k") == "Binary" and cnd_["op"] == "<" and ip_ and place(hir.strip_ref(hir.strip(cnd_["l"]))) == ip_:
                        r_ = hir.strip(cnd_["r"])
                        if r_.get("k") == "MethodCall" and r_["m"] == "len" and place(hir.strip_ref(hir.strip(r_["recv"]))) == vp_ and vp_:
                            lit = True
                if vp_ and searched_in(ix["idx"], vp_):
                    lit = True
                il0_ = hir.path_local(hir.strip(ix["idx"]))
                if vp_ and il0_ and counted_over(b, il0_["id"], vp_):
                    lit = True
                if not lit:
                    ps_ = param_sites_ok(ix)
                    if ps_ is True:
                        lit = True
                    elif ps_ is None:
                        lit = None
            out.add(b["d"], "vectors are sliced by ranges, never element-indexed with a computed index", (is_range or lit) if lit is not None else None, c.loc(ix["sp"]),
                    "`v[i]` with a computed index panics when the index is out of bounds; in a handler the index depends on the "
                    "document and the cursor (e.g. more commas than parameters), and a panic kills the server")
    if n < 10:
        out.missing("index expressions in feature handlers (found %d)" % n)
    return out


# ------------------------------------------------------------------ INDEX-DOMAIN

def rule_index_domain(prog):
    """An index counts positions of the sequence it was found in.  `v.iter().filter(..).position(..)` counts in the filtered view:
    used to index or cut `v` itself it names another element as soon as the filter removed something in front of it."""
    out = Out("INDEX-DOMAIN")
    DISTORT = ("filter", "filter_map", "skip", "skip_while", "step_by", "chain", "flat_map", "flatten", "dedup", "dedup_by_key")
    NEUTRAL = ("iter", "into_iter", "iter_mut", "enumerate", "as_slice", "peekable", "by_ref", "copied", "cloned", "map", "inspect",
               "take", "take_while", "map_while", "fuse")
    n = 0
    for c in (prog.lsp, prog.front):
        for b in c.bodies:
            if "/tests" in c.file_of(b["sp"]) or c.file_of(b["sp"]).endswith("tests.rs"):
                continue
            for pos, parents in hir.walk(b["body"]):
                is_enum = pos.get("k") == "MethodCall" and pos["m"] == "enumerate"
                if pos.get("k") != "MethodCall" or not ((pos["m"] in ("position", "rposition") and pos.get("args")) or is_enum):
                    continue
                r_ = hir.strip(pos["recv"])
                chain = []
                while r_.get("k") == "MethodCall" and r_["m"] in DISTORT + NEUTRAL + ("rev",):
                    chain.append(r_["m"])
                    r_ = hir.strip(r_["recv"])
                base = place(hir.strip_ref(r_))
                n += 1
                distorted = [m_ for m_ in chain if m_ in DISTORT]
                item = b["d"]
                if not distorted:
                    out.add(item, "an index is used with the sequence it was counted in", True, c.loc(pos["sp"]),
                            "position() over the sequence itself")
                    continue
                # the locals that hold the index
                ids = set()
                if is_enum:
                    # `(i, x)` in the closures of the adaptors behind enumerate() and in the pattern of a `for` over it
                    child = pos
                    for pr in reversed(list(parents)):
                        if pr.get("k") == "MethodCall" and any(x is child for x in hir.nodes(pr["recv"])):
                            for a_ in pr.get("args") or []:
                                a_ = hir.strip(a_)
                                if a_.get("k") == "Closure":
                                    for q_ in a_.get("params", []):
                                        q2 = hir.pat_strip(q_)
                                        if q2.get("k") == "Tuple" and q2.get("pats"):
                                            for bd in hir.pat_bindings(q2["pats"][0]):
                                                ids.add(bd["id"])
                            child = pr
                        elif pr.get("k") == "ForLoop" and pr.get("pat") is not None:
                            q2 = hir.pat_strip(pr["pat"])
                            if q2.get("k") == "Tuple" and q2.get("pats"):
                                for bd in hir.pat_bindings(q2["pats"][0]):
                                    ids.add(bd["id"])
                            break
                        elif pr.get("k") in ("Paren", "DropTemps", "AddrOf", "Call", "Match", "BlockExpr", "Block"):
                            # (a `for` loop is lowered to `match IntoIterator::into_iter(<iter>) { .. loop { .. } }`)
                            child = pr
                            continue
                        else:
                            break
                elif parents:
                    pr = parents[-1]
                    if pr.get("k") == "MethodCall" and any(x is pos for x in hir.nodes(pr["recv"])) and pr.get("args"):
                        for a_ in pr["args"]:
                            a_ = hir.strip(a_)
                            if a_.get("k") == "Closure":
                                for q_ in a_.get("params", []):
                                    for bd in hir.pat_bindings(q_):
                                        ids.add(bd["id"])
                for x in hir.nodes(b["body"]):
                    src_, pat_ = None, None
                    if x.get("k") == "Let" and x.get("init") is not None:
                        src_, pat_ = x["init"], x["pat"]
                    elif x.get("k") == "LetExpr":
                        src_, pat_ = x.get("init") or x.get("e"), x["pat"]
                    if src_ is None or pat_ is None:
                        continue
                    s_ = hir.strip(src_)
                    while s_.get("k") in ("Try",) or (s_.get("k") == "MethodCall" and s_["m"] in ("unwrap", "unwrap_or", "unwrap_or_default", "expect", "unwrap_or_else")):
                        s_ = hir.strip(s_["e"] if s_.get("k") == "Try" else s_["recv"])
                    if s_ is pos:
                        for bd in hir.pat_bindings(pat_):
                            ids.add(bd["id"])
                if not ids or base is None:
                    out.add(item, "an index is used with the sequence it was counted in", None, c.loc(pos["sp"]),
                            "position() behind `%s`: where the index goes was not followed" % distorted[0])
                    continue
                bad = None
                for x in hir.nodes(b["body"]):
                    if x.get("k") == "Index" and place(hir.strip_ref(hir.strip(x["base"]))) == base and \
                            any((hir.path_local(y) or {}).get("id") in ids for y in hir.nodes(x["idx"], "Path")):
                        bad = x
                    if x.get("k") in ("Call", "MethodCall"):
                        args = list(x.get("args") or []) + ([x["recv"]] if x.get("k") == "MethodCall" else [])
                        has_base = any(place(hir.strip_ref(hir.strip(a_))) == base for a_ in args)
                        has_idx = any((hir.path_local(hir.strip_ref(hir.strip(a_))) or {}).get("id") in ids for a_ in args)
                        if has_base and has_idx and (hir.local_callee_body(prog, x) is not None or
                                                     (x.get("k") == "MethodCall" and x["m"] in ("get", "get_mut", "split_at", "nth", "swap", "remove", "insert"))):
                            bad = x
                out.add(item, "an index is used with the sequence it was counted in", bad is None, c.loc((bad or pos)["sp"]),
                        "the index is counted behind `.%s(..)` but used on `%s` itself: with two comment lines in front of the cursor the token "
                        "that is looked at is two tokens further on, a parameter behind a two-line file header is resolved in the global "
                        "scope only (hover answers nothing)" % (distorted[0], base), ("domain",))
    if n == 0:
        out.add("features", "an index is used with the sequence it was counted in", True, "", "no position() search")
    return out


# ------------------------------------------------------------------ DECL-SEARCH

def rule_decl_search(prog):
    """Every global declaration is looked at when a feature searches the declarations of a document: an adaptor that ends the iteration
    at the first declaration with a certain *content* (`map_while(|gd| name_of(gd))`, `take_while(|gd| !is_error(gd))`) cuts off every
    declaration behind a damaged one - they are still parsed and in the table, but no longer navigable."""
    out = Out("DECL-SEARCH")
    c = prog.lsp
    ENDING = ("map_while", "take_while", "scan", "take", "skip_while", "skip", "step_by")
    n = 0
    bad = None
    for b in c.bodies:
        if "/tests" in c.file_of(b["sp"]) or not b["p"].startswith("lsp4spl::features"):
            continue
        for mc, parents in hir.walk(b["body"]):
            if mc.get("k") != "MethodCall" or mc["m"] not in ENDING:
                continue
            # rooted at `<program>.global_declarations`?
            r_ = hir.strip_ref(mc["recv"])
            rooted = False
            while r_.get("k") == "MethodCall":
                r_ = hir.strip_ref(r_["recv"])
            if r_.get("k") == "Field" and r_["name"] == "global_declarations":
                rooted = True
            pl_ = hir.path_local(r_)
            if pl_:
                for l_ in hir.nodes(b["body"], "Let"):
                    if l_["pat"].get("k") == "Binding" and l_["pat"]["id"] == pl_["id"] and l_.get("init") is not None and \
                            any(f_.get("k") == "Field" and f_["name"] == "global_declarations" for f_ in hir.nodes(l_["init"])):
                        rooted = True
            if not rooted:
                continue
            n += 1
            # what does the adaptor decide on?  The content of a declaration (its name, its variant), or something else (a position)
            content = False
            for a_ in mc.get("args") or []:
                for x in hir.nodes_deep(prog, a_, 2, crate=c, values=True):
                    if x.get("k") == "Field" and x["name"] == "name":
                        content = True
                    pats = [q["pat"] for q in x["arms"]] if x.get("k") == "Match" else [x["pat"]] if x.get("k") == "LetExpr" else []
                    if any("ast::GlobalDeclaration::" in v for pt in pats for v in hir.pat_variants_all(pt)):
                        content = True
            if (content or mc["m"] in ("take", "skip", "step_by")) and bad is None:
                bad = (b, mc)
    for b in c.bodies:
        if "/tests" in c.file_of(b["sp"]) or not b["p"].startswith("lsp4spl::features"):
            continue
        n += sum(1 for f_ in hir.nodes(b["body"], "Field") if f_["name"] == "global_declarations")
    if n == 0:
        out.missing("uses of Program.global_declarations in lsp4spl::features")
        return out
    out.add("features", "a search over the global declarations looks at every declaration", bad is None,
            c.loc(bad[1]["sp"]) if bad else "", ("`.%s(..)` in %s ends the iteration at the first declaration whose content says so; " % (bad[1]["m"], bad[0]["d"]) if bad else "") +
            "a declaration that lost its name (a token pushed out of a type declaration, a deleted name) ends the search for the declaration "
            "around the cursor: go-to, hover, references and rename answer nothing in every intact declaration behind it (%d uses looked at)" % n)
    return out


# ------------------------------------------------------------------ REQ-PURE

def rule_req_pure(prog):
    """Signature help is a function of the document and the position: the handler reads the position part of its parameters and nothing
    else.  The request *context* (how the client came to ask: typed trigger character, retrigger, what it is showing at the moment) says
    nothing about how many commas stand between the parenthesis and the cursor."""
    out = Out("REQ-PURE")
    c = prog.lsp
    hs = [b for b in c.bodies if b["p"].startswith("lsp4spl::features::signature_help") and "/tests" not in c.file_of(b["sp"]) and
          b["k"] in ("fn", "assoc_fn") and any("SignatureHelpParams" in c.tstr(pp["bt"]) for q in b["params"] for pp in hir.pat_bindings(q))]
    if not hs:
        out.missing("signature help handler (a function of features::signature_help that takes SignatureHelpParams)")
        return out
    for b in hs:
        bad = None
        for x in hir.nodes_deep(prog, b["body"], 2, crate=c):
            if x.get("k") == "Field" and x["name"] == "context":
                t_ = c.tstr(hir.strip(x["base"])["t"]) + "".join(c.tstr(a_["to"]) for a_ in hir.strip(x["base"]).get("adj") or [])
                if "SignatureHelpParams" in t_:
                    bad = x
            # (taken apart by a pattern)
            pats = [x["pat"]] if x.get("k") in ("Let", "LetExpr") and x.get("pat") else [a_["pat"] for a_ in x["arms"]] if x.get("k") == "Match" else []
            for pt in pats:
                for sp_ in _struct_pats(pt):
                    if "SignatureHelpParams" in str((sp_.get("res") or {}).get("p") or "") and any(
                            f_["name"] == "context" and hir.pat_strip(f_["pat"]).get("k") != "Wild" for f_ in sp_.get("fields") or []):
                        bad = x
        out.add(b["d"], "the answer does not depend on the request context", bad is None, c.loc((bad or b)["sp"]),
                "the handler reads `params.context`: the active parameter is the number of commas between the opening parenthesis and the "
                "cursor however the request came about - with a shortcut for a typed `(`, a parenthesis typed inside the second argument "
                "answers parameter 0")
    # the count itself: the loop that counts the commas in front of the cursor reacts to no other kind of token (a `)` of a
    # parenthesised argument expression does not end the argument list, a `(` does not restart the count)
    TT_ = "spl_frontend::tokens::TokenType::"
    n_cnt = 0
    for b in c.bodies:
        if not b["p"].startswith("lsp4spl::features::signature_help") or "/tests" in c.file_of(b["sp"]) or b["k"] not in ("fn", "assoc_fn"):
            continue
        for loop in hir.nodes(b["body"]):
            if loop.get("k") not in ("ForLoop", "While", "Loop", "Closure"):
                continue
            body_ = loop["body"]
            # counts commas: `+= 1` under a test for TokenType::Comma
            counts = False
            tests = []   # (variants, effect node)
            for x, ps in hir.walk(body_):
                if x.get("k") == "Match":
                    for a_ in x["arms"]:
                        vs_ = [v_ for v_ in hir.pat_variants_all(a_["pat"]) if v_.startswith(TT_)]
                        if vs_:
                            tests.append((vs_, a_["body"]))
                elif x.get("k") == "If" and hir.strip(x["cond"]).get("k") == "LetExpr":
                    vs_ = [v_ for v_ in hir.pat_variants_all(hir.strip(x["cond"])["pat"]) if v_.startswith(TT_)]
                    if vs_:
                        tests.append((vs_, x["then"]))
                elif x.get("k") == "If":
                    # `if matches!(token.token_type, TokenType::Comma) { .. }`: the matches! is a Match with literal arms in the condition
                    for m_ in hir.nodes(x["cond"], "Match"):
                        for a_ in m_["arms"]:
                            vs_ = [v_ for v_ in hir.pat_variants_all(a_["pat"]) if v_.startswith(TT_)]
                            if vs_ and hir.lit_value(a_["body"]) is True:
                                tests.append((vs_, x["then"]))
            for vs_, eff in tests:
                if TT_ + "Comma" in vs_ and any(y.get("k") == "AssignOp" and y.get("op") in ("+=", "Add") for y in hir.nodes(eff)):
                    counts = True
            if not counts:
                continue
            n_cnt += 1
            other = None
            for vs_, eff in tests:
                if any(v_ != TT_ + "Comma" for v_ in vs_) and any(
                        y.get("k") in ("Ret", "Break", "Continue", "Assign", "AssignOp") for y in hir.nodes(eff)):
                    other = other or (vs_, eff)
            out.add(b["d"], "the comma count reacts to commas only", other is None, c.loc((other[1] if other else loop)["sp"]),
                    ("tokens of kind %s change the count or end it; " % [v_.rsplit("::", 1)[-1] for v_ in other[0]] if other else "") +
                    "the active parameter is the number of commas between the opening parenthesis and the cursor: behind a parenthesised "
                    "argument expression (`f((a + 1) * 2, |b)`) another answer is wrong", ("commas",))
            break
    if n_cnt < 1:
        # iterator form: `tokens.iter().take_while(..).filter(|t| matches!(t.token_type, TokenType::Comma)).count()` (or a fold)
        def _tt_variants(root):
            vs_ = []
            for x in hir.nodes(root):
                pats_ = [a_["pat"] for a_ in x["arms"]] if x.get("k") == "Match" else [x["pat"]] if x.get("k") == "LetExpr" and x.get("pat") else []
                for pt in pats_:
                    vs_ += [v_ for v_ in hir.pat_variants_all(pt) if v_.startswith(TT_)]
            return vs_
        for b in c.bodies:
            if not b["p"].startswith("lsp4spl::features::signature_help") or "/tests" in c.file_of(b["sp"]) or b["k"] not in ("fn", "assoc_fn"):
                continue
            for x, ps in hir.walk(b["body"]):
                if x.get("k") != "MethodCall" or x["m"] not in ("filter", "filter_map") or not x["args"]:
                    continue
                if TT_ + "Comma" not in _tt_variants(x["args"][0]):
                    continue
                # the whole chain this adaptor is part of
                top = x
                for q_ in reversed(ps):
                    if q_.get("k") == "MethodCall" and any(z_ is top for z_ in hir.nodes(q_["recv"])):
                        top = q_
                    elif q_.get("k") not in ("Paren",):
                        break
                if not any(z_.get("k") == "MethodCall" and z_["m"] in ("count", "fold", "sum") for z_ in hir.nodes(top)):
                    continue
                n_cnt += 1
                other = [v_ for cl_ in hir.nodes(top, "Closure") for v_ in _tt_variants(cl_) if v_ != TT_ + "Comma"]
                out.add(b["d"], "the comma count reacts to commas only", not other, c.loc(x["sp"]),
                        ("tokens of kind %s cut or filter the count; " % sorted(set(v_.rsplit("::", 1)[-1] for v_ in other)) if other else "") +
                        "the active parameter is the number of commas between the opening parenthesis and the cursor: behind a parenthesised "
                        "argument expression (`f((a + 1) * 2, |b)`) another answer is wrong", ("commas",))
    if n_cnt < 1:
        out.missing("the code of features::signature_help that counts commas (found %d)" % n_cnt)
    return out


def _struct_pats(p):
    p = hir.pat_strip(p)
    if not isinstance(p, dict):
        return
    if p.get("k") == "Struct":
        yield p
    for q in p.get("pats") or []:
        for y in _struct_pats(q):
            yield y
    for f in p.get("fields") or []:
        for y in _struct_pats(f.get("pat")):
            yield y
    if isinstance(p.get("sub"), dict):
        for y in _struct_pats(p["sub"]):
            yield y
    if isinstance(p.get("pat"), dict):
        for y in _struct_pats(p["pat"]):
            yield y


# ------------------------------------------------------------------ ONE-PER-ITEM

def rule_one_per_item(prog):
    """fold(): exactly one FoldingRange per procedure: the per-procedure `map` is 1:1 over a filter that keeps exactly the
    Procedure variant, and nothing removes elements afterwards."""
    out = Out("ONE-PER-ITEM")
    c = prog.lsp
    b = prog.body("lsp4spl::features::fold::fold")
    if b is None:
        out.missing("features::fold::fold")
        return out
    # which declaration variants produce a range: match arms / `if let` heads on GlobalDeclaration whose guarded code
    # yields something (Some(..) in a filter_map, a push, or the FoldingRange literal itself - also through a helper)
    GD = "spl_frontend::ast::GlobalDeclaration::"

    def productive(node):
        for x in hir.nodes_deep(prog, node, 2, crate=c):
            if x.get("k") == "Path" and last(x["res"].get("ctor_of", "")) == "Some":
                return True
            if x.get("k") == "MethodCall" and x["m"] in ("push", "extend", "insert"):
                return True
            if x.get("k") == "Struct" and (x.get("adt") or "").endswith("FoldingRange"):
                return True
        return False

    kept = set()
    n_pats = 0
    for n in hir.nodes(b["body"]):
        if n.get("k") == "Match" and n.get("src") == "match":
            for arm in n["arms"]:
                vs = [v for v in hir.pat_variants_all(arm["pat"]) if v.startswith(GD)]
                n_pats += len(vs)
                if vs and productive(arm["body"]):
                    kept |= set(last(v) for v in vs)
                if not vs and hir.is_wild(arm["pat"]) and productive(arm["body"]) and any(
                        v.startswith(GD) for a2 in n["arms"] for v in hir.pat_variants_all(a2["pat"])):
                    kept.add("_")
        elif n.get("k") == "If":
            for le in hir.nodes(n["cond"], "LetExpr"):
                vs = [v for v in hir.pat_variants_all(le["pat"]) if v.startswith(GD)]
                n_pats += len(vs)
                if vs and productive(n["then"]):
                    kept |= set(last(v) for v in vs)
                if vs and n.get("else") and productive(n["else"]):
                    kept.add("_")
    ok = (kept == {"Procedure"}) if n_pats else None
    out.add("features::fold::fold", "the filter keeps exactly the Procedure declarations", ok, c.loc(b["sp"]), "")
    removing = ("dedup", "dedup_by", "dedup_by_key", "retain", "retain_mut", "truncate", "drain", "pop", "remove", "swap_remove",
                "clear", "filter", "take", "skip", "step_by", "take_while", "skip_while", "split_off")
    bad = [m for m in hir.nodes(b["body"], "MethodCall") if m["m"] in removing and
           ("FoldingRange" in c.tstr(m["recv"]["t"]) or any("FoldingRange" in c.tstr(a["to"]) for a in m["recv"].get("adj") or []))]
    # adaptors between the per-procedure map and collect
    chain_bad = []
    for m in hir.nodes(b["body"], "MethodCall"):
        if m["m"] == "collect":
            cur = hir.strip(m["recv"])
            seen_map = False
            while cur.get("k") == "MethodCall":
                if cur["m"] == "map":
                    seen_map = True
                elif cur["m"] in ("filter_map",):
                    break
                elif cur["m"] in removing or cur["m"] in ("flat_map", "flatten", "chain", "zip"):
                    chain_bad.append(cur)
                cur = hir.strip(cur["recv"])
    out.add("features::fold::fold", "no folding range is removed or merged after it was computed", not bad and not chain_bad,
            c.loc((bad + chain_bad)[0]["sp"]) if (bad or chain_bad) else c.loc(b["sp"]),
            "`%s` drops ranges: procedures that share a line with their neighbour lose their folding range" % ((bad + chain_bad)[0]["m"] if (bad or chain_bad) else ""))
    fr = [s_ for s_ in hir.nodes_deep(prog, b["body"], 2, crate=c) if s_.get("k") == "Struct" and (s_.get("adt") or "").endswith("FoldingRange")]
    out.add("features::fold::fold", "one FoldingRange literal, built per procedure", len(fr) == 1, c.loc(b["sp"]), "found %d" % len(fr))
    return out


# ------------------------------------------------------------------ COMMENT-LEX

# What the nom character-class combinators the lexer may build a comment from do (nom 7, `complete` flavour).
#   body combinators:   (stop set or a function computing it from the call, total?)  total = cannot fail
#   closing combinators: the set of terminators accepted; "EOF" = end of input
def _closure_stop_set(clo):
    """`|c| c == 'x'` (or `'x' == c`, or matches!(c, 'x' | 'y')) -> {'x', ..}; None if not understood"""
    clo = hir.strip(clo)
    if clo.get("k") == "Path" and _PROG_U.get("prog") is not None:
        # a named predicate `fn is_line_break(c: char) -> bool { c == '\n' || c == '\r' }`
        d_ = hir.path_def(clo)
        fb_ = _PROG_U["prog"].body((d_ or {}).get("rp") or (d_ or {}).get("p") or "")
        if fb_ is not None and len(fb_["params"]) == 1 and not hir.strip(fb_["body"]).get("k") == "BlockExpr":
            clo = {"k": "Closure", "params": fb_["params"], "body": fb_["body"]}
    if clo.get("k") != "Closure" or len(clo.get("params") or []) != 1:
        return None
    body = hir.strip(clo["body"])
    if body.get("k") == "Binary" and body["op"] == "==":
        for a, b_ in ((body["l"], body["r"]), (body["r"], body["l"])):
            if hir.path_local(hir.strip_ref(a)) and hir.lit_value(hir.strip(b_)) is not None:
                return {hir.lit_value(hir.strip(b_))}
    if body.get("k") == "Binary" and body["op"] == "||":
        l = _closure_stop_set({"k": "Closure", "params": clo["params"], "body": body["l"]})
        r = _closure_stop_set({"k": "Closure", "params": clo["params"], "body": body["r"]})
        return (l | r) if l is not None and r is not None else None
    return None


def _body_class(e):
    """-> (stop set, total) of a `consume the comment text` combinator, or None"""
    e = hir.strip(e)
    if e.get("k") != "Call":
        if e.get("k") == "Path" and (hir.path_def(e) or {}).get("p", "").endswith("character::complete::not_line_ending"):
            return {"\n", "\r"}, False      # fails on a `\r` that is not followed by `\n`
        return None
    cal = hir.callee(e) or ""
    if cal.endswith("::take_till") and e["args"]:
        s = _closure_stop_set(e["args"][0])
        return (s, True) if s is not None else None
    if cal.endswith("::take_till1") and e["args"]:
        s = _closure_stop_set(e["args"][0])
        return (s, False) if s is not None else None       # fails on an empty comment
    if cal.endswith("::take_until") and e["args"]:
        v = hir.lit_value(hir.strip(e["args"][0]))
        return ({v[0]}, False) if v else None               # fails when the pattern never comes (last line)
    if cal.endswith("::is_not") and e["args"]:
        v = hir.lit_value(hir.strip(e["args"][0]))
        return (set(v), False) if v else None               # fails on an empty comment
    return None


_PROG_U = {}


def _closer_set(e, _depth=0):
    """set of terminators a closing combinator accepts ("EOF" for end of input), or None"""
    e = hir.strip(e)
    d = hir.path_def(e) if e.get("k") == "Path" else None
    if d:
        p = d.get("p", "")
        if p.endswith("combinator::eof"):
            return {"EOF"}
        if p.endswith("character::complete::line_ending"):
            return {"\n", "\r\n"}
        if p.endswith("character::complete::newline"):
            return {"\n"}
        # a named parser of the lexer module whose whole body is one closing combinator applied to its input (`fn line_end`)
        fb_ = _PROG_U["prog"].body(d.get("rp") or p) if _PROG_U.get("prog") is not None and p.startswith("spl_frontend::lexer") else None
        if fb_ is not None and _depth < 2:
            hb_ = hir.strip(fb_["body"])
            if hb_.get("k") == "Call" and hir.strip(hb_["f"]).get("k") == "Call" and len(hb_["args"]) == 1:
                return _closer_set(hb_["f"], _depth + 1)
        return None
    if e.get("k") == "Call":
        cal = hir.callee(e) or ""
        if cal.endswith("::tag") and e["args"]:
            v = hir.lit_value(hir.strip(e["args"][0]))
            return {v} if v is not None else None
        if cal.endswith("::char") and e["args"]:
            v = hir.lit_value(hir.strip(e["args"][0]))
            return {v} if v is not None else None
        if cal.endswith("branch::alt") and e["args"]:
            res = set()
            for el in hir.strip(e["args"][0]).get("es", []):
                s = _closer_set(el)
                if s is None:
                    return None
                res |= s
            return res
        if cal.endswith("combinator::peek") or cal.endswith("combinator::opt"):
            return None
    return None


def rule_comment_lex(prog):
    """SPL lexical grammar: a comment starts with `//` and runs to the end of the line *or of the text*.  The comment
    lexer is `delimited("//", body, closer)`: the body stops exactly at a line feed and cannot fail, the closer accepts
    whatever the body stops at and the end of the text; a lexeme that can end at the end of the text grows when text is
    appended, so its look-ahead is >= 1."""
    out = Out("COMMENT-LEX")
    c = prog.front
    lex = None
    for b in c.bodies:
        if b["name"] == "lex" and "impl_trait" in b and "/tests" not in c.file_of(b["sp"]) and any(
                x.get("k") == "Path" and x["res"].get("ctor_of") == "spl_frontend::tokens::TokenType::Comment" for x in hir.nodes(b["body"])):
            lex = b
    if lex is None:
        out.missing("the Lexer impl that builds TokenType::Comment")
        return out
    _PROG_U["prog"] = prog
    delim = [n for n in hir.nodes_deep(prog, lex["body"], 1, crate=c) if n.get("k") == "Call" and (hir.callee(n) or "").endswith("sequence::delimited")]
    item = "<Comment as Lexer>::lex"
    if len(delim) == 1 and len(delim[0]["args"]) == 3:
        op, body, close = delim[0]["args"]
        loc = c.loc(delim[0]["sp"])
    else:
        # the same three parts run one after the other: `let (input, _) = open(input)?; let (input, text) = body(input)?;
        # let (input, _) = close(input)?;` - the parsers applied to the running input, in statement order
        blk_ = hir.strip(lex["body"])
        steps = []
        for st_ in (blk_["b"]["stmts"] if blk_.get("k") == "BlockExpr" else []):
            if st_.get("k") != "Let" or st_.get("init") is None:
                continue
            iv = hir.strip(st_["init"])
            if iv.get("k") == "Try":
                iv = hir.strip(iv["e"])
            if iv.get("k") == "Call" and len(iv["args"]) == 1 and "LocatedSpan" in c.tstr(hir.strip(iv["args"][0])["t"]):
                steps.append((iv["f"], st_))
        if len(steps) != 3:
            # another construction (preceded/terminated/hand-written): not understood, nothing is claimed about it
            out.add(item, "comment text runs to the end of the line", None, c.loc(lex["sp"]), "comment lexer is not delimited(open, body, close)")
            return out
        op, body, close = [x_[0] for x_ in steps]
        loc = c.loc(steps[0][1]["sp"])
    # (a part may be bound to a local first: `let line_end = alt((..)); delimited(tag("//"), content, line_end)`)
    defs_l = _defs(lex)

    def resolve_(e_):
        for _ in range(4):
            pl_ = hir.path_local(hir.strip(e_))
            if pl_ and pl_["id"] in defs_l:
                e_ = defs_l[pl_["id"]]
            else:
                break
        return e_
    op, body, close = resolve_(op), resolve_(body), resolve_(close)
    opener = _closer_set(op)
    out.add(item, "a comment starts with `//`", (opener == {"//"}) if opener is not None else None, loc, "opener accepts %s" % opener)
    bc = _body_class(body)
    cs = _closer_set(close)
    if bc is None:
        out.add(item, "comment text runs to the end of the line", None, loc, "body combinator not in the checker's table")
    else:
        stops, total = bc
        # what a line ending is, is decided together with the document layer: if its position converters end a line at a lone carriage
        # return (LSP's third line ending), so does a comment - otherwise the comment swallows lines the client shows as program text
        cr_is_eol = False
        for lb in prog.lsp.bodies:
            if lb["p"] in ("lsp4spl::document::as_position", "lsp4spl::document::get_insertion_index") or lb["p"].startswith("lsp4spl::document::position::"):
                if any(l_.get("k") == "Lit" and l_["lit"].get("k") == "char" and l_["lit"].get("v") == "\r" for l_ in hir.nodes(lb["body"])):
                    cr_is_eol = True
        want_stops = {"\n", "\r"} if cr_is_eol else {"\n"}
        ok_stops = total and "\n" in stops and stops <= {"\n", "\r"} and (want_stops <= stops)
        out.add(item, "comment text runs to the end of the line", ok_stops, loc,
                "the text of a comment must stop at the first character of a line ending (%s, as the position converters count line endings) and "
                "nowhere else, and consuming it must not fail: this combinator stops at %s and %s" % (
                    sorted(want_stops), sorted(stops), "cannot fail" if total else "can fail (then `//` is lexed as two `/` and the rest as program text)"))
    if cs is None:
        out.add(item, "a comment is closed by the line feed or by the end of the text", None, loc, "closing combinator not in the checker's table")
    else:
        need = {"\n", "EOF"}
        out.add(item, "a comment is closed by the line feed or by the end of the text", need <= cs, loc,
                "closer accepts %s: %s" % (sorted(cs), "a comment in the last line of a text without final line break is not a comment "
                                           "(valid SPL gets a syntax diagnostic)" if "EOF" not in cs else ""))
        if bc is not None:
            ok = all(s in cs for s in bc[0])
            out.add(item, "the closer accepts whatever stops the comment text", ok, loc,
                    "text stops at %s, closer accepts %s" % (sorted(bc[0]), sorted(cs)))
    # look-ahead of Comment
    from .rules_tables import token_tables
    t = token_tables(prog, Out("x"))
    if t is not None and cs is not None:
        la = t["la"].get("Comment")
        if "EOF" in cs:
            out.add("TokenType::look_ahead", "a comment that may end with the text has look-ahead >= 1", la is not None and la >= 1,
                    c.loc(t["la_body"]["sp"]), "a comment in the last line has no line break yet; text typed behind it extends the "
                    "comment, so the token must be re-lexed when the change starts at its end (look_ahead is %s)" % la)
    return out


# ------------------------------------------------------------------ LEX-MUNCH / LEX-PAYLOAD

def rule_lex_munch(prog):
    """Longest match and losslessness inside the sub-lexers: (munch) the body of a lexeme is recognised by an unbounded
    repetition - a combinator with an upper bound (take_while_m_n, many_m_n, take(n) with n > 1) cuts a long lexeme into two
    tokens; (payload) the text stored in a token is text of the input (`<span>.to_string()`, a char of it), never a string
    that was put together (format!, `+`), because `Display for TokenType` re-creates the lexeme from kind and payload."""
    out = Out("LEX-MUNCH")
    c = prog.front
    lexers = [b for b in c.bodies if b["name"] == "lex" and "impl_trait" in b and roles.in_lexer_module(c, b)]
    for nm_, fb_ in sorted(roles.sub_lexers(prog).items()):
        if fb_ not in lexers:
            lexers.append(fb_)
    if len(lexers) < 6:
        out.missing("Lexer impls in lexer.rs (found %d)" % len(lexers))
        return out
    bounded = ("take_while_m_n", "many_m_n", "take_till_m_n", "fold_many_m_n", "count")
    for b in lexers:
        bad = None
        for call in hir.nodes_deep(prog, b["body"], 2, crate=c, values=True):
            if call.get("k") != "Call":
                continue
            nm = last(hir.callee(call) or "")
            if nm in bounded and (hir.callee(call) or "").startswith("nom::"):
                bad = call
        out.add(b["d"], "the lexeme body is matched by an unbounded repetition (longest match)", bad is None, c.loc((bad or b)["sp"]),
                "`%s` puts an upper bound on the length of the lexeme: a longer literal is split into two tokens (and its value "
                "changes) instead of being one token" % (last(hir.callee(bad) or "") if bad else ""), ("munch",))
        # payloads
        defs = _defs(b)
        for call in hir.nodes(b["body"], "Call"):
            d = hir.path_def(call["f"])
            ctor = (d or {}).get("ctor_of", "")
            if not (ctor.startswith("spl_frontend::tokens::TokenType::") or ctor.startswith("spl_frontend::tokens::IntResult::Err")):
                continue
            for a in call["args"]:
                if "String" not in c.tstr(a["t"]):
                    continue

                def has_const_text(e):
                    return any(x.get("k") == "Lit" and x["lit"].get("k") == "str" and (x["lit"].get("v") or "") != "" for x in hir.nodes(e))

                def built(e, depth=0):
                    # assembled with constant text (joining two adjacent spans of the input, as Ident::lex does, is still input text)
                    e = hir.strip_ref(e)
                    if e.get("k") == "Binary" and e["op"] == "+" and has_const_text(e):
                        return True
                    if "format!" in (e.get("mx") or []):
                        return True
                    if e.get("k") == "Path" and e["res"].get("k") == "Local" and e["res"]["id"] in defs and depth < 6:
                        return built(defs[e["res"]["id"]], depth + 1)
                    if e.get("k") == "MethodCall" and e["m"] in ("clone", "to_string", "to_owned", "into"):
                        return built(e["recv"], depth + 1)
                    return False
                ok = not built(a)
                out.add(b["d"], "token payload `%s` is text of the input, not an assembled string" % last(ctor), ok, c.loc(call["sp"]),
                        "the payload of `%s` is put together (`+` / format!): `Display for TokenType` re-creates the lexeme from kind and "
                        "payload (it adds the `0x` itself), so formatting prints something that is not the lexeme that was read" % last(ctor),
                        ("payload",))
    # (numtype) a numeric literal is parsed into the very type its token stores (IntResult::Int(u32)): parsing into a narrower or
    # signed type and converting afterwards (`unsigned_abs`, `as`) rejects or changes literals of the upper half of the range
    want_t = None
    ir = prog.adts.get("spl_frontend::tokens::IntResult")
    if ir:
        for v_ in ir["variants"]:
            if v_["name"] == "Int" and v_["fields"]:
                want_t = c.tstr(v_["fields"][0]["t"])
    for b in lexers:
        for mc in hir.nodes(b["body"]):
            tgt = None
            if mc.get("k") == "MethodCall" and mc["m"] == "parse":
                # Result<T, _>
                t_ = c.tstr(mc["t"]) if "t" in mc else ""
                tgt = t_[t_.index("Result<") + 7:].split(",")[0].strip() if "Result<" in t_ else None
            elif mc.get("k") == "Call" and last(hir.callee(mc) or "") == "from_str_radix":
                t_ = c.tstr(mc["t"]) if "t" in mc else ""
                tgt = t_[t_.index("Result<") + 7:].split(",")[0].strip() if "Result<" in t_ else None
            if tgt is None or want_t is None:
                continue
            out.add(b["d"], "a numeric literal is parsed into the type its token stores (%s)" % want_t, tgt == want_t, c.loc(mc["sp"]),
                    "the digits are parsed as `%s` but stored as `%s`: literals that fit the stored type but not the parsed one become "
                    "invalid (2147483648..4294967295 for i32), or values are bent on conversion" % (tgt, want_t), ("munch", "numtype"))
    # (anychar) SPL: a character literal is a tick, *any one character* (or the escape `\n`), a tick.  In the lexer that builds
    # TokenType::Char the character is read by `anychar`, possibly behind escape alternatives `map(tag("\.."), ..)`; a character
    # class in its place (none_of / one_of / satisfy / char(..) / is_not ..) rejects legal literals such as `'''`, and a
    # context-dependent alternative (peek / terminated) makes the token depend on what follows - which the look-ahead table does not know
    char_lex = [b for b in lexers if any(x.get("k") == "Path" and x["res"].get("ctor_of") == "spl_frontend::tokens::TokenType::Char"
                                         for x in hir.nodes(b["body"]))]
    if not char_lex:
        out.missing("lexer of character literals (Lexer impl constructing TokenType::Char)")
    for b in char_lex:
        anys = [x for x in hir.nodes_deep(prog, b["body"], 2, crate=c, values=True) if x.get("k") == "Path" and x["res"].get("k") == "Def" and
                (x["res"].get("rp") or x["res"].get("p") or "").endswith("character::complete::anychar")]
        restricted = []
        for call in hir.nodes_deep(prog, b["body"], 1, crate=c):
            if call.get("k") != "Call":
                continue
            cal = hir.callee(call) or ""
            if not cal.startswith("nom::"):
                continue
            nm = last(cal)
            if nm in ("none_of", "one_of", "satisfy", "is_not", "is_a", "take_while", "take_while1", "take_till", "take_till1", "char",
                      "peek", "not", "terminated", "verify", "cond"):
                restricted.append(nm)
        out.add(b["d"], "the character of a character literal is any character (anychar), context-free", bool(anys) and not restricted,
                c.loc(b["sp"]), "between the ticks the lexer uses %s%s: a legal literal is rejected or its recognition depends on the "
                "characters behind it" % (", ".join(sorted(set(restricted))) or "no `anychar`", "" if anys else " and no `anychar`"), ("anychar",))
    return out
