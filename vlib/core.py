"""Rule-instance bookkeeping shared by all rules."""

HOLDS = "holds"
VIOLATES = "violates"
UNDECIDED = "undecided"


class Instance:
    __slots__ = ("rule", "key", "verdict", "loc", "msg", "tags")

    def __init__(self, rule, key, verdict, loc="", msg="", tags=()):
        self.rule = rule
        self.key = key          # stable, line-free discriminator: "<rule>:<item path>:<what>"
        self.verdict = verdict
        self.loc = loc          # file:line:col (for humans only, never part of the key)
        self.msg = msg
        self.tags = tuple(tags)

    def as_dict(self):
        return {"rule": self.rule, "key": self.key, "verdict": self.verdict, "loc": self.loc,
                "msg": self.msg}


class Out:
    """Collector handed to every rule function."""

    def __init__(self, rule):
        self.rule = rule
        self.items = []
        self.notes = []

    def add(self, item, what, ok, loc="", msg="", tags=()):
        """ok: True / False / None (undecided)."""
        verdict = HOLDS if ok is True else VIOLATES if ok is False else UNDECIDED
        key = "%s:%s:%s" % (self.rule, item, what)
        # make keys unique but order-stable
        n = sum(1 for i in self.items if i.key == key or i.key.startswith(key + "#"))
        if n:
            key = "%s#%d" % (key, n + 1)
        self.items.append(Instance(self.rule, key, verdict, loc, msg, tags))

    def missing(self, anchor):
        """An anchor the rule is built on does not exist (renamed/removed): fail closed."""
        self.items.append(Instance(self.rule, "%s:anchor-missing:%s" % (self.rule, anchor), VIOLATES, "",
                                   "anchor `%s` not found in the analysed program; the rule cannot be "
                                   "applied (fail closed)" % anchor, ("anchor",)))

    def note(self, s):
        self.notes.append(s)


def item_name(body):
    """Readable, stable item name of a body (def_path_str without generics noise)."""
    return body["d"]
