"""Structural rules on the frontend: REBUILD, STRIP-SET, SAVE-RESTORE, TOKEN-ERRORS, SYNC-SETS,
PARSE-SHAPE, EXPECT-NOCONSUME, EQ-COMPLETE, EMPTY-RANGE-GUARD, EOF-ONCE."""
import re
from . import hir
from .core import Out
from .rules_tables import find_fn, last, tag_parsers, match_tables, variants_of, TT

TS = "spl_frontend::tokens::TokenStream"


def place(e):
    """Normalised place of an expression: 'name#id.field.field' or None."""
    e = hir.strip_ref(e)
    k = e.get("k")
    if k == "Path":
        r = e["res"]
        if r.get("k") == "Local":
            return "%s#%s" % (r["name"], r["id"])
        return None
    if k == "Field":
        b = place(e["base"])
        return None if b is None else b + "." + e["name"]
    if k == "Unary" and e["op"] == "*":
        return place(e["e"])
    return None


def stmt_expr(s):
    k = s.get("k")
    if k in ("Semi", "Expr"):
        return s["e"]
    if k == "Let":
        return s.get("init")
    return s


def calls_in(node, suffix):
    return [n for n in hir.nodes(node) if n.get("k") in ("Call", "MethodCall") and (hir.callee(n) or "").endswith(suffix)]


# ------------------------------------------------------------------ REBUILD

def _top_seq(body):
    blk = hir.strip(body["body"])
    if blk.get("k") == "If" and blk.get("else") is not None:
        # `if <nothing to do> { self } else { <the work> }`: the work is the branch that calls something
        def calls(x_):
            return sum(1 for y_ in hir.nodes(x_) if y_.get("k") in ("Call", "MethodCall") and not (y_.get("k") == "MethodCall" and y_["m"] in ("is_empty", "clone")))
        th_, el_ = hir.strip(blk["then"]), hir.strip(blk["else"])
        if calls(th_) == 0 and el_.get("k") == "BlockExpr":
            blk = el_
        elif calls(el_) == 0 and th_.get("k") == "BlockExpr":
            blk = th_
    if blk.get("k") == "Match" and blk.get("src") == "match" and len(blk.get("arms") or []) == 2:
        # `match changes.as_slice() { [] => self, [..] => { <the work> } }`: the work is the arm that calls something
        def calls_(x_):
            return sum(1 for y_ in hir.nodes(x_) if y_.get("k") in ("Call", "MethodCall"))
        a0_, a1_ = hir.strip(blk["arms"][0]["body"]), hir.strip(blk["arms"][1]["body"])
        if calls_(a0_) == 0 and a1_.get("k") == "BlockExpr":
            blk = a1_
        elif calls_(a1_) == 0 and a0_.get("k") == "BlockExpr":
            blk = a0_
    if blk.get("k") != "BlockExpr":
        return None
    blk = blk["b"]
    return list(blk["stmts"]) + ([blk["expr"]] if blk.get("expr") else []), blk


def _deep_calls(prog, node, suffix):
    return [n for n in hir.nodes_deep(prog, node) if n.get("k") in ("Call", "MethodCall") and (hir.callee(n) or "").endswith(suffix)]


def _containing_fn(prog, root_body, target):
    """the body (root or a local helper reachable from it) that directly contains node `target`"""
    if any(x is target for x in hir.nodes(root_body["body"])):
        return root_body
    for n in hir.nodes(root_body["body"]):
        if n.get("k") in ("Call", "MethodCall"):
            hb = hir.local_callee_body(prog, n)
            if hb is not None and hb["p"] != root_body["p"]:
                if any(x is target for x in hir.nodes(hb["body"])):
                    return hb
    return None


def rule_rebuild(prog):
    out = Out("REBUILD")
    c = prog.front
    for fname in ("new", "update"):
        bs = find_fn(prog, fname, "AnalyzedSource", crate="spl_frontend")
        bs = [b for b in bs if b.get("impl_trait") is None]
        if len(bs) != 1:
            out.missing("AnalyzedSource::" + fname)
            continue
        b = bs[0]
        # (private helpers of the type that only split the work - `self.reparse(changes).reanalyze()` - are read in place)
        b0 = b
        b = dict(b0, body=hir.simplify(hir.inline_calls(prog, b0["body"], c, depth=2, max_nodes=120,
                                                        only=lambda hb: hb["d"].startswith("AnalyzedSource::") and hb["d"] not in ("AnalyzedSource::new", "AnalyzedSource::update"))))
        item = "AnalyzedSource::" + fname
        ts = _top_seq(b)
        if ts is None:
            # the work is spread over helpers of another type of the same file (`SyntacticSource::from_text(text).analyzed()`): read in place too
            b = dict(b0, body=hir.simplify(hir.inline_calls(prog, b0["body"], c, depth=2, max_nodes=120,
                                                            only=lambda hb: c.file_of(hb["sp"]) == c.file_of(b0["sp"]) and
                                                            hb["d"] not in ("AnalyzedSource::new", "AnalyzedSource::update"))))
            ts = _top_seq(b)
        if ts is None:
            out.missing(item + " body block")
            continue
        seq, blk = ts
        loc = c.loc(b["sp"])
        bi = ai = None
        last_syntax = -1
        build_call = analyze_call = None
        syntax_calls = []
        for i, s in enumerate(seq):
            bc = _deep_calls(prog, s, "table::build::build")
            ac = _deep_calls(prog, s, "table::semantic::analyze")
            if bc and bi is None:
                bi, build_call = i, bc[0]
            if ac and ai is None:
                ai, analyze_call = i, ac[0]
            for suf in ("lexer::update", "lexer::lex", "parser::update", "parser::parse"):
                sc_ = _deep_calls(prog, s, suf)
                if sc_:
                    last_syntax = max(last_syntax, i)
                    syntax_calls += [(i, x_) for x_ in sc_]
        out.add(item, "symbol table is rebuilt (table::build called)", bi is not None, loc,
                "the returned source must carry a table built from its final AST")
        out.add(item, "semantic analysis is re-run (table::analyze called)", ai is not None, loc,
                "semantic diagnostics must be recomputed for the final AST")
        if bi is None or ai is None:
            continue
        after_syntax = last_syntax < bi and last_syntax < ai and last_syntax >= 0
        if not after_syntax and last_syntax == bi == ai:
            # parser, build and analyze sit in one helper (`AnalyzedProgram::from_tokens(&tokens)`): their order is the order in there
            gh = _containing_fn(prog, b, build_call)
            if gh is not None and gh is not b and gh is _containing_fn(prog, b, analyze_call):
                hseq, _ = _top_seq(gh) or ([], None)
                hb_i = next((j for j, st in enumerate(hseq) if any(x is build_call for x in hir.nodes(st))), None)
                ha_i = next((j for j, st in enumerate(hseq) if any(x is analyze_call for x in hir.nodes(st))), None)
                syn_in = [j for j, st in enumerate(hseq) for (i_, x_) in syntax_calls if i_ == bi and any(y is x_ for y in hir.nodes(st))]
                syn_out = [x_ for (i_, x_) in syntax_calls if i_ == bi and not any(y is x_ for y in hir.nodes(gh["body"]))]
                if hb_i is not None and ha_i is not None and not syn_out:
                    after_syntax = all(j < hb_i and j < ha_i for j in syn_in)
        out.add(item, "build/analyze run after the last lexer/parser step", after_syntax,
                c.loc(build_call["sp"]), "the table must be built from the AST produced by the last change")
        g_b = _containing_fn(prog, b, build_call)
        g_a = _containing_fn(prog, b, analyze_call)
        if g_b is None or g_a is None or g_b is not g_a:
            out.add(item, "build precedes analyze", (bi < ai) if bi != ai else None, c.loc(analyze_call["sp"]), "analyze must see the rebuilt table")
            continue
        g = g_b
        gseq, gblk = _top_seq(g) or ([], None)
        gbi = gai = None
        for i, s in enumerate(gseq):
            if any(x is build_call for x in hir.nodes(s)) and gbi is None:
                gbi = i
            if any(x is analyze_call for x in hir.nodes(s)) and gai is None:
                gai = i
        if gbi is not None and gbi == gai:
            # both sit in one statement (a helper read in place: `let table = { let t = build(ast); analyze(ast, &t); t };`): their
            # order is the order in the innermost block that holds both
            inner = None
            for blk_ in hir.nodes(gseq[gbi], "Block"):
                if any(x is build_call for x in hir.nodes(blk_)) and any(x is analyze_call for x in hir.nodes(blk_)):
                    inner = blk_
            if inner is not None:
                gseq = list(inner["stmts"]) + ([inner["expr"]] if inner.get("expr") else [])
                gblk = inner
                gbi = next((i for i, s in enumerate(gseq) if any(x is build_call for x in hir.nodes(s))), None)
                gai = next((i for i, s in enumerate(gseq) if any(x is analyze_call for x in hir.nodes(s))), None)
        out.add(item, "build precedes analyze", gbi is not None and gai is not None and gbi < gai, c.loc(analyze_call["sp"]),
                "analyze must see the rebuilt table")
        ast_b = place(build_call["args"][0])
        ast_a = place(analyze_call["args"][0])
        out.add(item, "build and analyze work on the same AST", ast_b is not None and ast_b == ast_a,
                c.loc(analyze_call["sp"]), "build on %s, analyze on %s" % (ast_b, ast_a))
        dest = None
        if gbi is not None:
            s = gseq[gbi]
            if s.get("k") == "Let" and s["pat"].get("k") == "Binding":
                dest = "%s#%s" % (s["pat"]["name"], s["pat"]["id"])
            else:
                e = stmt_expr(s)
                if e and e.get("k") == "Assign":
                    dest = place(e["l"])
        tbl_a = place(analyze_call["args"][1])
        out.add(item, "analyze reads the freshly built table", dest is not None and dest == tbl_a,
                c.loc(analyze_call["sp"]), "build result stored in %s, analyze reads %s" % (dest, tbl_a))
        # the value returned carries that AST and table
        ok = None
        if g is b:
            ret = hir.strip(seq[-1]) if blk.get("expr") else None
            # (a table built inside a block that is the value of an outer `let` is known under that name afterwards)
            dests = {dest}
            if gblk is not None and gblk is not blk and gblk.get("expr") is not None and place(hir.strip(gblk["expr"])) == dest:
                for l_ in hir.nodes(b["body"], "Let"):
                    i_ = l_.get("init")
                    while isinstance(i_, dict) and i_.get("k") in ("Paren",):
                        i_ = i_["e"]
                    if isinstance(i_, dict) and i_.get("k") == "BlockExpr" and i_["b"] is gblk and l_["pat"].get("k") == "Binding":
                        dests.add("%s#%s" % (l_["pat"]["name"], l_["pat"]["id"]))
                for a_ in hir.nodes(b["body"], "Assign"):
                    r_ = a_["r"]
                    while isinstance(r_, dict) and r_.get("k") in ("Paren",):
                        r_ = r_["e"]
                    if isinstance(r_, dict) and r_.get("k") == "BlockExpr" and r_["b"] is gblk and place(a_["l"]):
                        dests.add(place(a_["l"]))
            if ret is not None and ret.get("k") == "Path" and hir.path_local(ret):
                # (the value may have been put together one statement earlier, in a block of its own: a helper read in place)
                ret_id_ = hir.path_local(ret)["id"]
                for l_ in hir.nodes(b["body"], "Let"):
                    if l_["pat"].get("k") == "Binding" and l_["pat"]["id"] == ret_id_ and l_.get("init") is not None:
                        i_ = hir.strip(l_["init"])
                        if i_.get("k") == "BlockExpr" and i_["b"].get("expr") is not None and hir.strip(i_["b"]["expr"]).get("k") == "Struct" and \
                                any(x is build_call for x in hir.nodes(i_)):
                            ret = hir.strip(i_["b"]["expr"])
            if ret is not None:
                if ret.get("k") == "Path":
                    rp = place(ret)
                    ok = (ast_b or "").startswith(rp + ".") and any((d_ or "").startswith(rp + ".") for d_ in dests)
                elif ret.get("k") == "Struct":
                    f = {x["name"]: place(x["e"]) for x in ret["fields"]}
                    ok = f.get("ast") == ast_b and f.get("table") in dests
        else:
            # helper returns the table it built; the caller stores it next to the AST it passed in
            gret = hir.strip(gseq[-1]) if gblk is not None and gblk.get("expr") else None
            helper_returns_table = gret is not None and place(gret) == dest
            hcall = None
            for n in hir.nodes(seq[bi]):
                if n.get("k") in ("Call", "MethodCall") and hir.local_callee_body(prog, n) is g:
                    hcall = n
            ok_store = None
            if hcall is not None and helper_returns_table:
                arg_ast = place(hcall["args"][0]) if hcall.get("args") else None
                st = seq[bi]
                tdest = None
                if st.get("k") == "Let" and st["pat"].get("k") == "Binding":
                    tdest = "%s#%s" % (st["pat"]["name"], st["pat"]["id"])
                else:
                    e = stmt_expr(st)
                    if e and e.get("k") == "Assign":
                        tdest = place(e["l"])
                ret = hir.strip(seq[-1]) if blk.get("expr") else None
                if ret is not None and tdest and arg_ast:
                    if ret.get("k") == "Path":
                        rp = place(ret)
                        ok_store = arg_ast.startswith(rp + ".") and tdest.startswith(rp + ".")
                    elif ret.get("k") == "Struct":
                        f = {x["name"]: place(x["e"]) for x in ret["fields"]}
                        ok_store = f.get("ast") == arg_ast and f.get("table") == tdest
            ok = ok_store
        out.add(item, "returned value carries the rebuilt table and analysed AST", ok, loc, "")
        if fname == "new":
            # the text that is kept (and lexed) is the text that was handed in: every position a client sends refers to *its* text
            pids = {bd["id"] for pp in b["params"] for bd in hir.pat_bindings(pp) if "String" in c.tstr(pp["t"]) or "str" in c.tstr(pp["t"])}
            defs_ = _let_defs(b["body"])
            pat_defs_ = {}
            for l_ in hir.nodes(b["body"], "Let"):
                pt_ = hir.pat_strip(l_["pat"]) if l_.get("pat") else {}
                if pt_.get("k") == "Struct" and l_.get("init") is not None:
                    for f_ in pt_["fields"]:
                        fp_ = hir.pat_strip(f_["pat"])
                        if fp_.get("k") == "Binding":
                            pat_defs_[fp_["id"]] = (l_["init"], f_["name"])
            CHANGERS = ("strip_prefix", "strip_suffix", "trim", "trim_start", "trim_end", "trim_matches", "trim_start_matches",
                        "trim_end_matches", "replace", "replacen", "to_lowercase", "to_uppercase", "nfc", "nfkc", "lines", "split",
                        "truncate", "remove", "retain", "drain", "push_str", "push", "insert", "insert_str", "replace_range")

            def origin(e, depth=0):
                """True: the parameter itself; False: a changed text; None: not decided"""
                e = hir.strip_ref(e)
                while e.get("k") == "MethodCall" and e["m"] in ("clone", "to_string", "to_owned", "as_str", "into", "as_ref", "borrow") :
                    e = hir.strip_ref(e["recv"])
                pl = hir.path_local(e)
                if pl:
                    if pl["id"] in pids:
                        return True
                    if pl["id"] in defs_ and depth < 6:
                        d_ = defs_[pl["id"]]
                        if any(m_.get("k") == "MethodCall" and m_["m"] in CHANGERS for m_ in hir.nodes(d_)) and \
                                any((hir.path_local(x_) or {}).get("id") in pids for x_ in hir.nodes(d_, "Path")):
                            return False
                        return origin(d_, depth + 1)
                    if pl["id"] in pat_defs_ and depth < 6:
                        # taken out of a struct by a pattern (`let Self { text, tokens, ast } = syntactic;`): the field of the value
                        init_, fname_ = pat_defs_[pl["id"]]
                        v_ = hir.strip(init_)
                        for _ in range(3):
                            pl2 = hir.path_local(hir.strip_ref(v_))
                            if pl2 and pl2["id"] in defs_:
                                v_ = hir.strip(defs_[pl2["id"]])
                            elif v_.get("k") == "BlockExpr" and v_["b"].get("expr") is not None:
                                v_ = hir.strip(v_["b"]["expr"])
                            else:
                                break
                        if v_.get("k") == "Struct":
                            for fl_ in v_["fields"]:
                                if fl_["name"] == fname_:
                                    return origin(fl_["e"], depth + 1)
                return None
            kept = None
            for st_ in hir.nodes(b["body"], "Struct"):
                if (st_.get("adt") or st_.get("p") or c.tstr(st_["t"])).endswith("AnalyzedSource") or "AnalyzedSource" in c.tstr(st_["t"]):
                    for fl in st_["fields"]:
                        if fl["name"] == "text":
                            kept = fl["e"]
            lexed = None
            for call in hir.nodes(b["body"], "Call"):
                if (hir.callee(call) or "").endswith("lexer::lex") and call.get("args"):
                    lexed = call["args"][0]
            # a parameter that is mutated in place is no longer the text handed in
            mutated = any(m_.get("k") == "MethodCall" and m_["m"] in CHANGERS and (hir.path_local(hir.strip_ref(m_["recv"])) or {}).get("id") in pids
                          and "String" in c.tstr(hir.strip_ref(m_["recv"])["t"]) and m_["m"] in ("truncate", "remove", "retain", "drain", "push_str", "push", "insert", "insert_str", "replace_range")
                          for m_ in hir.nodes(b["body"]))
            if kept is not None:
                o_k = False if mutated else origin(kept)
                o_l = (False if mutated else origin(lexed)) if lexed is not None else None
                v_ = False if (o_k is False or o_l is False) else (True if (o_k and (o_l or lexed is None)) else None)
                out.add(item, "the text that is kept and lexed is the text that was handed in", v_, c.loc(kept["sp"]),
                        "the document text is changed on its way into the store (a leading byte order mark is cut off): for the client "
                        "U+FEFF is one UTF-16 unit in column 0 of line 0, so after didOpen every position in line 0 is off by one and the "
                        "server's text is not the client's", ("textid",))
    return out


# ------------------------------------------------------------------ STRIP-SET

def rule_strip_set(prog):
    out = Out("STRIP-SET")
    c = prog.front
    aff = prog.body("spl_frontend::parser::utility::affected")
    # by role: the fn(&mut AstInfo) of the parser's utility module that `affected` (or a helper of it) hands to traverse_mut
    rm = [b for b in c.bodies if b["name"] == "remove_messages" and "affected" in b["p"]]
    if not rm and aff is not None:
        cand = set()
        for n_ in hir.nodes_deep(prog, aff["body"], 2, crate=c):
            if n_.get("k") == "MethodCall" and n_["m"] == "traverse_mut":
                for a_ in n_["args"]:
                    d_ = hir.path_def(hir.strip(a_))
                    if d_ and (d_.get("rp") or d_.get("p")):
                        cand.add(d_.get("rp") or d_.get("p"))
        rm = [b for b in c.bodies if b["p"] in cand and b["k"] in ("fn", "assoc_fn")]
    if len(rm) != 1 or aff is None:
        out.missing("parser::utility::affected::remove_messages")
        return out
    rm = rm[0]
    EM = "spl_frontend::error::ErrorMessage"
    tabs = match_tables(prog, rm, EM)
    retain = calls_in(rm["body"], "::retain")
    if len(tabs) != 1 or len(retain) != 1:
        out.missing("errors.retain(|e| !matches!(e.1, ..)) in remove_messages")
        return out
    m, table, default, _ = tabs[0]
    stripped = set(k for k, v in table.items() if v is True)
    # the closure must keep exactly the complement: body is `!matches!(..)`
    clo = [n for n in hir.nodes(retain[0], "Closure")]
    negated = False
    if clo:
        body = hir.strip(clo[0]["body"])
        while body.get("k") == "BlockExpr":
            body = hir.strip(body["b"].get("expr") or {})
        negated = body.get("k") == "Unary" and body["op"] == "!" and hir.strip(body["e"]) is m
    out.add("affected::remove_messages", "retain keeps the complement of the matched set", negated, c.loc(rm["sp"]),
            "`retain(|e| !matches!(..))` expected")
    # expected: ErrorMessage variants whose payload kinds are constructed under table::*
    expected = set()
    for v in prog.adts[EM]["variants"]:
        if not v["fields"]:
            continue
        payload = c.ty(v["fields"][0]["t"])
        if payload["k"] != "adt":
            continue
        for b in c.bodies:
            if not c.file_of(b["sp"]).startswith("spl_frontend/src/table"):
                continue
            if any(n["res"].get("ctor_of", "").startswith(payload["p"] + "::") for n in hir.nodes(b["body"], "Path")):
                expected.add(v["name"])
                break
    for v in sorted(expected | stripped):
        out.add("affected::remove_messages", "message class %s: stripped on reuse iff produced by table::*" % v,
                (v in expected) == (v in stripped), c.loc(m["sp"]),
                "produced under table::* = %s, stripped from reused nodes = %s" % (v in expected, v in stripped))
    # reuse branch: traverse_mut(remove_messages) on the clone that is returned (a helper that holds the branch is read in place)
    aff_file_ = c.file_of(aff["sp"])
    aff = dict(aff, body=hir.simplify(hir.inline_calls(prog, aff["body"], c, depth=3, only=lambda hb: c.file_of(hb["sp"]) == aff_file_)))
    tm = [n for n in hir.nodes(aff["body"], "MethodCall") if n["m"] == "traverse_mut"]
    ok = False
    loc = c.loc(aff["sp"])
    for n in tm:
        arg = hir.path_def(n["args"][0]) if n["args"] else None
        recv = place(n["recv"])
        if arg and arg["p"] == rm["p"] and recv:
            # find Ok((input.advance(..), <recv>)) later
            for call in hir.nodes(aff["body"], "Call"):
                d = hir.path_def(call["f"])
                if d and last(d.get("ctor_of", "")) == "Ok":
                    tup = hir.strip(call["args"][0])
                    if tup.get("k") == "Tup" and len(tup["es"]) == 2 and place(tup["es"][1]) == recv \
                            and calls_in(tup["es"][0], "::advance"):
                        ok = True
                        loc = c.loc(call["sp"])
    out.add("affected", "reused node is returned with build/semantic messages removed", ok, loc,
            "`this_clone.traverse_mut(remove_messages)` must be applied to the very clone handed out by the reuse branch")
    return out


# ------------------------------------------------------------------ SAVE-RESTORE

def _is_ts(c, e):
    t = hir.peel(c, e["t"])
    for a in e.get("adj") or []:
        t = hir.peel(c, a["to"])
    # (the token stream type, wherever below spl_frontend::tokens it is declared)
    return t["k"] == "adt" and (t["p"] == TS or (t["p"].startswith("spl_frontend::tokens::") and t["p"].endswith("::TokenStream")))


def _ts_field(c, e):
    """(field name, place of base) if e is `<TokenStream>.reference_pos|error_buffer`."""
    e = hir.strip_ref(e)
    if e.get("k") == "Field" and e["name"] in ("reference_pos", "error_buffer") and _is_ts(c, e["base"]):
        return e["name"]
    return None


def rule_save_restore(prog):
    out = Out("SAVE-RESTORE")
    c = prog.front
    n_funcs = 0
    for b in c.bodies:
        f = c.file_of(b["sp"])
        if not (f.endswith("parser.rs") or f.endswith("parser/utility.rs")):
            continue
        # saved fields: `let B = ts.F` | `let B = mem::take(&mut ts.F)` | `let B = mem::replace(&mut ts.F, ..)`
        saves = {}
        overwritten = set()
        for n in hir.nodes(b["body"], "Let"):
            init = n.get("init")
            if not init or n["pat"].get("k") != "Binding":
                continue
            ie = hir.strip(init)
            fld = _ts_field(c, ie)
            if fld is None and ie.get("k") == "Call" and last(hir.callee(ie) or "") in ("take", "replace") and "mem" in (hir.callee(ie) or ""):
                fld = _ts_field(c, ie["args"][0])
                if fld:
                    overwritten.add(fld)
            if fld and fld not in saves:
                saves[fld] = "%s#%s" % (n["pat"]["name"], n["pat"]["id"])
        if not saves:
            continue

        def writes(node, field, backup):
            """does `node` contain a write of `backup` into <ts>.field?"""
            for a in hir.nodes(node, "Assign"):
                if _ts_field(c, a["l"]) == field and place(a["r"]) == backup:
                    return True
            for call in hir.nodes(node, "Call"):
                cn = hir.callee(call) or ""
                if "mem" in cn and last(cn) in ("replace", "swap") and len(call["args"]) == 2 and \
                        _ts_field(c, call["args"][0]) == field and place(call["args"][1]) == backup:
                    return True
            return False

        for field, backup in sorted(saves.items()):
            over = field in overwritten or any(
                _ts_field(c, n["l"]) == field and place(n["r"]) != backup for n in hir.nodes(b["body"], "Assign"))
            if not over:
                continue
            n_funcs += 1
            for m, parents in hir.walk(b["body"]):
                if m.get("k") != "Match" or m["src"] != "match":
                    continue
                # what runs after the match when an arm falls through: the rest of every enclosing block
                cont = []
                chain = list(parents) + [m]
                for i, anc in enumerate(chain[:-1]):
                    if anc.get("k") == "Closure":
                        cont = []
                    if anc.get("k") == "Block":
                        kids = list(anc["stmts"]) + ([anc["expr"]] if anc.get("expr") else [])
                        nxt = chain[i + 1]
                        idx = [j for j, x in enumerate(kids) if x is nxt]
                        if idx:
                            cont.append(kids[idx[0] + 1:])
                for arm in m["arms"]:
                    pv = hir.pat_variant(arm["pat"])
                    if pv is None or last(pv) not in ("Ok", "Err"):
                        continue
                    if not list(hir.pat_bindings(arm["pat"])):
                        continue  # `Err(_) => panic!`
                    restored = writes(arm["body"], field, backup)
                    if not restored and not any(True for _ in hir.nodes(arm["body"], "Ret")):
                        restored = any(writes(x, field, backup) for rest in cont for x in rest)
                    out.add(b["d"], "%s restored on the %s exit" % (field, last(pv)), restored, c.loc(arm["sp"]),
                            "`%s` is saved into `%s` and overwritten; this exit hands the TokenStream on without "
                            "writing the saved value back" % (field, backup.split("#")[0]))
    if n_funcs == 0:
        out.missing("functions saving/overwriting TokenStream.reference_pos / error_buffer")
    return out


# ------------------------------------------------------------------ TOKEN-ERRORS

def rule_token_errors(prog):
    """A Token rebuilt from another Token with a different range must rebuild `errors` too."""
    out = Out("TOKEN-ERRORS")
    c = prog.front
    TOK = "spl_frontend::tokens::Token"
    n = 0
    for b in c.bodies:
        for s in hir.nodes(b["body"], "Struct"):
            if s.get("adt") != TOK or not s.get("base"):
                continue
            names = [f["name"] for f in s["fields"]]
            if "range" not in names:
                continue
            n += 1
            out.add(b["d"], "Token{range: .., ..old} also relocates `errors`", "errors" in names, c.loc(s["sp"]),
                    "the token's range is replaced but its lexical errors (which carry absolute byte ranges) are "
                    "copied unchanged from the old token")
        # taken apart and put together again: `let Token { token_type, range, errors } = old; Token { token_type, range: f(range), errors: g(errors) }`
        old_parts = {}       # local id -> field of the old token it was bound to
        for n_ in hir.nodes(b["body"]):
            pt_ = n_.get("pat") if n_.get("k") in ("Let", "Arm", "LetExpr") else None
            cands = [pt_] if isinstance(pt_, dict) else []
            for pt in cands + [q for q in b["params"] if isinstance(q, dict)]:
                pt = hir.pat_strip(pt)
                if pt.get("k") == "Struct" and hir.adt_path(c, pt["t"]) == TOK:
                    for f_ in pt["fields"]:
                        q_ = hir.pat_strip(f_["pat"])
                        if q_.get("k") == "Binding":
                            old_parts[q_["id"]] = f_["name"]
        if old_parts:
            defs_t = {l_["pat"]["id"]: l_["init"] for l_ in hir.nodes(b["body"], "Let") if l_["pat"].get("k") == "Binding" and l_.get("init") is not None}

            def origin(e_, depth=0):
                """('copy', field) if e_ is the old token's part as it was; ('moved', field) if it is computed from it; None otherwise"""
                e_ = hir.strip_ref(hir.strip(e_))
                if depth > 5:
                    return None
                pl_ = hir.path_local(e_)
                if pl_:
                    if pl_["id"] in defs_t and pl_["id"] not in old_parts:
                        return origin(defs_t[pl_["id"]], depth + 1)
                    if pl_["id"] in old_parts:
                        return ("copy", old_parts[pl_["id"]])
                    return None
                if e_.get("k") == "MethodCall" and e_["m"] in ("clone", "to_owned", "to_vec") and not e_["args"]:
                    return origin(e_["recv"], depth + 1)
                for x_ in hir.nodes(e_, "Path"):
                    pl2 = hir.path_local(x_)
                    if pl2 and (pl2["id"] in old_parts or (pl2["id"] in defs_t and origin(x_, depth + 1))):
                        o_ = origin(x_, depth + 1)
                        return ("moved", o_[1]) if o_ else None
                return None

            for s in hir.nodes(b["body"], "Struct"):
                if s.get("adt") != TOK or s.get("base"):
                    continue
                fl = {f_["name"]: f_["e"] for f_ in s["fields"]}
                if "range" not in fl or "errors" not in fl:
                    continue
                ro, eo = origin(fl["range"]), origin(fl["errors"])
                if ro == ("moved", "range"):
                    n += 1
                    out.add(b["d"], "Token{range: .., ..old} also relocates `errors`", eo != ("copy", "errors"), c.loc(s["sp"]),
                            "the token is rebuilt with a moved range but its lexical errors (which carry absolute byte ranges) are "
                            "copied unchanged from the old token")
            # ... or put together by the constructor: `Token::new_with_errors(token_type, range.shift(n), errors.shift(n))`
            for call in hir.nodes(b["body"], "Call"):
                if (hir.callee_display(call) or "") == "tokens::Token::new_with_errors" and len(call["args"]) == 3:
                    ro, eo = origin(call["args"][1]), origin(call["args"][2])
                    if ro == ("moved", "range"):
                        n += 1
                        out.add(b["d"], "Token{range: .., ..old} also relocates `errors`", eo != ("copy", "errors"), c.loc(call["sp"]),
                                "the token is rebuilt with a moved range but its lexical errors (which carry absolute byte ranges) are "
                                "handed to the constructor unchanged")
        # field-assignment form: `tok.range = ..` without `tok.errors = ..` in the same function
        assigns = {}
        for a in hir.nodes(b["body"], "Assign"):
            l = hir.strip(a["l"])
            if l.get("k") == "Field" and hir.adt_path(c, l["base"]["t"]) == TOK:
                assigns.setdefault(place(l["base"]), set()).add(l["name"])
        for pl, names in assigns.items():
            if "range" in names:
                n += 1
                out.add(b["d"], "assigning Token.range also relocates `errors`", "errors" in names, c.loc(b["sp"]),
                        "the token's range is overwritten but its lexical errors keep their old absolute ranges")
    if n == 0:
        out.missing("places that relocate a Token (struct update or field assignment)")
    return out


# ------------------------------------------------------------------ SYNC-SETS

def recovery_sites(prog):
    """ignore_until0/1 calls: (body, call node, path of the set function fed through peek(..) or None)."""
    c = prog.front
    res = []
    for b in c.bodies:
        if "/tests" in c.file_of(b["sp"]):
            continue
        for n in hir.nodes(b["body"], "Call"):
            cal = hir.callee(n) or ""
            if cal.endswith("parser::utility::ignore_until0") or cal.endswith("parser::utility::ignore_until1"):
                arg = hir.strip(n["args"][0])
                la = None
                if arg.get("k") == "Call" and (hir.callee(arg) or "").endswith("nom::combinator::peek"):
                    d = hir.path_def(arg["args"][0])
                    if d and d["p"].startswith("spl_frontend::"):
                        la = d.get("rp") or d["p"]
                res.append((b, n, la))
    return res


def look_ahead_sets(prog):
    """The synchronisation sets: the functions fed to ignore_until through peek(..), and the sets they include.
    -> (name -> list of element descriptors, name -> body).  Found by role, not by macro or module name."""
    c = prog.front
    tags = tag_parsers(prog)
    sets = {}
    bodies = {}
    todo = [la for _, _, la in recovery_sites(prog) if la]
    seen = set()
    while todo:
        path = todo.pop()
        if path in seen:
            continue
        seen.add(path)
        b = prog.body(path)
        if b is None:
            continue
        alts = [n for n in hir.nodes(b["body"], "Call") if (hir.callee(n) or "").endswith("nom::branch::alt")]
        if not alts:
            continue
        elems = []
        for el in hir.strip(alts[0]["args"][0]).get("es", []):
            el = hir.strip(el)
            # recognize($parser)
            inner = hir.strip(el["args"][0]) if el.get("k") == "Call" and el.get("args") else el
            d = hir.path_def(inner)
            dp = (d.get("rp") or d["p"]) if d else None
            if dp in tags:
                elems.append(("tok", tags[dp]))
            elif dp and dp.startswith("spl_frontend::") and prog.body(dp) is not None and dp != path:
                elems.append(("set", last(dp)))
                todo.append(dp)
            else:
                toks = []
                for n in hir.nodes_deep(prog, inner, 3, crate=c):
                    if n.get("k") != "Path":
                        continue
                    dd = n["res"]
                    if dd.get("k") == "Def" and (dd.get("rp") or dd["p"]) in tags:
                        toks.append(tags[dd.get("rp") or dd["p"]])
                # the head of the sequence is what its first parser can start with (evaluated, not read off the traversal order)
                heads = sorted(t_ for t_ in _FirstSet(prog).parser(inner, b, 0) if t_ not in ("", "?"))
                if heads:
                    for h_ in heads:
                        elems.append(("seq", (h_,) + tuple(t_ for t_ in toks if t_ != h_)))
                else:
                    elems.append(("seq", tuple(toks)))
        sets[b["name"]] = elems
        bodies[b["name"]] = b
    return sets, bodies


def rule_sync_sets(prog):
    out = Out("SYNC-SETS")
    c = prog.front
    sets, bodies = look_ahead_sets(prog)
    want = {"GlobalDeclaration": "global_dec", "Statement": "stmt", "VariableDeclaration": "var_dec",
            "ParameterDeclaration": "param_dec", "Argument": "arg"}
    # which set each of the five recovering node parsers skips to
    found = {}
    for b, n, la in recovery_sites(prog):
        owner = None
        for k in want:
            if ("parser::" + k + " as") in b["d"] or (k + " as parser::Parser>::parse::") in b["d"]:
                owner = k
        if owner is None and "sig_out" in b:
            # a recovery function of its own (hoisted out of the node's parser): it is the recovery of the node type it yields
            so_ = c.tstr(b["sig_out"])
            import re as _re
            hits_ = [k for k in want if _re.search(r"(?<![A-Za-z0-9_])" + k + r"(?![A-Za-z0-9_])", so_)]
            if len(hits_) == 1:
                owner = hits_[0]
        if owner is None:
            # ... or the recovery of the one node parser that (alone) uses it
            cmap_ = hir.callers_map(prog, c.name)
            frontier_, owners_ = {b["p"]}, set()
            for _ in range(3):
                nxt_ = set()
                for p_ in frontier_:
                    for cp_ in cmap_.get(p_, set()):
                        cb_ = prog.body(cp_)
                        d_ = cb_["d"] if cb_ is not None else cp_
                        ow_ = [k for k in want if ("parser::" + k + " as") in d_ or (k + " as parser::Parser>::parse") in d_]
                        if ow_:
                            owners_.add(ow_[0])
                        else:
                            nxt_.add(cp_)
                frontier_ = nxt_
            if len(owners_) == 1:
                owner = next(iter(owners_))
        found.setdefault(owner, []).append((last(la) if la else None, c.loc(n["sp"]), b["d"]))
    used = {k: found[k][0][0] for k in want if len(found.get(k, [])) == 1 and found[k][0][0] in sets}
    if set(used) != set(want):
        out.missing("the synchronisation sets of the five recovering parsers %s (found %s)" % (sorted(want), sorted(used)))
        return out
    names = {want[k]: used[k] for k in want}    # role -> actual function name

    def closure(name, seen=()):
        res = set()
        for kind, v in sets[name]:
            if kind == "set" and v in sets and v not in seen:
                res |= closure(v, seen + (name,))
            elif kind == "tok":
                res.add(v)
            else:
                res.add(v)
        return res

    gd = closure(names["global_dec"])
    out.add("look_ahead::global_dec", "= {proc, type, eof}", gd == {"Proc", "Type", "Eof"}, c.loc(bodies[names["global_dec"]]["sp"]),
            "found %s" % sorted(map(str, gd)))
    chain = ["global_dec", "stmt", "var_dec", "param_dec", "arg"]
    for a, b in zip(chain, chain[1:]):
        ok = closure(names[a]) <= closure(names[b])
        out.add("look_ahead::" + b, "contains look_ahead::" + a, ok, c.loc(bodies[names[b]]["sp"]),
                "recovery inside a nested construct must stop wherever the enclosing construct's recovery stops; "
                "missing: %s" % sorted(map(str, closure(names[a]) - closure(names[b]))))
    # recovery in front of a statement list must stop at anything that starts a statement: the statement set contains FIRST(Statement),
    # computed from the alternatives of the from-scratch branch of <Statement as Parser>::parse
    stp = [b_ for b_ in c.bodies if b_["d"].endswith("<ast::Statement as parser::Parser>::parse")]
    tags_ = tag_parsers(prog)
    if stp:
        alts_ = [n_ for n_ in hir.nodes(stp[0]["body"], "Call") if (hir.callee(n_) or "").endswith("nom::branch::alt")]
        first = set()
        fs_ = _FirstSet(prog)
        if alts_:
            rec = set(rb["p"] for rb, _, _ in recovery_sites(prog))
            for el in hir.strip(alts_[-1]["args"][0]).get("es", []):
                d_ = hir.path_def(hir.strip(el))
                if d_ and (d_.get("rp") or d_.get("p")) in rec:
                    continue
                first |= set(t_ for t_ in fs_.parser(el, stp[0], 0) if t_ not in ("", "?"))
        stmt_closure = closure(names["stmt"])
        toks_in = set(x for x in stmt_closure if isinstance(x, str))
        seq_heads = set(x[0] for x in stmt_closure if isinstance(x, tuple) and x)
        for tk in sorted(first):
            ok_ = tk in toks_in or tk in seq_heads
            out.add("look_ahead::stmt", "contains the statement starter %s" % tk, ok_, c.loc(bodies[names["stmt"]]["sp"]),
                    "a statement can begin with `%s`, but recovery in front of the statements of a body (the variable declaration recovery "
                    "includes this set) does not stop there: the token is swallowed as part of a broken declaration - `proc main() { ; }` gets a "
                    "syntax error" % tk)
    # every recovering parser skips to a set of its own: the five sets are pairwise different functions, so that the
    # nesting above is a statement about what each construct really uses
    for k, la in sorted(want.items()):
        got = found.get(k, [])
        ok = len(got) == 1 and len(set(names.values())) == 5
        out.add(k + "::parse_error", "skips to look_ahead::" + la, ok, got[0][1] if got else "",
                "error recovery of %s must skip tokens until its own synchronisation set; found %s" % (k, [g[0] for g in got]))
    for k, got in found.items():
        if k not in want:
            for g in got:
                out.add(g[2], "ignore_until outside the five recovery sites", False, g[1], "unexpected recovery site")
    return out


# ------------------------------------------------------------------ EXPECT-NOCONSUME + tag parser shape

def _let_defs(body_node):
    d = {}
    for l in hir.nodes(body_node, "Let"):
        if l["pat"].get("k") == "Binding" and l.get("init") is not None:
            d[l["pat"]["id"]] = l["init"]
    return d


def _resolves_to(e, defs, pred, depth=0):
    """follow `let x = e` chains (and clones) until pred(e) holds"""
    e = hir.strip_ref(e)
    if e.get("k") == "MethodCall" and e["m"] == "clone":
        e = hir.strip_ref(e["recv"])
    if pred(e):
        return True
    pl = hir.path_local(e)
    if pl and pl["id"] in defs and depth < 6:
        return _resolves_to(defs[pl["id"]], defs, pred, depth + 1)
    return False


def _is_local(e, lid):
    pl = hir.path_local(hir.strip_ref(e))
    return bool(pl) and pl["id"] == lid


def _param_ids(b):
    res = []
    for p_ in b["params"]:
        bs = list(hir.pat_bindings(p_))
        res.append(bs[0]["id"] if len(bs) == 1 else None)
    return res


def _error_inputs_ok(prog, b, inp_id, depth=2):
    """every ParserError{input: X, ..} built in b (or in a helper that receives b's input) has X = clone of that input.
    -> (number of literals, all ok)"""
    defs = _let_defs(b["body"])
    n, ok = 0, True
    for s_ in hir.nodes(b["body"], "Struct"):
        if (s_.get("adt") or "").endswith("error::ParserError"):
            f = {x["name"]: x["e"] for x in s_["fields"]}
            n += 1
            if not _resolves_to(f.get("input", {}), defs, lambda e: _is_local(e, inp_id)):
                ok = False
    if depth > 0:
        for call in hir.nodes(b["body"], "Call"):
            hb = hir.local_callee_body(prog, call)
            if hb is None or hb["p"] == b["p"]:
                continue
            ids = _param_ids(hb)
            for i, a_ in enumerate(call["args"]):
                # (the input itself, or a clone of it kept for the error path: `let original_input = input.clone()`)
                if i < len(ids) and ids[i] is not None and (_is_local(a_, inp_id) or _resolves_to(a_, defs, lambda e: _is_local(e, inp_id))):
                    n2, ok2 = _error_inputs_ok(prog, hb, ids[i], depth - 1)
                    n += n2
                    ok = ok and ok2
    return n, ok


def _resumes_at_error_input(prog, owner, node, err_id, depth=2, direct=False):
    """`node` (an error arm binding err) ends in Ok((err.input, ..)) — directly or inside a helper that receives err.
    direct: err_id is the binding of the error's `input` field itself (`Err(Error(ParserError { input, .. }))`)."""
    defs = _let_defs(owner["body"])

    def is_err_input(e):
        if direct and _is_local(e, err_id):
            return True
        return e.get("k") == "Field" and e["name"] == "input" and _is_local(e["base"], err_id)

    for call in hir.nodes(node, "Call"):
        d = hir.path_def(call["f"])
        if d and last(d.get("ctor_of", "")) == "Ok":
            tup = hir.strip(call["args"][0])
            if tup.get("k") == "Tup" and _resolves_to(tup["es"][0], defs, is_err_input):
                return True
        hb = hir.local_callee_body(prog, call) if depth > 0 else None
        if hb is not None and hb["p"] != owner["p"]:
            ids = _param_ids(hb)
            for i, a_ in enumerate(call["args"]):
                if i < len(ids) and ids[i] is not None and _is_local(a_, err_id):
                    if _resumes_at_error_input(prog, hb, hb["body"], ids[i], depth - 1):
                        return True
    return False


def rule_recovery_noconsume(prog):
    """C05: a failed token parser hands back its *original* input (so `expect` resumes exactly where the
    failing construct started, comments included) and only the token parsers/comment/ignore_until take tokens."""
    from . import roles
    out = Out("NOCONSUME")
    c = prog.front
    tags = tag_parsers(prog)
    for p, tok in sorted(tags.items()):
        b = prog.body(p)
        ids = _param_ids(b)
        if not ids or ids[0] is None:
            out.add(b["d"], "error carries the original input", None, c.loc(b["sp"]))
            continue
        # every ParserError{input: X, ..} literal built for this parser: X must be `input.clone()` of the parameter
        n_lits, ok = _error_inputs_ok(prog, b, ids[0])
        out.add("tag_parser!(%s)" % last(p), "error carries the original input", (ok and n_lits > 0) if (n_lits or not ok) else None, c.loc(b["sp"]),
                "on mismatch the parser must fail with the stream it was given (before skipping comments), "
                "otherwise error recovery swallows the comments in front of the gap", ("tag",))
    # expect(): the error arms return Ok((err.input, None)) untouched
    ex = prog.body("spl_frontend::parser::utility::expect")
    if ex is None:
        out.missing("parser::utility::expect")
        return out
    n = 0
    # (the arms may sit in a helper of expect(): `recover(outcome, &msg)`)
    ex_bodies = [ex]
    for call_ in hir.nodes_deep(prog, ex["body"], 1, crate=c):
        if call_.get("k") in ("Call", "MethodCall"):
            hb_ = hir.local_callee_body(prog, call_)
            if hb_ is not None and hb_["_crate"] is c and c.file_of(hb_["sp"]) == c.file_of(ex["sp"]) and hb_ not in ex_bodies and hb_["k"] == "fn":
                ex_bodies.append(hb_)
    for ex_b, m in [(eb_, m_) for eb_ in ex_bodies for m_ in hir.nodes(eb_["body"], "Match")]:
        for arm in m["arms"]:
            pv = hir.pat_variant(arm["pat"])
            if pv and last(pv) == "Err":
                binds = list(hir.pat_bindings(arm["pat"]))
                # the arm that binds the whole ParserError (not the `Affected{input}` destructuring arm)
                errb = [x for x in binds if "error::ParserError" in c.tstr(x["bt"])]
                direct = False
                if len(errb) != 1:
                    # ... or the arm that takes the error apart and binds its `input` (not the `kind: Affected` retry arm)
                    errb = []
                    def rec_(p_):
                        p_ = hir.pat_strip(p_)
                        if not isinstance(p_, dict):
                            return
                        if p_.get("k") == "Struct" and (hir.adt_path(c, p_["t"]) or "").endswith("error::ParserError"):
                            flds = {f_["name"]: hir.pat_strip(f_["pat"]) for f_ in p_["fields"]}
                            if "kind" not in flds and flds.get("input", {}).get("k") == "Binding":
                                errb.append(flds["input"])
                        for q_ in p_.get("pats") or []:
                            rec_(q_)
                    rec_(arm["pat"])
                    direct = True
                    if len(errb) != 1:
                        continue
                good = _resumes_at_error_input(prog, ex_b, arm["body"], errb[0]["id"], direct=direct)
                takes = [x for x in hir.nodes_deep(prog, arm["body"], 2) if x.get("k") in ("Call", "MethodCall") and
                         ((hir.callee(x) or "").endswith("::advance") or (hir.callee(x) or "").endswith("complete::take"))]
                n += 1
                out.add("parser::utility::expect", "error arm resumes at the failing parser's input", good and not takes,
                        c.loc(arm["sp"]), "`Ok((err.input, None))` without consuming anything is expected", ("expect",))
    if n < 1:
        out.missing("error arm(s) in parser::utility::expect")
    # who may take tokens from a TokenStream
    comments = roles.comment_parsers(prog)
    takers_by_macro = {}
    for b in c.bodies:
        f = c.file_of(b["sp"])
        if not (f.endswith("parser.rs") or "/parser/" in f) or "/tests" in f:
            continue

        def _taker(x):
            return x["p"] in tags or x["p"] in comments or x["p"].startswith("spl_frontend::parser::utility::ignore_until")
        for n_ in calls_in(b["body"], "nom::bytes::complete::take"):
            ok = _taker(b) or hir.only_called_from(prog, b["p"], _taker)
            mx = [m for m in (n_.get("mx") or []) if m in (b.get("mx") or [])]
            if mx and ok:
                # a whole function generated by a local macro: one source site, one instance
                takers_by_macro.setdefault(mx[-1], c.loc(n_["sp"]))
                continue
            out.add(b["d"], "takes tokens only in tag_parser!/comment/ignore_until", ok, c.loc(n_["sp"]),
                    "a raw `take` outside the token parsers bypasses comment skipping", ("take",))
    for m_, loc_ in sorted(takers_by_macro.items()):
        out.add(m_, "takes tokens only in tag_parser!/comment/ignore_until", True, loc_, "", ("take",))
    # ... and who may *look* at the next raw token: a parser that inspects `input.fragment()` itself sees a comment
    # where the token parsers would have skipped it, so its decision depends on comments
    n_peek = 0
    for b in c.bodies:
        f = c.file_of(b["sp"])
        if not (f.endswith("parser.rs") or "/parser/" in f) or "/tests" in f:
            continue

        def _taker2(x):
            return x["p"] in tags or x["p"] in comments or x["p"].startswith("spl_frontend::parser::utility::ignore_until")
        for n_ in hir.nodes(b["body"], "MethodCall"):
            if n_["m"] in ("fragment", "tokens") and "TokenStream" in c.tstr(n_["recv"]["t"]) + "".join(c.tstr(a_["to"]) for a_ in n_["recv"].get("adj") or []):
                if n_["m"] == "tokens" and _taker2(b):
                    continue
                ok = _taker2(b) or hir.only_called_from(prog, b["p"], _taker2)
                mx = [m for m in (n_.get("mx") or []) if m in (b.get("mx") or [])]
                n_peek += 1
                if mx and ok:
                    continue
                out.add(b["d"], "inspects the next raw token only in tag_parser!/comment/ignore_until", ok, c.loc(n_["sp"]),
                        "`input.%s()` outside the token parsers looks at the next raw token without skipping comments: the "
                        "parse then depends on where comments are written" % n_["m"], ("take", "peek"))
    if n_peek == 0:
        out.missing("TokenStream::fragment() uses in the token parsers")
    # ignore_until* step over exactly one raw token per iteration: comments behind a skipped token may be the documentation of the
    # declaration recovery is looking for, so the stepping must not run the comment parser
    for b in c.bodies:
        if not b["p"].startswith("spl_frontend::parser::utility::ignore_until") or b["k"] == "closure":
            continue
        uses = [x for x in hir.nodes_deep(prog, b["body"], 2, crate=c) if x.get("k") == "Path" and x["res"].get("k") == "Def" and
                (x["res"].get("rp") or x["res"].get("p")) in comments]
        out.add(b["d"], "the recovery loop skips single tokens, never the comments behind them", not uses, c.loc((uses[0] if uses else b)["sp"]),
                "the token-skipping loop also consumes comments: the error region swallows the doc comments of the declaration that "
                "follows the damaged one (it loses its documentation, its range shrinks, the diagnostic covers foreign text)", ("recover",))
    # the five recovery parsers fail with the input they were given: whatever they consume in front of ignore_until (the
    # statement recovery skips comments first) must not stay consumed when there is nothing to ignore
    for rb, call, _la in recovery_sites(prog):
        if rb["k"] == "closure":
            continue
        consuming_prefix = False
        for x, parents in hir.walk(rb["body"]):
            if x is not call:
                continue
            chain = list(parents) + [x]
            for i_, pr in enumerate(chain[:-1]):
                nxt = chain[i_ + 1]
                if pr.get("k") == "Tup" and pr.get("es") and pr["es"][0] is not nxt and any(e_ is nxt for e_ in pr["es"]):
                    # element of a tuple((..)) sequence that is not the first one
                    if i_ > 0 and chain[i_ - 1].get("k") == "Call" and (hir.callee(chain[i_ - 1]) or "").endswith("sequence::tuple"):
                        consuming_prefix = True
                if pr.get("k") == "Call" and last(hir.callee(pr) or "") in ("pair", "preceded", "terminated", "separated_pair") and \
                        len(pr["args"]) >= 2 and pr["args"][0] is not nxt and any(a_ is nxt for a_ in pr["args"][1:]):
                    consuming_prefix = True
        ids = _param_ids(rb)
        if not consuming_prefix:
            out.add(rb["d"], "a recovery parser that finds nothing to ignore fails with the input it was given", True, c.loc(call["sp"]), "", ("recover",))
            continue
        n_lits, ok = _error_inputs_ok(prog, rb, ids[0]) if ids and ids[0] is not None else (0, False)
        out.add(rb["d"], "a recovery parser that finds nothing to ignore fails with the input it was given", n_lits > 0 and ok, c.loc(call["sp"]),
                "the recovery consumes tokens (comments) in front of `ignore_until` and its failure carries the input behind them: "
                "`expect` resumes there, so the comments - the doc comments of the next declaration - are swallowed and the "
                "follow-up diagnostics move into the next declaration", ("recover",))
    # whatever is handed to expect(..) fails *comment-neutral*: expect resumes at the failing parser's input, so a parser that skips
    # comments first and then finds nothing must report the input it was entered with - otherwise a missing token swallows the
    # comments behind it, i.e. the documentation of the next declaration.  The failure input of a parser expression is evaluated
    # abstractly: token parsers -> their own input (clauses above); alt -> its last alternative (nom returns the last error);
    # map/info/affected/.. -> the wrapped parser; a sequence -> its first element, `behind` if that is a comment skipper;
    # a function that rebuilds its errors from its own input -> its own input.
    ev = _FailInput(prog)
    n_exp = 0
    for b in c.bodies:
        f_ = c.file_of(b["sp"])
        if not (f_.endswith("src/parser.rs") or "/parser/" in f_) or "/tests" in f_:
            continue
        for call in hir.nodes(b["body"], "Call"):
            if (hir.callee(call) or "") != "spl_frontend::parser::utility::expect" or len(call["args"]) < 2:
                continue
            verdict = ev.parser(call["args"][1], b, 0)
            n_exp += 1
            out.add(b["d"], "the parser handed to expect() fails with the input it was entered with", None if verdict is None else verdict == "orig",
                    c.loc(call["sp"]), "the parser expected here skips comments and, when the expected thing is missing, reports the input *behind* "
                    "them: expect() resumes there, the comments (the doc comments of the next declaration) are swallowed by the damaged "
                    "node and its diagnostics land in the following declaration", ("expect", "neutral"))
    if n_exp < 20:
        out.missing("expect(..) call sites in the parser (found %d)" % n_exp)
    # declaration keywords are consumed only by the declaration parsers and look_ahead::global_dec
    for kw, owner in (("proc", "ProcedureDeclaration"), ("type", "TypeDeclaration")):
        # (the token parser of the keyword, by role: wherever the tag_parser! family lives)
        kw_paths = set(p_ for p_, v_ in tags.items() if v_ == kw.capitalize())
        users = []
        for b in c.bodies:
            for n_ in hir.nodes(b["body"], "Path"):
                r = n_["res"]
                if r.get("k") == "Def" and (r["p"] in kw_paths or r.get("rp") in kw_paths):
                    users.append((b, n_))
        if not users:
            out.missing("keywords::" + kw)
            continue
        for b, n_ in users:
            ok = (owner + " as parser::Parser>::parse") in b["d"] or b["p"].endswith("look_ahead::global_dec")
            out.add(b["d"], "keyword `%s` is consumed only by %s::parse / look_ahead::global_dec" % (kw, owner), ok,
                    c.loc(n_["sp"]), "a parser below declaration level that accepts `%s` lets a syntax error leak "
                    "into the next declaration" % kw, ("kw",))
    return out


class _FailInput:
    """Abstract evaluation of `which input does this parser report when it fails before consuming a token that is no comment`:
    'orig' (the input it was entered with) / 'behind' (behind comments it skipped) / None (unknown)."""

    WRAP0 = ("map", "info", "cut", "verify", "recognize", "consumed", "peek", "map_res", "map_opt", "context", "into", "all_consuming", "many1", "many",
             "inc", "confusable")
    SEQ = ("preceded", "pair", "tuple", "terminated", "delimited", "separated_pair")
    NEVER = ("opt", "many0", "expect", "success")

    def __init__(self, prog):
        self.prog = prog
        self.c = prog.front
        self.tags = tag_parsers(prog)
        self.memo = {}

    def combine(self, vs):
        vs = list(vs)
        if not vs:
            return None
        if any(v == "behind" for v in vs):
            return "behind"
        if all(v == "orig" for v in vs):
            return "orig"
        return None

    def is_comment_skip(self, e):
        e = hir.strip(e)
        if e.get("k") == "Call" and last(hir.callee(e) or "") in ("many0", "many1") and e["args"]:
            a = hir.strip(e["args"][0])
            d = hir.path_def(a) if a.get("k") == "Path" else None
            return bool(d) and last(d.get("rp") or d.get("p") or "") == "comment"
        return False

    def restores(self, b):
        ids = _param_ids(b)
        inp = None
        for q in b["params"]:
            for bd in hir.pat_bindings(q):
                if "TokenStream" in self.c.tstr(bd["bt"]):
                    inp = bd["id"]
        if inp is None:
            return False
        n_lits, ok = _error_inputs_ok(self.prog, b, inp)
        has_map_err = any(x.get("k") == "MethodCall" and x["m"] == "map_err" for x in hir.nodes(b["body"]))
        if not has_map_err:
            # the same written out: no parser error leaves through `?`, and a `match` replaces every `Err(..)` by the rebuilt error
            tries = [x for x in hir.nodes(b["body"], "Try") if "ParserError" in self.c.tstr(hir.strip(x["e"])["t"])]
            err_arms = [a_ for m_ in hir.nodes(b["body"], "Match") for a_ in m_["arms"]
                        if any(v.endswith("Result::Err") for v in hir.pat_variants_all(a_["pat"]))
                        and not list(hir.pat_bindings(a_["pat"]))
                        and any((s_.get("adt") or "").endswith("error::ParserError") for s_ in hir.nodes(a_["body"], "Struct"))]
            has_map_err = not tries and bool(err_arms)
        return n_lits > 0 and ok and has_map_err

    def function(self, b, depth):
        if b["p"] in self.memo:
            return self.memo[b["p"]]
        # recursion guard: a parser reaches itself again only behind a consumed token (`(` Expression `)`), where a failure is no longer
        # a failure "before a token was consumed"; the recursive occurrence is therefore assumed neutral
        self.memo[b["p"]] = "orig"
        if b["p"] in self.tags:
            r = "orig"
        elif self.restores(b):
            r = "orig"
        else:
            r = self.applications(b["body"], b, [q for q in b["params"]], depth)
        self.memo[b["p"]] = r
        return r

    def applications(self, root, b, params, depth):
        """parsers applied to the (original) input of `root`'s owner: every one of them is a first step on some path"""
        inp_ids = set()
        for q in params:
            for bd in hir.pat_bindings(q):
                if "TokenStream" in self.c.tstr(bd["bt"]):
                    inp_ids.add(bd["id"])
        res = []
        for call in hir.nodes(root, "Call"):
            if not any((hir.path_local(hir.strip(a)) or {}).get("id") in inp_ids for a in call["args"]):
                continue
            f = hir.strip(call["f"])
            d = hir.path_def(f) if f.get("k") == "Path" else None
            if d and d.get("dk") in ("Fn", "AssocFn"):
                res.append(self.path(f, b, depth + 1))
            else:
                res.append(self.parser(f, b, depth + 1))
        for mc in hir.nodes(root, "MethodCall"):
            # `parser.parse(input)` / `inner.parse(this, input)` on a let-bound or parameter parser
            if mc["m"] == "parse" and any((hir.path_local(hir.strip(a)) or {}).get("id") in inp_ids for a in mc["args"]):
                res.append(self.parser(mc["recv"], b, depth + 1))
        return self.combine(res)

    def path(self, e, b, depth):
        d = hir.path_def(e)
        if not d or depth > 60:
            return None
        p_ = d.get("rp") or d.get("p")
        if p_ in self.tags:
            return "orig"
        body = self.prog.body(p_) if p_ and p_.startswith("spl_frontend::") else None
        if body is None:
            return None
        if body["d"].startswith("<ast::Reference<") and body["d"].endswith("as parser::Parser>::parse"):
            # Reference<T>::parse wraps T::parse
            ta = e["res"].get("targs") or []
            for t_ in ta:
                ty = self.c.ty(int(t_))
                # the Self type of the call: Reference<T> -> T
                if ty["k"] == "adt" and last(ty["p"]) == "Reference" and ty.get("a"):
                    ty = self.c.ty(int(ty["a"][0]))
                nm = ty.get("s") or self.c.tstr(int(t_))
                tb = [x for x in self.c.bodies if x["d"] == "<%s as parser::Parser>::parse" % nm or x["d"] == "<ast::%s as parser::Parser>::parse" % last(nm)]
                if tb:
                    return self.function(tb[0], depth + 1)
            return None
        return self.function(body, depth + 1)

    def parser(self, e, b, depth):
        e = hir.strip_ref(e)
        if depth > 60:
            return None
        k = e.get("k")
        if k == "Path":
            pl = hir.path_local(e)
            if pl:
                for l in hir.nodes(b["body"], "Let"):
                    if l["pat"].get("k") == "Binding" and l["pat"]["id"] == pl["id"] and l.get("init") is not None:
                        return self.parser(l["init"], b, depth + 1)
                return None
            return self.path(e, b, depth)
        if k == "Closure":
            # a closure that rebuilds its errors from (a clone of) its own input
            inp = None
            for q in e["params"]:
                for bd in hir.pat_bindings(q):
                    if "TokenStream" in self.c.tstr(bd["bt"]):
                        inp = bd["id"]
            if inp is not None and any(x.get("k") == "MethodCall" and x["m"] == "map_err" for x in hir.nodes(e["body"])):
                n_lits, ok = _error_inputs_ok(self.prog, {"body": e["body"], "p": b["p"] + "::{closure}"}, inp, 0)
                if n_lits > 0 and ok:
                    return "orig"
            return self.applications(e["body"], b, e["params"], depth)
        if k == "Call":
            cal = hir.callee(e) or ""
            nm = last(cal)
            args = e["args"]
            if cal.endswith("branch::alt") and args:
                es = hir.strip(args[0]).get("es") or []
                return self.parser(es[-1], b, depth + 1) if es else None
            if nm == "affected" and len(args) >= 2:
                return self.parser(args[1], b, depth + 1)
            if nm in self.NEVER:
                return "orig"
            if nm in self.WRAP0 and args:
                return self.parser(args[0], b, depth + 1)
            if nm in self.SEQ and args:
                elems = (hir.strip(args[0]).get("es") or []) if nm == "tuple" else args
                for el in elems:
                    if self.is_comment_skip(el):
                        return "behind"
                    el_ = hir.strip(el)
                    if el_.get("k") == "Call" and last(hir.callee(el_) or "") in self.NEVER:
                        continue    # cannot fail: the next element decides
                    return self.parser(el, b, depth + 1)
                return "orig"
            # a local function that *returns* a parser, or is applied partially: unknown
            hb = hir.local_callee_body(self.prog, e)
            if hb is not None and any("TokenStream" in self.c.tstr(pp["bt"]) for q in hb["params"] for pp in hir.pat_bindings(q)):
                return self.function(hb, depth + 1)
            return None
        if k == "MethodCall" and e["m"] in ("map_err",):
            return self.parser(e["recv"], b, depth + 1)
        return None


class _FirstSet(_FailInput):
    """Abstract evaluation of `which tokens can be the first token (comments aside) a parser expression consumes`: a set of
    TokenType variant names, "?" standing for a part that was not understood, "" for `may succeed without consuming`."""

    def combine(self, vs):
        res = set()
        for v in vs:
            res |= (v if v is not None else {"?"})
        return res

    def function(self, b, depth):
        if b["p"] in self.memo:
            return self.memo[b["p"]]
        self.memo[b["p"]] = set()      # a parser reaches itself again only behind a consumed token
        if b["p"] in self.tags:
            r = {self.tags[b["p"]]}
        else:
            r = self.applications(b["body"], b, [q for q in b["params"]], depth)
        self.memo[b["p"]] = r
        return r

    def path(self, e, b, depth):
        d = hir.path_def(e)
        p_ = (d or {}).get("rp") or (d or {}).get("p")
        if p_ in self.tags:
            return {self.tags[p_]}
        r = _FailInput.path(self, e, b, depth)
        return {"?"} if r is None else r

    def parser(self, e, b, depth):
        e = hir.strip_ref(e)
        if depth > 60:
            return {"?"}
        k = e.get("k")
        if k == "Closure":
            return self.applications(e["body"], b, e["params"], depth)
        if k == "Call":
            cal = hir.callee(e) or ""
            nm = last(cal)
            args = e["args"]
            if cal.endswith("branch::alt") and args:
                es = hir.strip(args[0]).get("es") or []
                return self.combine(self.parser(x, b, depth + 1) for x in es)
            if nm == "affected" and len(args) >= 2:
                return self.parser(args[1], b, depth + 1)
            if nm == "success":
                return {""}
            if nm == "expect" and len(args) >= 2:
                return self.parser(args[1], b, depth + 1) | {""}
            if nm in ("opt", "many0") and args:
                if self.is_comment_skip(e):
                    return {""}
                return self.parser(args[0], b, depth + 1) | {""}
            if nm in self.WRAP0 and args:
                return self.parser(args[0], b, depth + 1)
            if nm in self.SEQ and args:
                elems = (hir.strip(args[0]).get("es") or []) if nm == "tuple" else args
                res = set()
                for el in elems:
                    f = self.parser(el, b, depth + 1)
                    res |= f - {""}
                    if "" not in f:
                        return res
                return res | {""}
            hb = hir.local_callee_body(self.prog, e)
            if hb is not None and any("TokenStream" in self.c.tstr(pp["bt"]) for q in hb["params"] for pp in hir.pat_bindings(q)):
                return self.function(hb, depth + 1)
            return {"?"}
        r = _FailInput.parser(self, e, b, depth)
        return {"?"} if r is None else r


# ------------------------------------------------------------------ PARSE-SHAPE

def rule_parse_shape(prog):
    out = Out("PARSE-SHAPE")
    c = prog.front
    fns = {}
    for b in c.bodies:
        if "ast::Expression as parser::Parser>::parse::" in b["d"]:
            fns[b["name"]] = b
    if not fns:
        # the expression grammar moved out of Expression::parse into functions of the parser module
        for b in c.bodies:
            if b["p"].startswith("spl_frontend::parser") and b["k"] == "fn" and b["name"].startswith("parse_") and "/tests" not in c.file_of(b["sp"]) \
                    and "Expression" in c.tstr(b.get("sig_out", 0) or 0):
                fns.setdefault(b["name"], b)
    need = ("parse_bracketed", "parse_primary", "parse_unary", "parse_factor", "parse_rhs", "parse_mul", "parse_add",
            "parse_comparison")
    canon = {}
    if any(n not in fns for n in need):
        # by role: the functions of the parser that yield an Expression, told apart by the tokens they ask for and the nodes they build
        # (the levels may have been renamed and moved to a module of their own)
        tags_ = tag_parsers(prog)
        cands = [b for b in c.bodies if b["k"] == "fn" and (c.file_of(b["sp"]).endswith("src/parser.rs") or "/parser/" in c.file_of(b["sp"]))
                 and "/tests" not in c.file_of(b["sp"]) and "sig_out" in b and "Expression" in c.tstr(b["sig_out"])]
        role_of = {}
        for b in cands:
            toks_ = {tags_[n_["res"]["p"]] for n_ in hir.nodes(b["body"], "Path") if n_["res"].get("k") == "Def" and n_["res"].get("p") in tags_}
            ctors_ = {last(n_["res"]["ctor_of"]) for n_ in hir.nodes(b["body"], "Path") if (n_["res"].get("ctor_of") or "").startswith("spl_frontend::ast::Expression::")}
            structs_ = {last(n_.get("adt") or "") for n_ in hir.nodes(b["body"], "Struct")}
            leafs_ = {n_["res"].get("p") or "" for n_ in hir.nodes(b["body"], "Path") if n_["res"].get("k") == "Def"}
            r_ = None
            if {"Times", "Divide"} <= toks_:
                r_ = "parse_mul"
            elif {"Plus", "Minus"} <= toks_:
                r_ = "parse_add"
            elif {"Eq", "Lt"} <= toks_ or {"Eq", "Neq"} <= toks_:
                r_ = "parse_comparison"
            elif "LParen" in toks_ and ("Bracketed" in ctors_ or "BracketedExpression" in structs_):
                r_ = "parse_bracketed"
            elif "Minus" in toks_ and ("Unary" in ctors_ or "UnaryExpression" in structs_):
                r_ = "parse_unary"
            elif "BinaryExpression" in structs_ or "Binary" in ctors_:
                r_ = "parse_rhs"
            elif {"IntLiteral", "Variable"} <= ctors_:
                r_ = "parse_primary"
            if r_ is not None and r_ not in role_of.values():
                role_of[b["p"]] = r_
        by_p = {b["p"]: b for b in cands}
        # factor: the one that refers to exactly primary and unary
        for b in cands:
            if b["p"] in role_of:
                continue
            rf_ = {role_of.get(n_["res"].get("p")) for n_ in hir.nodes(b["body"], "Path") if n_["res"].get("k") == "Def" and n_["res"].get("p") in by_p}
            rf_.discard(None)
            if rf_ == {"parse_primary", "parse_unary"}:
                role_of[b["p"]] = "parse_factor"
        if set(role_of.values()) >= set(need):
            fns = {r_: by_p[p_] for p_, r_ in role_of.items()}
            canon = {by_p[p_]["name"]: r_ for p_, r_ in role_of.items()}
    merged_primary = False
    if "parse_primary" not in fns and "parse_factor" in fns:
        # Primary folded into Factor (`Factor := IntLit | Variable | Bracketed | Unary`): the factor level builds the primary nodes itself
        ct_ = {last(n_["res"]["ctor_of"]) for n_ in hir.nodes(fns["parse_factor"]["body"], "Path")
               if (n_["res"].get("ctor_of") or "").startswith("spl_frontend::ast::Expression::")}
        if {"IntLiteral", "Variable"} <= ct_:
            fns["parse_primary"] = fns["parse_factor"]
            merged_primary = True
    if any(n not in fns for n in need):
        out.missing("Expression::parse::{%s}" % ",".join(n for n in need if n not in fns))
        return out

    def cn(name):
        return canon.get(name, name)

    def refs(b):
        """local expression-level fns referenced (as value or call) in body b."""
        res = []
        for n in hir.nodes(b["body"], "Path"):
            r = n["res"]
            if r.get("k") == "Def" and r["p"].startswith(b["p"].rsplit("::", 1)[0] + "::"):
                res.append(cn(last(r["p"])))
        return res

    def loop_kind(b):
        kinds = set()
        for n in hir.nodes(b["body"]):
            if n.get("k") == "While" or (n.get("k") == "Loop" and n["src"] == "while"):
                kinds.add("while")
        return kinds

    def effective(b):
        """a level that only delegates to a shared helper with its operand parser(s) as arguments is analysed as the
        helper's body with the function parameters substituted"""
        scope = b["p"].rsplit("::", 1)[0] + "::"
        for n in hir.nodes(b["body"], "Call"):
            hb = hir.local_callee_body(prog, n)
            if hb is None or not hb["p"].startswith(scope) or cn(hb["name"]) in need:
                continue
            ids = _param_ids(hb)
            subst = {}
            for i, a_ in enumerate(n["args"]):
                d = hir.path_def(a_)
                if d and cn(last(d["p"])) in need and i < len(ids) and ids[i] is not None:
                    subst[ids[i]] = cn(last(d["p"]))
            if subst:
                return hb, subst
        return b, {}

    def rhs_calls(b0):
        """(first operand parser, [right operand parser passed to parse_rhs], lhs arg places)"""
        b, subst = effective(b0)

        def name_of(e):
            e = hir.strip_ref(e)
            d = hir.path_def(e)
            if d:
                return cn(last(d["p"])) if d["p"].startswith(b0["p"].rsplit("::", 1)[0]) else None
            pl = hir.path_local(hir.strip(e))
            return subst.get(pl["id"]) if pl else None
        first = None
        rights = []
        lhs = []
        for n in hir.nodes(b["body"], "Call"):
            nm = name_of(n["f"])
            if not nm:
                continue
            if nm == "parse_rhs":
                rights.append(name_of(n["args"][3]))
                lhs.append(place(n["args"][1]))
            elif nm in need and first is None and nm != "parse_rhs":
                first = nm
        return first, rights, lhs, b

    spec = {"parse_comparison": ("parse_add", "parse_add", False),
            "parse_add": ("parse_mul", "parse_mul", True),
            "parse_mul": ("parse_factor", "parse_factor", True)}
    for lvl, (first_want, right_want, loops) in sorted(spec.items()):
        first, rights, lhs, b = rhs_calls(fns[lvl])
        loc = c.loc(fns[lvl]["sp"])
        out.add("Expression::parse::" + lvl, "left operand parsed by " + first_want, first == first_want, loc,
                "found %s" % first)
        out.add("Expression::parse::" + lvl, "right operand parsed by the next tighter level " + right_want,
                rights == [right_want], loc,
                "found %s — a right operand parsed at the same level makes the operator right-associative" % rights)
        has_while = "while" in loop_kind(b)
        verdict_ = has_while == loops
        if b is not fns[lvl]:
            # a shared level helper whose loop is left by a `break` under a test of one of its parameters (`Chain::AtMostOne`):
            # how often the operator is applied is decided by the argument, which this clause does not evaluate
            pids_ = {bd["id"] for q in b["params"] for bd in hir.pat_bindings(q)}
            for lp_ in hir.nodes(b["body"]):
                if lp_.get("k") in ("While", "Loop"):
                    for br_, prs_ in hir.walk(lp_["body"]):
                        if br_.get("k") == "Break" and any(
                                pr_.get("k") in ("If", "Match") and any((hir.path_local(x_) or {}).get("id") in pids_
                                                                        for x_ in hir.nodes(pr_.get("cond") or pr_.get("scrut") or {}))
                                for pr_ in prs_):
                            verdict_ = None
        out.add("Expression::parse::" + lvl, "operator applied %s" % ("repeatedly (left-assoc loop)" if loops else "at most once"),
                verdict_, loc, "comparison is non-associative; + - * / fold to the left in a loop")
        # the accumulated expression is passed as lhs
        acc = None
        for n in hir.nodes(b["body"], "Let"):
            for bd in hir.pat_bindings(n["pat"]):
                if "mut" in bd["mode"].lower() and bd["name"] != "input":
                    acc = "%s#%s" % (bd["name"], bd["id"])
        out.add("Expression::parse::" + lvl, "accumulated expression is the left operand", bool(lhs) and all(x == acc for x in lhs),
                loc, "lhs passed: %s, accumulator: %s" % (lhs, acc))
    r = refs(fns["parse_unary"])
    out.add("Expression::parse::parse_unary", "operand parsed by parse_factor (allows `- - x`)", "parse_factor" in r and "parse_primary" not in r,
            c.loc(fns["parse_unary"]["sp"]), "found %s" % r)
    r = set(refs(fns["parse_factor"]))
    out.add("Expression::parse::parse_factor", "= primary | unary", (r == {"parse_primary", "parse_unary"}) if not merged_primary else
            ({"parse_unary", "parse_bracketed"} <= r and not (r & {"parse_mul", "parse_add", "parse_comparison", "parse_rhs"})),
            c.loc(fns["parse_factor"]["sp"]), "found %s" % sorted(r))
    r = refs(fns["parse_bracketed"])
    out.add("Expression::parse::parse_bracketed", "inner expression restarts at comparison level", "parse_comparison" in r,
            c.loc(fns["parse_bracketed"]["sp"]), "found %s" % r)
    r = refs(fns["parse_primary"])
    out.add("Expression::parse::parse_primary", "includes bracketed expressions", "parse_bracketed" in r, c.loc(fns["parse_primary"]["sp"]), "found %s" % r)
    top = [b for b in c.bodies if b["d"].endswith("<ast::Expression as parser::Parser>::parse")]
    if top:
        r = refs_top(top[0])
        # (the level functions may live beside Expression::parse instead of inside it)
        r += [cn(last(n_["res"]["p"])) for n_ in hir.nodes(top[0]["body"], "Path")
              if n_["res"].get("k") == "Def" and any(n_["res"].get("p") == fb_["p"] for fb_ in fns.values())]
        out.add("Expression::parse", "entry is parse_comparison", "parse_comparison" in r, c.loc(top[0]["sp"]), "found %s" % r)
    # IfStatement: opt(preceded(keywords::else, ..)) after the branch parser => else binds to innermost if
    ifp = [b for b in c.bodies if b["d"].endswith("<ast::IfStatement as parser::Parser>::parse")]
    if not ifp:
        out.missing("IfStatement::parse")
        return out
    tags = tag_parsers(prog)
    ok = False
    for n in calls_in(ifp[0]["body"], "nom::combinator::opt"):
        inner = hir.strip(n["args"][0])
        if inner.get("k") == "Call" and (hir.callee(inner) or "").endswith("nom::sequence::preceded"):
            d = hir.path_def(inner["args"][0])
            if d and tags.get(d["p"]) == "Else":
                ok = True
    out.add("IfStatement::parse", "`else` is an optional suffix of the innermost if", ok, c.loc(ifp[0]["sp"]),
            "opt(preceded(keywords::else, statement)) directly after the then-branch")
    return out


def refs_top(b):
    res = []
    for n in hir.nodes(b["body"], "Path"):
        r = n["res"]
        if r.get("k") == "Def" and r["p"].startswith(b["p"] + "::"):
            res.append(last(r["p"]))
    return res


# ------------------------------------------------------------------ EQ-COMPLETE

def rule_eq_complete(prog):
    """Equality of tokens, AST nodes, table entries and data types is what incremental reuse (token
    comparison) and SPL's name equivalence of array types rest on: PartialEq must be derived, or, when
    hand written, mention every field."""
    out = Out("EQ-COMPLETE")
    c = prog.front
    n = 0
    for ip, impl in sorted(c.impls.items()):
        if impl.get("trait") != "core::cmp::PartialEq":
            continue
        st = c.ty(impl["self"])
        if st["k"] != "adt" or st["p"] not in c.adts:
            continue
        n += 1
        derived = "PartialEq" in (impl.get("mx") or [])
        adt = c.adts[st["p"]]
        if derived:
            out.add(st["s"], "PartialEq compares every field (derived)", True, c.loc(impl["sp"]))
            continue
        eq = [it for it in impl["items"] if it["name"] == "eq"]
        body = prog.body(eq[0]["p"]) if eq else None
        fields = set(f["name"] for v in adt["variants"] for f in v["fields"])
        seen = set()
        if body:
            for x in hir.nodes(body["body"], "Field"):
                seen.add(x["name"])
            for m in hir.nodes(body["body"], "Match"):
                for arm in m["arms"]:
                    for alt in hir.pat_alternatives(arm["pat"]):
                        _collect_field_pats(alt, seen)
            for l in hir.nodes(body["body"], "Let"):
                _collect_field_pats(l["pat"], seen)
        missing = sorted(fields - seen)
        out.add(st["s"], "PartialEq compares every field (hand written)", not missing, c.loc(impl["sp"]),
                "hand-written equality ignores field(s) %s" % missing)
    if n == 0:
        out.missing("PartialEq impls of spl_frontend ADTs")
    return out


def _collect_field_pats(p, seen):
    p = hir.pat_strip(p)
    k = p.get("k")
    if k == "Struct":
        for f in p["fields"]:
            if not hir.pat_strip(f["pat"]).get("k") == "Wild":
                seen.add(f["name"])
            _collect_field_pats(f["pat"], seen)
    elif k in ("TupleStruct", "Tuple", "Or"):
        for i, q in enumerate(p["pats"]):
            if k == "TupleStruct" and hir.pat_strip(q).get("k") != "Wild":
                seen.add(str(i))
            _collect_field_pats(q, seen)


# ------------------------------------------------------------------ EMPTY-RANGE-GUARD

def rule_empty_range_guard(prog):
    """tokens[range].first()/last().expect(..) must only be reached when `range` is known to be non-empty: in a match arm
    behind the `is_empty()` arm, in the else branch of / after an early return on `is_empty()`."""
    out = Out("EMPTY-RANGE-GUARD")
    c = prog.front
    targets = [b for b in c.bodies if b["d"] in ("<AnalyzedSource as ErrorContainer>::errors", "<ast::AstInfo as ToTextRange>::to_text_range")]
    if len(targets) != 2:
        out.missing("AnalyzedSource::errors / AstInfo::to_text_range")
        return out

    def mentions_is_empty(e):
        return e is not None and any(n["m"] == "is_empty" for n in hir.nodes(e, "MethodCall"))

    def diverges(blk):
        return any(True for _ in hir.nodes(blk, "Ret")) or any(True for _ in hir.nodes(blk, "Break")) or any(True for _ in hir.nodes(blk, "Continue"))

    for b in targets:
        roots = [b["body"]]
        # helpers extracted from these functions count too
        for call in hir.nodes(b["body"]):
            if call.get("k") in ("Call", "MethodCall"):
                hb = hir.local_callee_body(prog, call)
                if hb is not None and c.file_of(hb["sp"]) == c.file_of(b["sp"]) and hb["p"] != b["p"] and hb.get("impl_trait") is None:
                    roots.append(hb["body"])
        found = 0
        for root in roots:
            for n, parents in hir.walk(root):
                if not (n.get("k") == "MethodCall" and n["m"] in ("expect", "unwrap") and
                        any(x.get("k") == "MethodCall" and x["m"] in ("first", "last") for x in hir.nodes(n["recv"]))):
                    continue
                found += 1
                guarded = False
                chain = list(parents) + [n]
                for i, p in enumerate(chain[:-1]):
                    nxt = chain[i + 1]
                    if p.get("k") == "Match":
                        # an earlier arm guards on is_empty, we are in a later arm
                        arms = p["arms"]
                        idx = [k for k, a in enumerate(arms) if a is nxt]
                        if idx and any(mentions_is_empty(a.get("guard")) for a in arms[:idx[0]]):
                            guarded = True
                    if p.get("k") == "If" and mentions_is_empty(p["cond"]):
                        cond = hir.strip(p["cond"])
                        negated = cond.get("k") == "Unary" and cond["op"] == "!"
                        in_then = nxt is p["then"] or any(x is nxt for x in hir.nodes(p["then"]))
                        if (in_then and negated) or (not in_then and not negated):
                            guarded = True
                    if p.get("k") == "Block":
                        for st in p["stmts"]:
                            if st is nxt or any(x is nxt for x in hir.nodes(st)):
                                break
                            for iff in hir.nodes(st, "If"):
                                cond = hir.strip(iff["cond"])
                                if mentions_is_empty(cond) and not (cond.get("k") == "Unary" and cond["op"] == "!") and diverges(iff["then"]):
                                    guarded = True
                if not guarded:
                    # the site sits in an arm of a match on a type of the crate (a variant that is only built for a non-empty range):
                    # the guard is where the variant is built - not followed
                    for p in chain[:-1]:
                        if p.get("k") == "Arm" and any(v.startswith("spl_frontend::") for v in hir.pat_variants_all(p["pat"])):
                            guarded = None
                out.add(b["d"], "first()/last().expect() is reached only for a non-empty range", guarded, c.loc(n["sp"]),
                        "slicing tokens with an empty range and then unwrapping first()/last() panics; the empty case must be "
                        "handled first")
        if found == 0:
            out.add(b["d"], "no unguarded first()/last().expect()", True, c.loc(b["sp"]), "")
    # the text range of a published diagnostic starts at the first token of the node *that is no comment*: every token parser
    # skips the comments in front of its token inside the node, so the node's token range begins with them
    eb = [b for b in targets if b["d"] == "<AnalyzedSource as ErrorContainer>::errors"]
    if eb:
        tests = False
        for x in hir.nodes_deep(prog, eb[0]["body"], 3, crate=c):
            pats = [a_["pat"] for a_ in x["arms"]] if x.get("k") == "Match" else [x["pat"]] if x.get("k") == "LetExpr" else []
            if any("spl_frontend::tokens::TokenType::Comment" in hir.pat_variants_all(pt) for pt in pats):
                tests = True
        out.add(eb[0]["d"], "the range of a diagnostic starts behind the comments in front of the construct", tests, c.loc(eb[0]["sp"]),
                "the start of the text range is the start of the node's first token, comments included: `// note⏎ i := a;` reports "
                "`assignment has different types` on the comment line as well", ("diagstart",))
        # ... and behind *all* of them: each comment line is a token of its own.  The comment test is the predicate of a search
        # (find / position / skip_while / a loop); a test that sits in an arm of a match over slice patterns looks at a fixed number
        # of tokens (`[comment, first, ..]`) and leaves the second comment line inside the range
        SEARCH = ("find", "position", "rposition", "skip_while", "take_while", "filter", "find_map", "filter_map", "rfind", "any", "all", "trim_start_matches")
        searched = fixed = False
        for x, parents in hir.walk(eb[0]["body"]):
            pats = [a_["pat"] for a_ in x["arms"]] if x.get("k") == "Match" else [x["pat"]] if x.get("k") == "LetExpr" else []
            if not any("spl_frontend::tokens::TokenType::Comment" in hir.pat_variants_all(pt) for pt in pats):
                continue
            in_search = any((p_.get("k") == "MethodCall" and p_["m"] in SEARCH) or p_.get("k") in ("Loop", "While", "ForLoop") for p_ in parents)
            in_slice_arm = any(p_.get("k") == "Match" and any(hir.pat_strip(a_["pat"]).get("k") == "Slice" for a_ in p_["arms"]) for p_ in parents)
            if in_search:
                searched = True
            elif in_slice_arm:
                fixed = True
        if tests:
            out.add(eb[0]["d"], "all the comments in front of the construct are skipped, however many", True if searched else (False if fixed else None),
                    c.loc(eb[0]["sp"]), "the comment test %s" % ("is the predicate of a search over the tokens" if searched else
                    "sits in an arm over slice patterns: a fixed number of leading tokens is looked at, `// a⏎ // b⏎ f();` reports on line b"
                    if fixed else "is of a shape not read here"), ("diagstart",))
        # the text range of a diagnostic is taken from the tokens its token range names: the slice `tokens[range]`, or the token at the
        # range's own bound for an empty range.  A neighbour (`tokens[range.end + 1]`) may belong to the next declaration.
        defs = _let_defs(eb[0]["body"])
        idx = []
        for x in hir.nodes_deep(prog, eb[0]["body"], 3, crate=c):
            ie = None
            if x.get("k") == "Index" and "Token" in c.tstr(hir.strip_ref(x["base"])["t"]):
                ie = x["idx"]
            elif x.get("k") == "MethodCall" and x["m"] in ("get", "get_mut", "nth", "skip", "split_at") and x.get("args") and \
                    "Token" in c.tstr(hir.strip_ref(x["recv"])["t"]):
                ie = x["args"][0]
            if ie is not None:
                idx.append(ie)

        def arith(e, depth=0):
            e = hir.strip_ref(e)
            if e.get("k") == "Binary" and e["op"] in ("+", "-"):
                return True
            if e.get("k") == "MethodCall" and e["m"] in ("saturating_sub", "saturating_add", "wrapping_add", "wrapping_sub", "checked_add",
                                                         "checked_sub", "pred", "succ"):
                return True
            pl = hir.path_local(e)
            if pl and pl["id"] in defs and depth < 3:
                return arith(defs[pl["id"]], depth + 1)
            return False
        if idx:
            bad = [ie for ie in idx if arith(ie)]
            out.add(eb[0]["d"], "the text range of a diagnostic is taken from the tokens its token range names, not from a neighbour",
                    not bad, c.loc((bad or idx)[0]["sp"]),
                    "a token next to the range is indexed (bound of the range plus or minus something): the diagnostic of a declaration "
                    "whose last token is missing lands on the `type`/`proc` keyword of the following declaration (`type a = int type b..`)",
                    ("diagtokens",))
    return out


# ------------------------------------------------------------------ EOF-ONCE

def rule_eof_once(prog):
    """Exactly one Eof token is appended by lex() and re-appended by update()."""
    out = Out("EOF-ONCE")
    c = prog.front
    ctor = TT + "::Eof"
    sites = {}
    for b in c.bodies:
        f_ = c.file_of(b["sp"])
        if not (f_.endswith("lexer.rs") or "/lexer/" in f_) or "/tests" in f_:
            continue
        for n in hir.nodes(b["body"], "Path"):
            if n["res"].get("ctor_of") == ctor:
                sites.setdefault(b["d"], []).append(c.loc(n["sp"]))
    # (by role: exactly one function of the lexer builds the Eof token - that function is the end-of-input lexer)
    out.add("lexer", "TokenType::Eof is constructed only by <Eof as Lexer>::lex",
            len(sites) == 1, "", "construction sites: %s" % sites)
    lex = prog.body("spl_frontend::lexer::lex")
    upd = prog.body("spl_frontend::lexer::update")
    if not lex or not upd:
        out.missing("lexer::lex / lexer::update")
        return out
    eoflex = [b for b in c.bodies if b["d"] in sites] if len(sites) == 1 else []
    lex_nodes = list(hir.nodes_deep(prog, lex["body"], 1, crate=c))
    uses = [n for n in lex_nodes if n.get("k") == "Path" and eoflex and eoflex[0]["p"] in (n["res"].get("p"), n["res"].get("rp"))]
    pushes = [n for n in lex_nodes if n.get("k") == "MethodCall" and n["m"] == "push" and "Token" in c.tstr(hir.strip(n["recv"])["t"])]
    out.add("lexer::lex", "lexes Eof once and pushes it once", len(uses) == 1 and len(pushes) == 1, c.loc(lex["sp"]),
            "Eof lexer used %d times, %d push" % (len(uses), len(pushes)))
    # update: pop()s the old Eof (checked to be Eof) and the token vector that is handed back ends with it: the final concat ends
    # with vec![eof], or the last thing appended to the result is the popped token
    pops = [n for n in hir.nodes(upd["body"], "MethodCall") if n["m"] == "pop"]
    concat = [n for n in hir.nodes(upd["body"], "MethodCall") if n["m"] == "concat"]
    popped = set()
    for l in hir.nodes(upd["body"], "Let"):
        if l.get("init") is not None and any(x["m"] == "pop" for x in hir.nodes(l["init"], "MethodCall")):
            for bd in hir.pat_bindings(l["pat"]):
                popped.add(bd["id"])
    # (`let eof = match tokens.pop() { Some(eof) if .. => shift(eof, ..), .. }`: the let binding stands for the popped token)
    ok = None
    if concat:
        arr = hir.strip_ref(concat[0]["recv"])
        es = arr.get("es", [])
        if es:
            tail = es[-1]
            locs = [n for n in hir.nodes(tail, "Path") if n["res"].get("k") == "Local" and n["res"]["id"] in popped]
            ok = bool(locs)
    else:
        blk = hir.strip(upd["body"])
        stmts = blk["b"]["stmts"] if blk.get("k") == "BlockExpr" else []
        appends = [m for st in stmts for m in hir.nodes(st, "MethodCall")
                   if m["m"] in ("push", "extend", "append", "extend_from_slice") and "Token" in c.tstr(hir.strip(m["recv"])["t"])
                   and not any(pr.get("k") in ("ForLoop", "While", "Loop", "Closure") for pr in [])]
        # the appends at statement level of the function (not inside loops): the last one decides
        top_appends = []
        for st in stmts:
            inner = hir.stmt_inner(st)
            if inner is not None and inner.get("k") == "MethodCall" and inner["m"] in ("push", "extend", "append", "extend_from_slice") and \
                    "Token" in c.tstr(hir.strip(inner["recv"])["t"]):
                top_appends.append(inner)
        if top_appends:
            lastm = top_appends[-1]
            ok = lastm["m"] == "push" and any(n["res"].get("k") == "Local" and n["res"]["id"] in popped for a_ in lastm["args"] for n in hir.nodes(a_, "Path"))
    out.add("lexer::update", "old Eof is popped once and re-appended last", None if ok is None else (len(pops) == 1 and ok), c.loc(upd["sp"]),
            "%d pop(), result ends with eof: %s" % (len(pops), ok))
    return out


# ------------------------------------------------------------------ TOKCHANGE-ARGS (old/new epochs)

def rule_tokchange_args(prog):
    """TokenChange::{new_token_pos, deletes, overlaps} reason about positions in the *old* token vector in
    absolute coordinates. A reused node's range is relative to its enclosing Reference, so whatever reaches these
    methods must have been made absolute with `get_old_reference()` (sum of the old Reference offsets)."""
    out = Out("TOKCHANGE-ARGS")
    c = prog.front
    TC = "spl_frontend::tokens::TokenChange"
    bodies = [b for b in c.bodies if (c.file_of(b["sp"]).endswith("src/parser.rs") or "/parser/" in c.file_of(b["sp"])) and
              "/tests" not in c.file_of(b["sp"]) and b["k"] in ("fn", "assoc_fn")]

    def defs(body):
        d = {}
        for l in hir.nodes(body["body"], "Let"):
            if l.get("init") is not None:
                for bd in hir.pat_bindings(l["pat"]):
                    d[bd["id"]] = (l["pat"], l["init"])
        return d

    def params(body):
        res = {}
        for i, p in enumerate(body["params"]):
            if p.get("k") == "Binding":
                res[p["id"]] = i
        return res

    def has_old_ref(e):
        return any(n.get("k") == "MethodCall" and n["m"] == "get_old_reference" for n in hir.nodes(e))

    def is_length(e, depth=0):
        """a number of tokens (literal, `.len()` / `.count()`, min/max of such, or a local function that returns one): adding it to a
        position does not change the frame of the position"""
        e0 = e
        while isinstance(e0, dict) and e0.get("k") in ("Paren", "AddrOf") and not e0.get("inlined"):
            e0 = e0["e"]
        e = e0 if (isinstance(e0, dict) and e0.get("inlined")) else hir.strip_ref(e)
        if depth > 3:
            return False
        if e.get("k") == "Lit":
            return True
        if e.get("k") == "MethodCall":
            if e["m"] in ("len", "count", "input_len"):
                return True
            if e["m"] in ("min", "max", "clamp") and e["args"]:
                return is_length(e["recv"], depth + 1) and all(is_length(a_, depth + 1) for a_ in e["args"])
            return False
        if e.get("k") == "Call" or e.get("inlined"):
            hb = prog.body(e["inlined"]) if e.get("inlined") else hir.local_callee_body(prog, e)
            if hb is not None and hb["_crate"] is c:
                blk = hir.strip(hb["body"])
                tail = blk["b"].get("expr") if blk.get("k") == "BlockExpr" else blk
                if tail is None:
                    return False
                if is_length(tail, depth + 1):
                    return True
                # ... or a counter: a local that starts at a literal and is only ever advanced by lengths (`n += 1` in a loop)
                t_ = hir.strip_ref(hir.strip(tail))
                while t_.get("k") == "MethodCall" and t_["m"] in ("min", "max", "clamp") and all(is_length(a_, depth + 1) for a_ in t_["args"]):
                    t_ = hir.strip_ref(hir.strip(t_["recv"]))
                pl_ = hir.path_local(t_)
                if pl_:
                    inits = [l_ for l_ in hir.nodes(hb["body"], "Let") if l_["pat"].get("k") == "Binding" and l_["pat"]["id"] == pl_["id"]]
                    writes = [a_ for a_ in hir.nodes(hb["body"]) if a_.get("k") in ("Assign", "AssignOp") and
                              (hir.path_local(hir.strip(a_["l"])) or {}).get("id") == pl_["id"]]
                    return len(inits) == 1 and inits[0].get("init") is not None and hir.lit_value(hir.strip(inits[0]["init"])) is not None and \
                        all(a_.get("k") == "AssignOp" and a_["op"] in ("+=", "-=") and is_length(a_["r"], depth + 1) for a_ in writes)
        return False

    def old_abs(e, body, dmap, pmap, depth=0):
        """True: absolute old position / False: positively a position relative to the enclosing Reference / None: not decided /
        ('param', index, fields): the value of a parameter (of the fields `a.b` of it)"""
        e = hir.strip_ref(e)
        k = e.get("k")
        if depth > 14:
            return None
        if k == "Path" and e["res"].get("k") == "Local":
            i = e["res"]["id"]
            if i in pmap:
                return ("param", pmap[i], ())
            if i in dmap:
                pat_, init_ = dmap[i]
                v_ = old_abs(init_, body, dmap, pmap, depth + 1)
                # `let Range { start, end } = self.old_tokens;`: the binding is a field of the value
                pt_ = hir.pat_strip(pat_)
                if pt_.get("k") == "Struct" and isinstance(v_, tuple):
                    for pf_ in pt_.get("fields") or []:
                        if any(bd["id"] == i for bd in hir.pat_bindings(pf_["pat"])):
                            return ("param", v_[1], v_[2] + (pf_["name"],))
                return v_
            return None
        if k == "MethodCall":
            if e["m"] == "shift" and e["args"]:
                if has_old_ref(e["args"][0]):
                    return True
                return False
            if e["m"] == "to_range":
                # the range of a node as stored: relative to the Reference the node sits in
                return False
            if e["m"] in ("clone", "to_owned", "min", "max"):
                return old_abs(e["recv"], body, dmap, pmap, depth + 1)
            return None
        if k == "Binary" and e["op"] in ("+", "-"):
            if has_old_ref(e):
                return True
            l, r = old_abs(e["l"], body, dmap, pmap, depth + 1), old_abs(e["r"], body, dmap, pmap, depth + 1)
            if hir.lit_value(e["r"]) is not None or is_length(e["r"]):
                return l
            if hir.lit_value(e["l"]) is not None or is_length(e["l"]):
                return r
            return None
        if k == "Field":
            base = hir.strip_ref(e["base"])
            if e["name"] in ("start", "end") and (place(base) or "").endswith(".deletion_range"):
                return True
            # a field of a local struct value (`old.old_tokens`, the struct built two lines above or by an inlined constructor)
            pl_ = hir.path_local(base)
            if pl_ and pl_["id"] in dmap:
                init_ = hir.strip_ref(hir.strip(dmap[pl_["id"]][1]))
                while init_.get("k") == "BlockExpr" and init_["b"].get("expr") is not None and not init_["b"].get("stmts"):
                    init_ = hir.strip_ref(hir.strip(init_["b"]["expr"]))
                if init_.get("k") == "Struct" and not (init_.get("adt") or "").startswith("core::ops::range::"):
                    for f_ in init_["fields"]:
                        if f_["name"] == e["name"]:
                            return old_abs(f_["e"], body, dmap, pmap, depth + 1)
                    return None
            v_ = old_abs(e["base"], body, dmap, pmap, depth + 1)
            if e["name"] in ("start", "end"):
                return v_
            if isinstance(v_, tuple):
                return ("param", v_[1], v_[2] + (e["name"],))
            return None
        if k == "Struct" and (e.get("adt") or "").startswith("core::ops::range::Range"):
            vals = [old_abs(f["e"], body, dmap, pmap, depth + 1) for f in e["fields"]]
            if all(v is True for v in vals):
                return True
            if any(v is False for v in vals):
                return False
            ps = [v for v in vals if isinstance(v, tuple)]
            if ps and all(v is True or isinstance(v, tuple) for v in vals) and len(set(ps)) == 1:
                return ps[0]
            return None
        return None

    # the bodies as they read with their small helpers in place (constructors and methods of a struct that bundles the old node with
    # its absolute range)
    pfiles = {c.file_of(b["sp"]) for b in bodies}
    bodies = [dict(b, body=hir.simplify(hir.inline_calls(prog, b["body"], c, depth=3, only=lambda hb: c.file_of(hb["sp"]) in pfiles)))
              for b in bodies]
    inlined_paths = {x["inlined"] for b in bodies for x in hir.nodes(b["body"]) if x.get("inlined")}
    n = 0

    def project(arg, fields):
        """the expression for `<arg>.<fields>`"""
        e_ = arg
        for f_ in fields:
            e_ = {"k": "Field", "name": f_, "base": e_, "t": arg.get("t"), "sp": arg.get("sp")}
        return e_

    def check_arg(arg, body, label, loc, seen):
        nonlocal n
        dmap, pmap = defs(body), params(body)
        v = old_abs(arg, body, dmap, pmap)
        if isinstance(v, tuple):
            # obligation moves to every call site of `body`
            idx, flds = v[1], v[2]
            sites = []
            for cb in bodies:
                for call in hir.nodes(cb["body"]):
                    if call.get("k") == "Call":
                        d = hir.path_def(call["f"])
                        if d and d["p"] == body["p"] and idx < len(call["args"]):
                            sites.append((cb, call, call["args"][idx]))
                    elif call.get("k") == "MethodCall" and hir.callee(call) == body["p"]:
                        args_ = [call["recv"]] + list(call.get("args") or [])
                        if idx < len(args_):
                            sites.append((cb, call, args_[idx]))
            if not sites or (body["p"], idx, flds) in seen:
                if not sites and body["p"] in inlined_paths:
                    # every call of this helper is read in place: the obligation is discharged on the copy inside the caller
                    return
                n += 1
                out.add(body["d"], label, None, loc, "parameter never bound at a visible call site")
                return
            for cb, call, a_ in sites:
                check_arg(project(a_, flds), cb, label + " <- " + cb["d"].rsplit("::", 1)[-1], c.loc(call["sp"]), seen | {(body["p"], idx, flds)})
            return
        n += 1
        out.add(body["d"], label, v, loc,
                "this position reaches a TokenChange query about the *old* token vector without having been made "
                "absolute with `get_old_reference()`: it is relative to the enclosing Reference and only right when "
                "the node happens to sit in the first declaration (origin 0)")

    for b in bodies:
        for call in hir.nodes(b["body"], "MethodCall"):
            if call["m"] in ("new_token_pos", "deletes", "overlaps") and hir.adt_path(c, call["recv"]["t"]) == TC and call["args"]:
                check_arg(call["args"][0], b, "argument of TokenChange::%s is an absolute old position" % call["m"], c.loc(call["sp"]), frozenset())
    if n < 3:
        out.missing("TokenChange::{new_token_pos,deletes,overlaps} call sites")
    return out


# ------------------------------------------------------------------ INFO-EXTENT

def rule_info_extent(prog):
    """A node whose range is the union of its own tokens and a *prefix* node (`info.extend_range(&prefix_info)`: an array
    access and the variable in front of it) must be extended with the range of that prefix alone.  The prefix info comes
    out of an `info(P)` wrapper as `(output of P, info)`: if the output bound next to it contains a repetition (a Vec),
    the wrapper encloses the repeated suffix parsers too and every element is extended to the end of the whole chain."""
    out = Out("INFO-EXTENT")
    c = prog.front
    n = 0
    for b in c.bodies:
        f = c.file_of(b["sp"])
        if not (f.endswith("parser.rs") or "/parser/" in f) or "/tests" in f:
            continue
        calls = [m for m in hir.nodes(b["body"], "MethodCall") if m["m"] == "extend_range" and m["args"]]
        if not calls:
            continue

        def find_tuple(pat, bid):
            """the tuple pattern that directly contains binding bid -> list of sibling patterns"""
            pat = hir.pat_strip(pat)
            if not isinstance(pat, dict):
                return None
            if pat.get("k") in ("Tuple", "TupleStruct"):
                for q in pat["pats"]:
                    qs = hir.pat_strip(q)
                    if qs.get("k") == "Binding" and qs["id"] == bid:
                        return [x for x in pat["pats"] if x is not q]
                for q in pat["pats"]:
                    r = find_tuple(q, bid)
                    if r is not None:
                        return r
            elif pat.get("k") == "Struct":
                for fl in pat["fields"]:
                    r = find_tuple(fl["pat"], bid)
                    if r is not None:
                        return r
            return None

        for m in calls:
            pl = hir.path_local(hir.strip_ref(m["args"][0]))
            sib = None
            if pl:
                for l in hir.nodes(b["body"], "Let"):
                    sib = find_tuple(l["pat"], pl["id"])
                    if sib is not None:
                        break
                if sib is None:
                    for clo in hir.nodes(b["body"], "Closure"):
                        for pp in clo["params"]:
                            sib = sib or find_tuple(pp, pl["id"])
            n += 1
            if sib is None:
                out.add(b["d"], "a node is extended with the range of the prefix node alone", None, c.loc(m["sp"]), "origin of the prefix info not found")
                continue
            rep = [bd for q in sib for bd in hir.pat_bindings(q) if "Vec<" in c.tstr(bd["bt"])]
            out.add(b["d"], "a node is extended with the range of the prefix node alone", not rep, c.loc(m["sp"]),
                    "`%s` is the info of a parser whose output also contains the repetition `%s`: it covers the whole chain, so every "
                    "inner element gets the range of the outermost one" % (pl["name"], rep[0]["name"] if rep else ""))
    if n == 0:
        out.missing("AstInfo::extend_range uses in the parser")
    return out


# ------------------------------------------------------------------ REUSE (incremental parser: reuse of old nodes)

def _affected_fn(prog):
    return prog.body("spl_frontend::parser::utility::affected")


def rule_reuse(prog):
    """Incremental parsing reuses an old node by advancing the token stream by the node's old length from the *current*
    location.  Three structural conditions make that sound:
    (aligned)  the reuse exit of `affected` is only reached if the current location is exactly where the node starts in the new
               token stream: the location is compared with new_token_pos(start) for equality (or in both directions);
    (input)    a parser that gives up with an `Affected` error hands back the input it was entered with (the caller retries
               from there), never the input of an inner failure;
    (pairing)  `inc_references` (the stack of old Reference offsets `get_old_reference()` sums up) is popped on an exit exactly
               when it was pushed on entry."""
    out = Out("REUSE")
    c = prog.front
    aff = _affected_fn(prog)
    if aff is None:
        out.missing("parser::utility::affected")
        return out
    # (the small helpers of `affected` - named conditions, methods of a struct that bundles the old node with its range - are read
    # in place)
    aff_file = c.file_of(aff["sp"])
    aff_i = dict(aff, body=hir.simplify(hir.inline_calls(prog, aff["body"], c, depth=3, only=lambda hb: c.file_of(hb["sp"]) == aff_file)))
    scope = [b for b in c.bodies if b["p"] == aff["p"] or b["p"].startswith(aff["p"] + "::")]
    # ... and the functions of the same module it calls (its nested helpers may be hoisted to module level, the decision may sit in
    # a function of its own)
    mod_prefix = aff["p"].rsplit("::", 1)[0] + "::"
    frontier = list(scope)
    for _ in range(3):
        nxt_ = []
        for b_ in frontier:
            for n_ in hir.nodes(b_["body"]):
                if n_.get("k") in ("Call", "MethodCall"):
                    hb_ = hir.local_callee_body(prog, n_)
                    if hb_ is not None and hb_["_crate"] is c and hb_["p"].startswith(mod_prefix) and hb_ not in scope and \
                            hb_["k"] in ("fn", "assoc_fn") and c.file_of(hb_["sp"]) == c.file_of(aff["sp"]):
                        # only private helpers of `affected`: every caller is in the scope already
                        callers_ = hir.callers_map(prog, c.name).get(hb_["p"], set())
                        if callers_ and callers_ <= {x_["p"] for x_ in scope} | {x_["p"] for x_ in nxt_}:
                            scope.append(hb_)
                            nxt_.append(hb_)
        frontier = nxt_
    # ---- (aligned) .. (unnarrowed): the conditions that guard the reuse exit, read with the helpers in place
    scope_plain = scope
    scope = [aff_i if b["p"] == aff["p"] else b for b in scope]
    ops = set()
    n_cmp = 0
    align_cmps = []
    for b in scope:
        defs = _let_defs(b["body"])

        def mentions_new_pos(e, depth=0):
            e = hir.strip_ref(e)
            if any(m["m"] == "new_token_pos" for m in hir.nodes(e, "MethodCall")):
                return True
            pl = hir.path_local(e)
            if pl and pl["id"] in defs and depth < 4:
                return mentions_new_pos(defs[pl["id"]], depth + 1)
            return False

        def is_location(e, depth=0):
            e = hir.strip_ref(e)
            if e.get("k") == "MethodCall" and e["m"] == "location_offset":
                return True
            pl = hir.path_local(e)
            if pl:
                if pl["id"] in defs and depth < 4:
                    return is_location(defs[pl["id"]], depth + 1)
                return pl["name"] in ("location_offset", "location") or "location" in pl["name"]
            return False

        for cmp_ in hir.nodes(b["body"], "Binary"):
            if cmp_["op"] not in ("<", "<=", ">", ">=", "==", "!="):
                continue
            l, r = cmp_["l"], cmp_["r"]
            if is_location(l) and mentions_new_pos(r):
                ops.add(cmp_["op"])
                n_cmp += 1
                align_cmps.append(cmp_)
            elif is_location(r) and mentions_new_pos(l):
                ops.add({"<": ">", ">": "<", "<=": ">=", ">=": "<=", "==": "==", "!=": "!="}[cmp_["op"]])
                n_cmp += 1
                align_cmps.append(cmp_)
    advances = [m for b in scope for m in hir.nodes(b["body"], "MethodCall") if m["m"] == "advance"]
    if not advances:
        out.add("parser::utility::affected", "reuse exit found", None, c.loc(aff["sp"]), "no `advance(..)` in affected(): other construction")
    else:
        two_sided = bool(ops & {"==", "!="}) or (bool(ops & {"<", "<="}) and bool(ops & {">", ">="}))
        out.add("parser::utility::affected", "an old node is reused only at the location where it starts in the new token stream", two_sided,
                c.loc(advances[0]["sp"]),
                "`input.advance(old length)` re-anchors the old node at the current location, but the location is only compared with "
                "new_token_pos(start) by %s: when a predecessor shrank (its tail is now loose tokens) the location lies *before* the "
                "node's tokens and the node is reused on top of foreign tokens" % (sorted(ops) or "nothing"), ("aligned",))
    # ---- (relative): a reused node that is not wrapped in its own Reference keeps its stored range, which is relative to the start
    # of the enclosing Reference: the reuse exit must also check that this relative start is still right
    rel = False
    for b in scope:
        for cmp_ in hir.nodes(b["body"], "Binary"):
            if cmp_["op"] not in ("==", "!="):
                continue
            sides = [cmp_["l"], cmp_["r"]]
            has_ref = [any(x.get("k") == "Field" and x["name"] == "reference_pos" for x in hir.nodes(sd)) for sd in sides]
            has_rng = [any(x.get("k") == "MethodCall" and x["m"] == "to_range" for x in hir.nodes(sd)) or
                       any(x.get("k") == "Field" and x["name"] in ("start",) for x in hir.nodes(sd)) for sd in sides]
            if (has_ref[0] and has_rng[1]) or (has_ref[1] and has_rng[0]):
                rel = True
    if advances:
        out.add("parser::utility::affected", "a reused node still starts at its stored offset inside the enclosing Reference", rel,
                c.loc(advances[0]["sp"]),
                "the clone that is handed out keeps its old range, which is relative to the start of the enclosing Reference; nothing compares "
                "`location - reference_pos` with it: when tokens in front of the node were removed from the same Reference (a deleted doc "
                "comment) the node is aligned in the stream but its stored range is stale", ("relative",))
    # ---- (recovery): the extent of a recovery region (ignore_until) depends on unboundedly many following tokens, the affected range of
    # a node is bounded: a node that contains a syntax error is rebuilt, not reused - the reuse exit is only reached through the
    # negation of a condition that inspects the node's ParseErrorMessage errors
    if advances:
        guard_ok = False
        for b in scope:
            defs = _let_defs(b["body"])

            def cond_inspects(cond):
                conds = [cond]
                for pth in hir.nodes(cond, "Path"):
                    pl = hir.path_local(pth)
                    if pl and pl["id"] in defs:
                        conds.append(defs[pl["id"]])
                    # (a flag that is set in a loop over the node's errors: `for err in .. { if matches!(err.1, ParseErrorMessage(_)) { flag = true; break; } }`)
                    if pl and pl["id"] not in defs or (pl and hir.strip(defs.get(pl["id"], {})).get("k") == "Lit"):
                        for lp in hir.nodes(b["body"]):
                            if lp.get("k") in ("ForLoop", "While", "Loop") and any(
                                    a_.get("k") == "Assign" and (hir.path_local(hir.strip(a_["l"])) or {}).get("id") == pl["id"]
                                    for a_ in hir.nodes(lp["body"])):
                                conds.append(lp["body"])
                for cd in conds:
                    # (the test may be a named helper: `contains_syntax_error(&node.errors())`)
                    for m_ in hir.nodes_deep(prog, cd, 2, crate=c):
                        pats = [a_["pat"] for a_ in m_["arms"]] if m_.get("k") == "Match" else [m_["pat"]] if m_.get("k") == "LetExpr" else []
                        if any(v.endswith("ErrorMessage::ParseErrorMessage") for pt in pats for v in hir.pat_variants_all(pt)):
                            return True
                return False

            def negated(cond):
                cond = hir.strip(cond)
                return cond.get("k") == "Unary" and str(cond.get("op")) in ("!", "Not", "not")

            for x, parents in hir.walk(b["body"]):
                if x is not advances[0]:
                    continue
                chain = list(parents) + [x]
                for i_, pr in enumerate(chain[:-1]):
                    nxt = chain[i_ + 1]
                    if pr.get("k") == "If" and cond_inspects(pr["cond"]):
                        # else side of `if has_error || ..`, or then side of `if !(has_error || ..)`
                        if nxt is pr.get("else") and not negated(pr["cond"]):
                            guard_ok = True
                        if nxt is pr.get("then") and negated(pr["cond"]):
                            guard_ok = True
                    if pr.get("k") == "Block":
                        # early-return form: an earlier statement `if has_error || .. { return .. }`
                        kids = list(pr["stmts"]) + ([pr["expr"]] if pr.get("expr") else [])
                        idx = [j for j, k_ in enumerate(kids) if k_ is nxt]
                        for k_ in kids[:idx[0]] if idx else []:
                            for iff in ([k_] if k_.get("k") == "If" else [hir.stmt_inner(k_)] if k_.get("k") in ("Semi", "Expr") else []):
                                iff = hir.strip(iff) if iff else None
                                if iff is not None and iff.get("k") == "If" and cond_inspects(iff["cond"]) and not negated(iff["cond"]) and \
                                        any(True for _ in hir.nodes(iff["then"], "Ret")):
                                    guard_ok = True
        if not guard_ok:
            # the decision is computed by a function of its own (`match Reuse::decide(..) { .. Keep => <reuse> }`): the arm of the
            # reuse exit names a variant; in the deciding function an earlier, un-negated test of the node's syntax errors returns a
            # different answer
            for b in scope:
                for x, parents in hir.walk(b["body"]):
                    if x is not advances[0]:
                        continue
                    chain = list(parents) + [x]
                    for i_, pr in enumerate(chain[:-1]):
                        if pr.get("k") != "Match" or chain[i_ + 1].get("k") != "Arm":
                            continue
                        keep = set(hir.pat_variants_all(chain[i_ + 1]["pat"]))
                        sc_ = hir.strip(pr["scrut"])
                        db = hir.local_callee_body(prog, sc_) if sc_.get("k") in ("Call", "MethodCall") else None
                        if db is None or db not in scope or not keep:
                            continue
                        ddefs = _let_defs(db["body"])

                        def d_inspects(cond):
                            conds = [cond]
                            for pth in hir.nodes(cond, "Path"):
                                pl = hir.path_local(pth)
                                if pl and pl["id"] in ddefs:
                                    conds.append(ddefs[pl["id"]])
                            for cd in conds:
                                for m_ in hir.nodes(cd):
                                    pats = [a_["pat"] for a_ in m_["arms"]] if m_.get("k") == "Match" else [m_["pat"]] if m_.get("k") == "LetExpr" else []
                                    if any(v.endswith("ErrorMessage::ParseErrorMessage") for pt in pats for v in hir.pat_variants_all(pt)):
                                        return True
                            return False
                        for iff in hir.nodes(db["body"], "If"):
                            cnd = hir.strip(iff["cond"])
                            if cnd.get("k") == "Unary" or not d_inspects(iff["cond"]):
                                continue
                            for rt in hir.nodes(iff["then"], "Ret"):
                                rv = hir.strip(rt["e"]) if rt.get("e") else {}
                                co = (rv.get("res") or {}).get("ctor_of") if rv.get("k") == "Path" else None
                                if co and co not in keep:
                                    guard_ok = True
        out.add("parser::utility::affected", "a node that contains a syntax error is rebuilt, not reused", guard_ok, c.loc(advances[0]["sp"]),
                "error recovery skips tokens up to the next synchronisation token, so the extent of an error node depends on any number "
                "of following tokens, but a node is only rebuilt if the change touches its range (+1): `else` in front of `j := 2;` stays "
                "a one-token error when the assignment behind it is destroyed, a fresh parse extends it", ("recovery",))
    # ---- (unnarrowed): each test that keeps an old node from being reused (syntax error, misalignment, overlap) decides on its own:
    # a further condition joined to it (`moves_tokens() && location != new_pos`, `is syntax error && !range.is_empty()`) lets nodes
    # through for which the test is true.  Decided on the Boolean structure between the test and the `if` that guards the reuse exit.
    if advances:
        adv = advances[0]

        def narrowing(root, atom, need_true):
            """the operand joined to `atom` (or to an expression around it) that can overrule it, False if none, None if not found"""
            for x, parents in hir.walk(root):
                if x is not atom:
                    continue
                chain = list(parents) + [x]
                mode = need_true
                for i_ in range(len(chain) - 1):
                    p_, n_ = chain[i_], chain[i_ + 1]
                    k_ = p_.get("k")
                    if k_ == "Unary" and str(p_.get("op")) in ("!", "Not", "not"):
                        mode = not mode
                    elif k_ == "Binary" and p_.get("op") in ("&&", "||"):
                        if (p_["op"] == "&&") == mode:
                            return p_["r"] if n_ is p_["l"] or any(y is n_ for y in hir.nodes(p_["l"])) else p_["l"]
                    elif k_ == "Arm" and p_.get("guard") is not None and n_ is not p_.get("guard"):
                        return p_["guard"]
                    elif k_ == "MethodCall" and p_["m"] in ("all", "none", "filter", "find", "position", "skip_while", "take_while") and mode:
                        return None
                    elif k_ in ("If", "Match") and n_ is not p_.get("cond") and n_ is not p_.get("scrut"):
                        return None
                return False
            return None

        def ekey(e):
            e = hir.strip_ref(e)
            k_ = e.get("k")
            if k_ == "MethodCall":
                return ("m", e["m"], ekey(e["recv"])) + tuple(ekey(a_) for a_ in e.get("args", []))
            if k_ == "Field":
                return ("f", e["name"], ekey(e["base"]))
            pl = hir.path_local(e)
            if pl:
                return ("l", pl["id"])
            return (k_, id(e))

        def redundant(sib, atom, root):
            """`!xs.is_empty() && xs.iter().any(..)`: the joined operand follows from the test"""
            s_ = hir.strip(sib)
            inner = hir.strip(s_["e"]) if s_.get("k") == "Unary" else {}
            if inner.get("k") != "MethodCall" or inner["m"] != "is_empty":
                return False
            for m_ in hir.nodes(root, "MethodCall"):
                if m_["m"] == "any" and any(y is atom for y in hir.nodes(m_)):
                    r_ = hir.strip_ref(m_["recv"])
                    while r_.get("k") == "MethodCall" and r_["m"] in ("iter", "into_iter", "iter_mut"):
                        r_ = hir.strip_ref(r_["recv"])
                    return ekey(r_) == ekey(inner["recv"])
            return False

        def guard_sites(b, atom):
            """(root condition, need_true) for the `if` whose outcome decides about the reuse exit and whose condition holds `atom`,
            directly or through a local"""
            defs = _let_defs(b["body"])
            res = []
            holders = [(atom, None)]
            for lid, dv in defs.items():
                if any(y is atom for y in hir.nodes(dv)):
                    holders.append((dv, lid))
            for iff, parents in hir.walk(b["body"]):
                if iff.get("k") != "If":
                    continue
                cond = iff["cond"]
                for hroot, lid in holders:
                    if lid is None:
                        if not any(y is atom for y in hir.nodes(cond)):
                            continue
                        use = atom
                    else:
                        uses = [pth for pth in hir.nodes(cond, "Path") if (hir.path_local(pth) or {}).get("id") == lid]
                        if not uses:
                            continue
                        use = uses[0]
                    in_then = any(y is adv for y in hir.nodes(iff["then"]))
                    in_else = iff.get("else") is not None and any(y is adv for y in hir.nodes(iff["else"]))
                    leaves = any(True for _ in hir.nodes(iff["then"], "Ret"))
                    if in_else or (not in_then and leaves):
                        side = True        # reuse is reached when the condition is false: the test must make it true
                    elif in_then:
                        side = False
                    else:
                        continue
                    res.append((cond, use, side, hroot if lid is not None else None))
            return res

        def decide(atoms, rebuild_when_true):
            verdict, why = None, ""
            for b in scope:
                for atom in atoms:
                    if not any(y is atom for y in hir.nodes(b["body"])):
                        continue
                    for cond, use, side, hroot in guard_sites(b, atom):
                        need = side if rebuild_when_true(atom) else not side
                        sib = narrowing(cond, use, need)
                        if sib is False and hroot is not None:
                            # polarity of the local inside the condition carries over to its definition
                            pol = need
                            for x, parents in hir.walk(cond):
                                if x is use:
                                    for p_ in parents:
                                        if p_.get("k") == "Unary" and str(p_.get("op")) in ("!", "Not", "not"):
                                            pol = not pol
                            sib = narrowing(hroot, atom, pol)
                        if sib is None:
                            continue
                        if sib is False:
                            verdict = True if verdict is None else verdict
                        elif not redundant(sib, atom, hroot if hroot is not None else cond):
                            verdict = False
                            why = "the condition at %s is joined to it" % c.loc(sib["sp"]) if sib.get("sp") else "another condition is joined to it"
            return verdict, why

        # atoms
        syn_atoms = []
        for b in scope:
            for m_ in hir.nodes(b["body"]):
                pats = [a_["pat"] for a_ in m_["arms"]] if m_.get("k") == "Match" else [m_["pat"]] if m_.get("k") == "LetExpr" else []
                if any(v.endswith("ErrorMessage::ParseErrorMessage") for pt in pats for v in hir.pat_variants_all(pt)):
                    if m_.get("k") == "Match":
                        # the arm of the variant answers `true`, the test is the match as a whole
                        arm = [a_ for a_ in m_["arms"] if any(v.endswith("ErrorMessage::ParseErrorMessage") for v in hir.pat_variants_all(a_["pat"]))]
                        if arm and arm[0].get("guard") is not None:
                            syn_atoms.append(("guard", m_, arm[0]["guard"]))
                            continue
                        body_ = hir.strip(arm[0]["body"]) if arm else {}
                        if hir.lit_value(body_) is not True and str(hir.lit_value(body_)) not in ("true", "True"):
                            continue
                    syn_atoms.append(("atom", m_, None))
        align_atoms = [x_ for x_ in align_cmps if x_["op"] in ("==", "!=")]
        over_atoms = [m_ for b in scope for m_ in hir.nodes(b["body"], "MethodCall") if m_["m"] == "overlaps"]
        for label, atoms, rwt, tag, expl in (
                ("the test for syntax errors decides on its own (no further condition lets a node with a syntax error through)",
                 [a_[1] for a_ in syn_atoms if a_[0] == "atom"], lambda a_: True, "unnarrowed-syntax",
                 "a node whose errors are all empty ranges (a call recovered with zero ignored tokens, `f(a[0] b)`) depends on tokens far "
                 "behind its window because the failed alternative looked at them; it is reused after the `,` is typed and keeps its five "
                 "diagnostics"),
                ("the alignment test decides on its own (no further condition lets a misaligned node through)",
                 align_atoms, lambda a_: a_["op"] == "!=", "unnarrowed-aligned",
                 "an n-for-n token replacement moves no token but can shorten the node in front (`else` -> `;`): the old `i := 3;` is "
                 "reused on top of `{ i := 2`"),
                ("the overlap test decides on its own (no further condition lets a touched node through)",
                 over_atoms, lambda a_: True, "unnarrowed-overlap",
                 "a node whose tokens (or look-ahead window) were changed is handed out unchanged")):
            if any(a_[0] == "guard" for a_ in syn_atoms) and tag == "unnarrowed-syntax":
                g_ = [a_ for a_ in syn_atoms if a_[0] == "guard"][0]
                out.add("parser::utility::affected", label, False, c.loc(g_[2]["sp"]), "the arm of the syntax error carries a guard; " + expl, (tag,))
                continue
            if not atoms:
                continue
            v_, why = decide(atoms, rwt)
            if v_ is None:
                out.add("parser::utility::affected", label, None, c.loc(atoms[0]["sp"]), "the `if` that guards the reuse exit was not found for this test")
            else:
                out.add("parser::utility::affected", label, v_, c.loc(atoms[0]["sp"]), (why + "; " if why else "") + expl, (tag,))
    # ---- (seqwrap): a parser that is handed an old node and is followed by further parsers of a sequence (`terminated(|i| Expression::parse(old, i),
    # peek(look_ahead::arg))`) can fail *behind* a successfully reused node.  The list combinators re-parse an element only on an `Affected`
    # error - any other error ends the list - so such a sequence runs under `affected(..)`: in the function itself, or at every place that
    # hands the function an old node.
    SEQ_ = ("nom::sequence::terminated", "nom::sequence::pair", "nom::sequence::tuple", "nom::sequence::separated_pair", "nom::sequence::delimited",
            "nom::sequence::preceded")
    AFF_P = aff["p"]
    pfiles_ = [b for b in c.bodies if (c.file_of(b["sp"]).endswith("src/parser.rs") or "/parser/" in c.file_of(b["sp"])) and "/tests" not in c.file_of(b["sp"])
               and b["k"] in ("fn", "assoc_fn")]

    def _none(e_):
        e_ = hir.strip_ref(e_)
        return e_.get("k") == "Path" and last(e_["res"].get("ctor_of") or "") == "None"

    def _under_aff(parents_):
        return any(p_.get("k") == "Call" and (hir.callee(p_) or "") == AFF_P for p_ in parents_)

    n_seq = 0
    for fb in pfiles_:
        pids_ = [q_["id"] if q_.get("k") == "Binding" else None for q_ in fb["params"]]
        # (the list combinators look at the error themselves: they are where an `Affected` error is acted on)
        handles_affected = any(v.endswith("ParserErrorKind::Affected") for m_ in hir.nodes(fb["body"]) if m_.get("k") in ("Match", "LetExpr")
                               for pt_ in ([a_["pat"] for a_ in m_["arms"]] if m_.get("k") == "Match" else [m_["pat"]]) for v in hir.pat_variants_all(pt_))
        for x, parents in hir.walk(fb["body"]):
            if x.get("k") != "Call" or not x.get("args") or not ((hir.path_def(x["f"]) or {}).get("p") or "").endswith("parser::Parser::parse"):
                continue
            if _none(x["args"][0]) or _under_aff(parents):
                continue
            # is the call an element of a sequence that has a later element?
            later = False
            chain = list(parents) + [x]
            for i_, p_ in enumerate(chain[:-1]):
                if p_.get("k") == "Call" and any((hir.callee(p_) or "").startswith(s_) for s_ in SEQ_):
                    els_ = list(p_["args"])
                    if len(els_) == 1 and hir.strip(els_[0]).get("k") == "Tup":
                        els_ = hir.strip(els_[0])["es"]
                    pos_ = next((j_ for j_, e_ in enumerate(els_) if any(y is x for y in hir.nodes(e_))), None)
                    if pos_ is not None and pos_ < len(els_) - 1:
                        later = True
                # ... or of a sequence that is written out: `let (rest, e) = Expression::parse(old, input)?; let (rest, _) = peek(..)(rest)?;`
                if p_.get("k") == "Block" and any(q_.get("k") == "Try" for q_ in chain[i_ + 1:-1]) and not handles_affected:
                    kids_ = list(p_["stmts"]) + ([p_["expr"]] if p_.get("expr") else [])
                    pos_ = next((j_ for j_, st_ in enumerate(kids_) if any(y is x for y in hir.nodes(st_))), None)
                    if pos_ is not None and any(y.get("k") == "Try" for st_ in kids_[pos_ + 1:] for y in hir.nodes(st_)):
                        later = True
            if not later:
                continue
            n_seq += 1
            # where does the old node come from?
            a0_ = hir.strip_ref(x["args"][0])
            while a0_.get("k") == "Field" or (a0_.get("k") == "MethodCall" and a0_["m"] in ("as_ref", "as_deref", "map", "cloned", "copied")):
                # (`old.name` of a struct that bundles the reusable parts, `this.map(|t| &t.name)`)
                a0_ = hir.strip_ref(a0_["base"] if a0_.get("k") == "Field" else a0_["recv"])
            pl_ = hir.path_local(a0_)
            j_ = pids_.index(pl_["id"]) if pl_ and pl_["id"] in pids_ else None
            if j_ is None:
                out.add(fb["d"], "a sequence behind a reused node runs under affected(..)", None, c.loc(x["sp"]),
                        "an old node is handed to the first parser of a sequence outside affected(..)", ("seqwrap",))
                continue
            bad_site = None
            n_sites = 0
            for cb in pfiles_:
                for y, yparents in hir.walk(cb["body"]):
                    if y.get("k") == "Call" and hir.callee(y) == fb["p"] and j_ < len(y["args"]):
                        n_sites += 1
                        if not _none(y["args"][j_]) and not _under_aff(yparents):
                            bad_site = (cb, y)
            out.add(fb["d"], "a sequence behind a reused node runs under affected(..)", (bad_site is None) if n_sites else None,
                    c.loc((bad_site[1] if bad_site else x)["sp"]),
                    "%s hands an old node to `%s`, whose old-node parser is followed by another parser of the sequence, outside affected(..): when "
                    "that later parser fails (typing behind the second argument of `f(a, b + 1, c)`) the error is no `Affected` error, the list "
                    "ends instead of re-parsing the element, and the tree differs from a fresh parse" % (bad_site[0]["d"] if bad_site else "-", fb["name"]),
                    ("seqwrap",))
    if n_seq == 0:
        out.add("parser", "a sequence behind a reused node runs under affected(..)", True, "", "no old-node parser in front of another sequence element outside affected(..)", ("seqwrap",))
    scope = scope_plain
    # ---- (window): parsers decide where a node ends by peeking at the synchronisation sets; the longest token sequence one of
    # their elements inspects behind a node is the number of tokens behind a node whose change must make the node "affected"
    tags_ = tag_parsers(prog)
    _sets, set_bodies = look_ahead_sets(prog)

    def depth(e, seen=()):
        e = hir.strip(e)
        d = hir.path_def(e) if e.get("k") == "Path" else None
        if d:
            dp = d.get("rp") or d.get("p")
            if dp in tags_:
                return 1
            sb = prog.body(dp) if dp and dp.startswith("spl_frontend::") else None
            if sb is not None and dp not in seen:
                alts = [n for n in hir.nodes(sb["body"], "Call") if (hir.callee(n) or "").endswith("nom::branch::alt")]
                if alts:
                    return depth(alts[0], seen + (dp,))
            return 1
        if e.get("k") == "Call":
            cal = hir.callee(e) or ""
            args = e["args"]
            if cal.endswith("branch::alt") and args:
                return max([depth(x, seen) for x in hir.strip(args[0]).get("es", [])] or [0])
            if cal.endswith("sequence::pair") or cal.endswith("sequence::preceded") or cal.endswith("sequence::terminated"):
                return sum(depth(x, seen) for x in args)
            if cal.endswith("sequence::tuple") and args:
                return sum(depth(x, seen) for x in hir.strip(args[0]).get("es", []))
            if args:
                return max(depth(x, seen) for x in args)
        if e.get("k") == "Closure":
            return 1    # an inline parser (e.g. `|input| Identifier::parse(None, input)`) consumes at least one token
        return 0

    max_depth = 0
    for nm, sb in set_bodies.items():
        alts = [n for n in hir.nodes(sb["body"], "Call") if (hir.callee(n) or "").endswith("nom::branch::alt")]
        if alts:
            max_depth = max(max_depth, depth(alts[0], (sb["p"],)))
    window = None
    counted_tokens = None    # how many non-comment tokens the comment-blind count takes (None: not of the counted shape)
    comment_blind = None     # does the window extend over the comments in front of the tokens that are looked at?
    for b in scope:
        for st in hir.nodes(b["body"], "Struct"):
            if (st.get("adt") or "").startswith("core::ops::range::Range"):
                f_ = {x["name"]: x["e"] for x in st["fields"]}
                en = hir.strip(f_.get("end", {}))
                if not (en.get("k") == "Binary" and en["op"] == "+" and
                        any(x.get("k") == "Field" and x["name"] == "end" for x in hir.nodes(en["l"]))):
                    continue
                rhs = hir.strip(en["r"])
                if hir.lit_value(rhs) is not None:
                    try:
                        window = int(hir.lit_value(rhs))
                        comment_blind = False
                    except (TypeError, ValueError):
                        pass
                elif rhs.get("k") == "Call":
                    # `end + look_ahead_len(..)`: a helper that counts tokens of the stream; its guaranteed minimum is the window
                    hb = hir.local_callee_body(prog, rhs)
                    if hb is not None:
                        ks = []
                        for x in hir.nodes(hb["body"]):
                            if x.get("k") == "MethodCall" and x["m"] == "max" and x["args"] and hir.lit_value(hir.strip(x["args"][0])) is not None:
                                ks.append(hir.lit_value(hir.strip(x["args"][0])))
                            if x.get("k") == "Binary" and x["op"] in ("<", "<=", "==", ">=", ">") and hir.lit_value(hir.strip(x["r"])) is not None:
                                ks.append(hir.lit_value(hir.strip(x["r"])))
                        try:
                            window = max(int(k_) for k_ in ks) if ks else None
                        except (TypeError, ValueError):
                            window = None
                        comment_blind = any(
                            "spl_frontend::tokens::TokenType::Comment" in hir.pat_variants_all(pt)
                            for x in hir.nodes(hb["body"])
                            for pt in ([a_["pat"] for a_ in x["arms"]] if x.get("k") == "Match" else [x["pat"]] if x.get("k") == "LetExpr" else []))
                        # how many tokens that are no comments does the count take?  `take_while(|t| { let go = seen < K; if !comment
                        # { seen += 1 }; go })` takes K of them - the test is made *before* this token is counted.  Made after it
                        # (`seen += 1; seen < K`) the K-th token ends the walk and is not taken: K - 1
                        for tw in hir.nodes(hb["body"], "MethodCall"):
                            cl_ = hir.strip(tw["args"][0]) if tw["m"] == "take_while" and tw["args"] else {}
                            blk_ = hir.strip(cl_.get("body") or {})
                            if cl_.get("k") != "Closure" or blk_.get("k") != "BlockExpr":
                                continue
                            kids_ = list(blk_["b"]["stmts"]) + ([blk_["b"]["expr"]] if blk_["b"].get("expr") else [])
                            inc_i = cmp_i = None
                            limit_ = None
                            ctr_ = None
                            for i_, k_ in enumerate(kids_):
                                for y in hir.nodes(k_):
                                    if y.get("k") == "AssignOp" and y.get("op") in ("+=", "Add") and hir.path_local(hir.strip(y["l"])) and inc_i is None:
                                        inc_i, ctr_ = i_, hir.path_local(hir.strip(y["l"]))["id"]
                            for i_, k_ in enumerate(kids_):
                                for y in hir.nodes(k_):
                                    if y.get("k") == "Binary" and y["op"] in ("<", "<=") and ctr_ is not None and \
                                            (hir.path_local(hir.strip(y["l"])) or {}).get("id") == ctr_ and hir.lit_value(hir.strip(y["r"])) is not None:
                                        try:
                                            cmp_i, limit_ = i_, int(hir.lit_value(hir.strip(y["r"]))) + (1 if y["op"] == "<=" else 0)
                                        except (TypeError, ValueError):
                                            pass
                            if inc_i is not None and cmp_i is not None and limit_ is not None and cmp_i != inc_i:
                                counted_tokens = limit_ if cmp_i < inc_i else limit_ - 1
                        # `leading_comments + K`: only the run of comments directly behind the node is skipped, the K tokens behind it
                        # are counted comments included - the first of them is no comment (the run ended there), every further one may be
                        if counted_tokens is None and window is None:
                            runs_ = []
                            for tw in hir.nodes_deep(prog, hb["body"], 1, crate=c, values=True):
                                if tw.get("k") != "MethodCall" or tw["m"] not in ("take_while", "skip_while") or not tw["args"]:
                                    continue
                                cl_ = hir.strip(tw["args"][0])
                                bd_ = hir.strip(cl_.get("body") or {}) if cl_.get("k") == "Closure" else {}
                                if bd_.get("k") == "Match" and "matches!" in (bd_.get("mx") or []) and any(
                                        "spl_frontend::tokens::TokenType::Comment" in hir.pat_variants_all(a_["pat"]) and
                                        hir.lit_value(a_["body"]) is True for a_ in bd_["arms"]):
                                    runs_.append(tw)
                            adds_ = [x for x in hir.nodes(hb["body"], "Binary") if x["op"] == "+" and
                                     (hir.lit_value(hir.strip(x["r"])) is not None or hir.lit_value(hir.strip(x["l"])) is not None)]
                            if len(runs_) == 1 and len(adds_) == 1 and not any(x.get("k") in ("Loop", "While", "ForLoop") for x in hir.nodes(hb["body"])):
                                try:
                                    k_ = hir.lit_value(hir.strip(adds_[0]["r"]))
                                    k_ = int(k_ if k_ is not None else hir.lit_value(hir.strip(adds_[0]["l"])))
                                    window = k_
                                    counted_tokens = min(k_, 1)
                                except (TypeError, ValueError):
                                    pass
    if max_depth and window is not None:
        out.add("parser::utility::affected", "the affected range reaches as far behind a node as the parsers' look-ahead", window >= max_depth,
                c.loc(aff["sp"]), "the synchronisation sets inspect up to %d tokens behind a node (`ident :=`), a node counts as affected only "
                "if the change touches its range + %d: changing the second token behind an argument keeps the old argument although a "
                "fresh parse ends it elsewhere" % (max_depth, window), ("window",))
    else:
        out.add("parser::utility::affected", "the affected range reaches as far behind a node as the parsers' look-ahead", None, c.loc(aff["sp"]),
                "look-ahead depth %s, window %s" % (max_depth, window), ("window",))
    # the token parsers skip comments: the k-th token a parser looks at behind a node is the k-th token *that is no comment*
    out.add("parser::utility::affected", "comments do not count for the tokens a parser looks at behind a node", comment_blind, c.loc(aff["sp"]),
            "the affected range ends a fixed number of tokens behind the node, comments included, but every token parser skips the comments "
            "in front of its token: with `f(1 // c⏎ a := 2;` the decisive `:=` is the third token behind the argument and deleting it keeps "
            "the old argument", ("window",))
    if counted_tokens is not None and max_depth:
        out.add("parser::utility::affected", "the comment-blind count takes as many tokens as the parsers look at", counted_tokens >= max_depth,
                c.loc(aff["sp"]), "the walk behind a node stops after %d tokens that are no comments, the synchronisation sets inspect %d: with a "
                "comment among them the last token a parser looked at is outside the affected range (`f(a // c⏎ b := 2;`: replacing `:=` keeps "
                "the old argument)" % (counted_tokens, max_depth), ("window",))
    # ---- (alt): an alternative that is handed the old node must be able to report `Affected` to the caller; a catch-all recovery
    # alternative behind it in the same alt(..) turns that report into an (empty) error node
    rec_fns = set(rb["p"] for rb, _, _ in recovery_sites(prog))
    n_alt = 0
    for b in c.bodies:
        f = c.file_of(b["sp"])
        if not (f.endswith("parser.rs") or "/parser/" in f) or "/tests" in f:
            continue
        for call in hir.nodes(b["body"], "Call"):
            if not (hir.callee(call) or "").endswith("nom::branch::alt") or not call["args"]:
                continue
            els = hir.strip(call["args"][0]).get("es", [])
            has_rec = any((hir.path_def(hir.strip(e_)) or {}).get("p") in rec_fns for e_ in els)
            if not has_rec:
                continue

            def hands_old_node(e_):
                for x in hir.nodes(e_, "Call"):
                    for a_ in x["args"]:
                        a_ = hir.strip(a_)
                        t_ = c.tstr(a_["t"]).replace(" ", "") if "t" in a_ else ""
                        if t_.startswith("std::option::Option<&") and "ast::" in t_ or t_.startswith("std::option::Option<&parser::"):
                            is_none = a_.get("k") == "Path" and last(a_["res"].get("ctor_of", "")) == "None"
                            if not is_none:
                                return True
                return False

            inc_alts = [e_ for e_ in els if hands_old_node(e_)]
            n_alt += 1
            out.add(b["d"], "no recovery alternative behind an alternative that is handed the old node", not inc_alts, c.loc(call["sp"]),
                    "`alt((<parser with this>, <recovery>))`: when the old node cannot be rebuilt the first alternative fails with `Affected`, "
                    "alt() then takes the recovery alternative, which succeeds without consuming anything: an empty error node replaces a "
                    "valid declaration (a no-op edit inside a documented parameter produces five syntax errors)", ("alt",))
    if n_alt == 0:
        out.missing("alt(..) with a recovery alternative in the parser")
    # ---- (input)
    # functions that build an Affected error from one of their parameters
    builders = {}
    for b in c.bodies:
        f = c.file_of(b["sp"])
        if not (f.endswith("parser.rs") or "/parser/" in f) or "/tests" in f:
            continue
        for st in hir.nodes(b["body"], "Struct"):
            if not (st.get("adt") or "").endswith("error::ParserError"):
                continue
            fl = {x["name"]: x["e"] for x in st["fields"]}
            kd = hir.path_def(hir.strip(fl.get("kind", {})))
            if not kd or not (kd.get("ctor_of") or kd.get("p", "")).endswith("ParserErrorKind::Affected"):
                continue
            pl = hir.path_local(hir.strip_ref(fl.get("input", {})))
            ids = _param_ids(b)
            if pl and pl["id"] in ids and b["k"] in ("fn", "assoc_fn"):
                builders[b["p"]] = ids.index(pl["id"])
    n_in = 0
    for b in scope:
        for clo in [x for x in hir.nodes(b["body"], "Closure")] or []:
            pids = set()
            for pp in clo["params"]:
                for bd in hir.pat_bindings(pp):
                    pids.add(bd["id"])
            defs = _let_defs(clo["body"])

            def own_input(e, depth=0):
                e = hir.strip_ref(e)
                if e.get("k") == "MethodCall" and e["m"] == "clone":
                    e = hir.strip_ref(e["recv"])
                pl = hir.path_local(e)
                if pl and pl["id"] in pids:
                    return True
                if pl and pl["id"] in defs and depth < 4:
                    return own_input(defs[pl["id"]], depth + 1)
                return False

            for call in hir.nodes(clo["body"], "Call"):
                cal = hir.callee(call) or ""
                if cal in builders and builders[cal] < len(call["args"]):
                    n_in += 1
                    a = call["args"][builders[cal]]
                    out.add("parser::utility::affected", "an Affected error hands back the input the parser was entered with", own_input(a),
                            c.loc(call["sp"]), "the Affected error carries `%s`: the caller (`expect`) retries the node from scratch at that "
                            "input - the point where an inner parser failed - instead of at the node's first token"
                            % (place(hir.strip_ref(a)) or "?"), ("input",))
    if n_in == 0:
        out.add("parser::utility::affected", "an Affected error hands back the input the parser was entered with", None, c.loc(aff["sp"]), "no Affected error construction found")
    # ---- (pairing)
    n_pp = 0
    n_sites_any = 0
    for b in c.bodies:
        f = c.file_of(b["sp"])
        if not (f.endswith("parser.rs") or "/parser/" in f) or "/tests" in f or b["k"] == "closure":
            continue
        pushes, pops = [], []
        for m, parents in hir.walk(b["body"]):
            if m.get("k") == "MethodCall" and m["m"] in ("push", "pop"):
                r = hir.strip_ref(m["recv"])
                if r.get("k") == "Field" and r["name"] == "inc_references":
                    (pushes if m["m"] == "push" else pops).append((m, parents))
        n_sites_any += len(pushes) + len(pops)
        if not pushes:
            continue
        # is the push conditional on an Option parameter being Some?
        opt_ids = set()
        for pp in b["params"]:
            for bd in hir.pat_bindings(pp):
                if c.tstr(bd["bt"]).replace(" ", "").startswith("std::option::Option<"):
                    opt_ids.add(bd["id"])
        for l in hir.nodes(b["body"], "Let"):
            if l["pat"].get("k") == "Binding" and l.get("init") is not None and any(
                    (hir.path_local(x) or {}).get("id") in opt_ids for x in hir.nodes(l["init"], "Path")):
                if c.tstr(l["pat"]["bt"]) == "bool":
                    opt_ids.add(l["pat"]["id"])

        def guarded(parents):
            for p in parents:
                if p.get("k") == "If" and any((hir.path_local(x) or {}).get("id") in opt_ids for x in hir.nodes(p["cond"], "Path")):
                    return True
            return False

        push_cond = all(guarded(ps) for _, ps in pushes)
        for m, ps in pops:
            n_pp += 1
            ok = guarded(ps) == push_cond
            out.add(b["d"], "inc_references is popped on an exit exactly when it was pushed on entry", ok, c.loc(m["sp"]),
                    "the push happens only for `this = Some(..)`, this pop happens %s: after a failed parse from scratch the stack has lost "
                    "an offset of an enclosing Reference, `get_old_reference()` is too small and later old nodes look aligned at "
                    "the wrong place" % ("only then too" if guarded(ps) else "always"), ("pairing",))
    if n_pp == 0 and n_sites_any >= 2:
        # push and pop sit in different functions (an enter/leave pair of a scope object): the pairing is not followed across them
        out.add("parser", "inc_references is popped on an exit exactly when it was pushed on entry", None, "",
                "push and pop of inc_references are in different functions", ("pairing",))
    elif n_pp == 0:
        out.missing("inc_references push/pop sites")
    return out


# ------------------------------------------------------------------ ERROR-OWNER

def rule_error_owner(prog):
    """`expect(..)` reports a missing construct by pushing an error into the token stream's error buffer; the nearest enclosing
    `info(..)` wrapper moves the buffer into the node it builds.  Nodes are reused per *reuse unit* (`<N as Parser>::parse`,
    guarded by `affected(this, ..)`): an error pushed inside a unit but outside every `info(..)` of that unit lands in the
    *enclosing* node - when that node is rebuilt and the unit is reused unchanged, nothing pushes the error again and it is
    lost.  So inside a unit every `expect` is under an `info(..)` (lexically, or through the unit's local call graph), or the
    unit refuses reuse for nodes that reported outward (its `this` is filtered on the node's Error variant)."""
    out = Out("ERROR-OWNER")
    c = prog.front
    INFO = (prog.body("spl_frontend::parser::utility::info") or {}).get("p", "spl_frontend::parser::utility::info")
    EXPECT = (prog.body("spl_frontend::parser::utility::expect") or {}).get("p", "spl_frontend::parser::utility::expect")
    AFFECTED = (prog.body("spl_frontend::parser::utility::affected") or {}).get("p", "spl_frontend::parser::utility::affected")
    units = {}
    for b in c.bodies:
        f = c.file_of(b["sp"])
        if not (f.endswith("parser.rs") or "/parser/" in f) or "/tests" in f or b["k"] == "closure":
            continue
        if " as parser::Parser>::parse" in b["d"]:
            root = b["d"].split(">::parse")[0] + ">::parse"
            units.setdefault(root, []).append(b)
    if len(units) < 10:
        out.missing("Parser impls in parser.rs (found %d)" % len(units))
        return out
    n = 0
    for root, bs in sorted(units.items()):
        names = {b["p"]: b for b in bs}

        def under_info(parents):
            return any(q.get("k") == "Call" and (hir.callee(q) or "") == INFO for q in parents)

        refs = {p_: [] for p_ in names}
        for b in bs:
            for x, parents in hir.walk(b["body"]):
                if x.get("k") == "Path" and x["res"].get("k") == "Def" and x["res"].get("p") in names and x["res"]["p"] != b["p"]:
                    refs[x["res"]["p"]].append((b["p"], under_info(parents)))
        memo = {}

        def covered(fp, seen=()):
            if fp in memo:
                return memo[fp]
            if fp in seen:
                return True
            rs = refs.get(fp, [])
            r = bool(rs) and all(cov or covered(caller, seen + (fp,)) for caller, cov in rs)
            memo[fp] = r
            return r

        leaks = []
        for b in bs:
            for x, parents in hir.walk(b["body"]):
                if x.get("k") == "Call" and (hir.callee(x) or "") == EXPECT:
                    n += 1
                    if not under_info(parents) and not covered(b["p"]):
                        leaks.append((b, x))
        if not leaks:
            out.add(root, "errors reported inside the unit are owned by a node of the unit", True, c.loc(bs[0]["sp"]), "")
            continue
        # the unit may still be sound if no `affected(..)` entry for its node type ever reuses a node that reported outward:
        # `this` is filtered, or the match arm that calls affected() is guarded, by a predicate that inspects the Error variant
        node_t = None
        for b in bs:
            if "impl_self" in b:
                st_ = c.ty(b["impl_self"])
                if st_["k"] == "adt":
                    node_t = st_["p"]

        def inspects_error(node):
            for m_ in hir.nodes_deep(prog, node, 2, crate=c):
                pats = [a_["pat"] for a_ in m_["arms"]] if m_.get("k") == "Match" else [m_["pat"]] if m_.get("k") == "LetExpr" else []
                if any(v.endswith("::Error") and v.startswith("spl_frontend::ast::") for pt in pats for v in hir.pat_variants_all(pt)):
                    return True
            return False

        entries = []
        for ob in c.bodies:
            f_ = c.file_of(ob["sp"])
            if not (f_.endswith("parser.rs") or "/parser/" in f_) or "/tests" in f_ or ob["k"] == "closure":
                continue
            for call, parents in hir.walk(ob["body"]):
                if call.get("k") != "Call" or (hir.callee(call) or "") != AFFECTED or not call["args"]:
                    continue
                a0 = hir.strip(call["args"][0])
                t0 = hir.peel(c, a0["t"]) if "t" in a0 else {}
                inner = None
                if t0.get("k") == "adt" and t0["p"].endswith("option::Option") and t0.get("a"):
                    it = hir.peel(c, int(t0["a"][0])) if str(t0["a"][0]).isdigit() else {}
                    inner = it.get("p") if it.get("k") == "adt" else None
                if inner != node_t or node_t is None:
                    continue
                ok_entry = False
                pl = hir.path_local(a0)
                src = a0
                if pl:
                    for l in hir.nodes(ob["body"], "Let"):
                        if l["pat"].get("k") == "Binding" and l["pat"]["id"] == pl["id"] and l.get("init") is not None:
                            src = hir.strip(l["init"])
                if src.get("k") == "MethodCall" and src["m"] == "filter" and src["args"] and inspects_error(src["args"][0]):
                    ok_entry = True
                # (`match this { Some(old) if reports_outward(old) => None, other => other }`, `if let Some(old) = this { if .. { None } .. }`)
                if src.get("k") == "Match" and any(a_.get("guard") is not None and inspects_error(a_["guard"]) and
                                                   any(last(x_["res"].get("ctor_of") or "") == "None" for x_ in hir.nodes(a_["body"], "Path"))
                                                   for a_ in src["arms"]):
                    ok_entry = True
                if src.get("k") == "If" and inspects_error(src["cond"]) and any(
                        last(x_["res"].get("ctor_of") or "") == "None" for x_ in hir.nodes(src["then"], "Path")):
                    ok_entry = True
                for pr in parents:
                    if pr.get("k") == "Arm" and pr.get("guard") is not None and inspects_error(pr["guard"]):
                        ok_entry = True
                    # (`if let Some(old) = reusable(this) { affected(Some(old), ..) }`: the candidate comes out of a test of its own)
                    if pr.get("k") == "If" and any(y is call for y in hir.nodes(pr["then"])) and inspects_error(pr["cond"]):
                        ok_entry = True
                    # (`match reusable(this) { Some(old) => affected(Some(old), ..), None => .. }`)
                    if pr.get("k") == "Match" and not any(y is call for y in hir.nodes(pr["scrut"])) and inspects_error(pr["scrut"]):
                        ok_entry = True
                entries.append((ob, call, ok_entry))
        refuses = bool(entries) and all(e_[2] for e_ in entries)
        bad_entry = [e_ for e_ in entries if not e_[2]]
        for b, x in leaks:
            out.add(root, "errors reported inside the unit are owned by a node of the unit (or such nodes are never reused)", refuses,
                    c.loc(x["sp"]), "`expect(..)` in `%s` pushes its error outside every `info(..)` of %s: the error is collected by "
                    "the enclosing node; if that node is rebuilt while this one is reused unchanged, the error disappears (an edit that "
                    "does not even touch the expression removes a diagnostic)%s" % (b["name"], root,
                        "; unguarded reuse entry: affected(..) in %s" % bad_entry[0][0]["d"] if bad_entry else ""))
    if n < 10:
        out.missing("expect(..) calls in the parser (found %d)" % n)
    return out


# ------------------------------------------------------------------ ERR-FRAME

def rule_err_frame(prog):
    """Every syntax error the parser creates carries a token range *relative to the Reference being parsed* (ErrorContainer::errors
    shifts it by the offsets of the References it crosses on the way up).  The stream position `location_offset()` is absolute: where
    an error position is computed from it, `reference_pos` is subtracted."""
    out = Out("ERR-FRAME")
    c = prog.front
    n = 0
    for b in c.bodies:
        f_ = c.file_of(b["sp"])
        if not (f_.endswith("src/parser.rs") or "/parser/" in f_) or "/tests" in f_:
            continue
        defs = {}
        for l in hir.nodes(b["body"], "Let"):
            if l.get("init") is not None:
                for bd in hir.pat_bindings(l["pat"]):
                    defs[bd["id"]] = l["init"]
        for call in hir.nodes(b["body"], "Call"):
            d = hir.path_def(call["f"])
            is_err = bool(d) and (d.get("ctor_of") or "") == "spl_frontend::error::SplError"
            is_info = (hir.callee_display(call) or "").endswith("ast::AstInfo::new") or (hir.callee(call) or "").endswith("AstInfo::new")
            if not (is_err or is_info) or not call["args"]:
                continue
            roots, seen = [call["args"][0]], set()
            uses_abs = None
            subtracts = False
            while roots:
                r = roots.pop()
                for x in hir.nodes(r):
                    if x.get("k") == "MethodCall" and x["m"] == "location_offset":
                        uses_abs = x
                    if x.get("k") == "Field" and x["name"] == "reference_pos":
                        subtracts = True
                    pl = hir.path_local(x)
                    if pl and pl["id"] in defs and pl["id"] not in seen:
                        seen.add(pl["id"])
                        roots.append(defs[pl["id"]])
            if uses_abs is None:
                continue
            n += 1
            out.add(b["d"], "a %s position computed from the stream position is made relative to the current Reference" % ("diagnostic" if is_err else "node"), subtracts,
                    c.loc(call["sp"]), "the range of this SplError is computed from `location_offset()` (absolute token index) without subtracting "
                    "`reference_pos`: every Reference on the way up adds its offset again, so outside the first declaration the diagnostic lands "
                    "on a later token - possibly in another declaration, or behind the end of the token list", ("frame",))
    if n < 2:
        out.missing("SplError positions computed from location_offset() in the parser (found %d)" % n)
    # (escape) expect() puts its error into the stream's error buffer with a position relative to the Reference that is being parsed;
    # the next enclosing info(..) takes the buffer over.  If a node type that is parsed through `Reference<T>` has no info(..) around
    # an expect(), the error leaves T's Reference and is taken over by an info(..) of the *enclosing* node, which counts positions
    # from another token: the diagnostic lands in front of the expression instead of behind the operator.
    pbodies = [b for b in c.bodies if (c.file_of(b["sp"]).endswith("src/parser.rs") or "/parser/" in c.file_of(b["sp"])) and "/tests" not in c.file_of(b["sp"])]
    byp = {b["p"]: b for b in pbodies}

    def _is(call, name):
        return call.get("k") == "Call" and (hir.callee(call) or "").endswith("parser::utility::" + name)
    direct, mentions = {}, {}
    def _covered_by_local(b, parents):
        """the node stands in the initialiser of a local (`let ref_and_name = alt((.. expect(..) ..));`) that is only used below info(..)"""
        for p_ in parents:
            if p_.get("k") == "Let" and p_.get("init") is not None and p_["pat"].get("k") == "Binding":
                lid = p_["pat"]["id"]
                uses = [(y, yp) for y, yp in hir.walk(b["body"]) if y.get("k") == "Path" and (hir.path_local(y) or {}).get("id") == lid]
                if uses and all(any(_is(q_, "info") for q_ in yp) for _, yp in uses):
                    return True
        return False
    for b in pbodies:
        d_, m_ = [], []
        for x, parents in hir.walk(b["body"]):
            if any(_is(p_, "info") for p_ in parents) or ((_is(x, "expect") or x.get("k") == "Path") and _covered_by_local(b, parents)):
                continue
            if _is(x, "expect"):
                d_.append(x)
            if x.get("k") == "Path" and x["res"].get("k") == "Def":
                q_ = x["res"].get("rp") or x["res"].get("p")
                if q_ in byp and q_ != b["p"]:
                    m_.append(q_)
        direct[b["p"]], mentions[b["p"]] = d_, m_
    n_expect = sum(1 for b in pbodies for x in hir.nodes(b["body"], "Call") if _is(x, "expect"))
    leak = {p_: set(id(x) for x in d_) for p_, d_ in direct.items()}
    sites = {id(x): (byp[p_], x) for p_, d_ in direct.items() for x in d_}
    changed = True
    while changed:
        changed = False
        for p_ in leak:
            for q_ in mentions[p_]:
                if not leak[q_] <= leak[p_]:
                    leak[p_] |= leak[q_]
                    changed = True
    # node types that are parsed inside a Reference of their own: fields of type Reference<T> / Vec<Reference<T>> in the syntax tree
    referenced = set()
    for t_ in c.types:
        s_ = t_.get("s", "")
        for m2 in re.finditer(r"Reference<(?:spl_frontend::)?(?:ast::)?([A-Za-z]+)>", s_):
            referenced.add(m2.group(1))
    escaping = {}
    for b in pbodies:
        if b["name"] == "parse" and " as parser::Parser>::parse" in b["d"] and b["d"].startswith("<ast::"):
            tname = b["d"][len("<ast::"):].split(" ")[0]
            if tname in referenced:
                for sid in leak[b["p"]]:
                    escaping.setdefault(sid, []).append(tname)
    if n_expect:
        if escaping:
            for sid, tnames in sorted(escaping.items(), key=lambda kv: sites[kv[0]][1]["sp"]):
                fb, x = sites[sid]
                # (named by role: the message the expect() reports and the node types it escapes from - the function that holds the
                # call may be renamed or moved)
                msg_ = []
                for a_ in x.get("args") or []:
                    for y in hir.nodes(a_):
                        if y.get("k") == "Path" and "ParseErrorMessage::" in (y["res"].get("ctor_of") or ""):
                            msg_.append(last(y["res"]["ctor_of"]))
                        if y.get("k") == "Lit" and y["lit"].get("k") == "str":
                            msg_.append(str(y["lit"].get("v")))
                item_ = "expect(%s) below %s" % (" ".join(msg_) or "?", "/".join(sorted(set(tnames))))
                out.add(item_, "the error of an expect() is collected inside the Reference it was counted in", False, c.loc(x["sp"]),
                        "no info(..) stands between this expect() and the parser of %s, which runs inside a Reference of its own: the error "
                        "position is counted from the first token of the %s but taken over by the enclosing node, which counts from its own "
                        "first token - `f(x, 1 + )` reports `expected expression` behind `f(`, in front of the innocent first argument"
                        % (" / ".join(sorted(set(tnames))), sorted(set(tnames))[0].lower()), ("escape",))
        else:
            out.add("parser", "the error of an expect() is collected inside the Reference it was counted in", True, "",
                    "%d expect() calls, each below an info(..) of its own node" % n_expect, ("escape",))
    # (foreign) the ranges of the errors in the parser's buffer count *tokens* (AnalyzedSource::errors slices the token vector with
    # them); the errors a Token carries were made by the lexer and count *bytes*.  Nothing moves errors from a token into the
    # parser's buffer or into an AstInfo.
    foreign = None
    n_buf = 0
    for b in pbodies:
        for x in hir.nodes(b["body"], "MethodCall"):
            if x["m"] not in ("push", "extend", "append", "extend_from_slice", "append_error", "insert"):
                continue
            r_ = hir.strip_ref(x["recv"])
            is_buf = (r_.get("k") == "Field" and r_["name"] in ("error_buffer", "errors")) or x["m"] == "append_error"
            if not is_buf:
                continue
            n_buf += 1
            for a_ in x.get("args") or []:
                for y in hir.nodes(a_, "Field"):
                    if y["name"] == "errors" and "tokens::Token" in (c.tstr(hir.strip(y["base"])["t"]) +
                                                                   "".join(c.tstr(ad_["to"]) for ad_ in hir.strip(y["base"]).get("adj") or [])):
                        foreign = foreign or (b, x)
    if n_buf:
        out.add("parser", "the errors of a token (byte ranges) are not put among the parser's errors (token ranges)", foreign is None,
                c.loc(foreign[1]["sp"]) if foreign else "", ("%s hands `token.errors` on; " % foreign[0]["d"] if foreign else "") +
                "AnalyzedSource::errors() turns every error range into a text range by slicing the token vector with it: the byte range of a "
                "lexical error (`4294967296` behind seventy characters) is out of bounds there - the diagnostics panic, the broker task dies "
                "and no request is answered any more (%d pushes looked at)" % n_buf, ("foreign",))
    # (origin) the walkers of the table builder and of the semantic checker hand every child that sits behind a Reference the origin
    # `<own origin> + <child>.offset`.  An origin that is accumulated over the children (a running sum of their lengths) is only right
    # while every child is visited and the children follow each other without a gap.
    n_org, bad_org = 0, None
    for b in c.bodies:
        if not b["p"].startswith("spl_frontend::table::") or "/tests" in c.file_of(b["sp"]):
            continue
        for x, parents in hir.walk(b["body"]):
            if x.get("k") != "MethodCall" or x["m"] not in ("build", "analyze") or not x.get("args"):
                continue
            rt_ = c.tstr(hir.strip(x["recv"])["t"]) + "".join(c.tstr(a_["to"]) for a_ in hir.strip(x["recv"]).get("adj") or [])
            if "Reference<" not in rt_:
                continue
            for a_ in x["args"]:
                if c.tstr(hir.strip(a_)["t"]) != "usize":
                    continue
                n_org += 1
                pl_ = hir.path_local(hir.strip(a_))
                if not pl_:
                    continue
                # a parameter of a closure handed to fold / scan / try_fold as the accumulator?
                for p_ in parents:
                    if p_.get("k") == "MethodCall" and p_["m"] in ("fold", "try_fold", "scan", "rfold") and len(p_.get("args") or []) >= 2:
                        cl_ = hir.strip(p_["args"][1])
                        if cl_.get("k") == "Closure" and cl_.get("params"):
                            acc_ids = {bd["id"] for bd in hir.pat_bindings(cl_["params"][0])}
                            if pl_["id"] in acc_ids and any(y is x for y in hir.nodes(cl_["body"])):
                                bad_org = bad_org or (b, x)
    if n_org:
        out.add("table walkers", "the origin handed to a child is the walker's origin plus that child's offset", bad_org is None,
                c.loc(bad_org[1]["sp"]) if bad_org else "", ("%s hands down an origin that is accumulated over the children; " % bad_org[0]["d"] if bad_org else "") +
                "with stray top-level tokens (an error declaration that is skipped) every later declaration is entered with too small an origin: "
                "its entry range no longer covers it, go-to resolves the name to a wrong token and analyze() takes the procedure for a redeclaration "
                "(%d origins looked at)" % n_org, ("origin", "entry"))
    # table entries: `range` is the token range of the whole declaration (`decl.to_range().shift(offset)`), because `name` (cloned from
    # the declaration) is relative to the declaration's first token - leading doc comments included.  The handlers cut
    # `tokens[entry.range]` and resolve `entry.name` inside that slice; an entry range that starts anywhere else shifts every name
    # (or runs out of the slice: panic)
    n_e = 0
    for b in c.bodies:
        if not b["p"].startswith("spl_frontend::table::build") or "/tests" in c.file_of(b["sp"]):
            continue
        defs = {}
        for l in hir.nodes(b["body"], "Let"):
            if l.get("init") is not None:
                for bd in hir.pat_bindings(l["pat"]):
                    defs[bd["id"]] = l["init"]
        for st in hir.nodes(b["body"], "Struct"):
            if last(st.get("adt") or "") not in ("TypeEntry", "ProcedureEntry", "VariableEntry"):
                continue
            f = {x["name"]: x["e"] for x in st["fields"]}
            if "range" not in f:
                continue
            e = hir.strip(f["range"])
            pl = hir.path_local(e)
            hops = 0
            while pl and pl["id"] in defs and hops < 4:
                e = hir.strip(defs[pl["id"]])
                pl = hir.path_local(e)
                hops += 1
            ok = None
            if e.get("k") == "MethodCall" and e["m"] == "shift":
                rv = hir.strip(e["recv"])
                ok = rv.get("k") == "MethodCall" and rv["m"] == "to_range"
            elif e.get("k") == "Struct" and (e.get("adt") or "").startswith("core::ops::range::Range"):
                ok = False
            elif e.get("k") == "MethodCall" and e["m"] == "to_range":
                ok = None
            n_e += 1
            out.add(b["d"], "the range of a %s is the token range of its whole declaration" % last(st.get("adt")), ok, c.loc(st["sp"]),
                    "the entry's range is put together by hand instead of `decl.to_range().shift(offset)`: `name` stays relative to the first "
                    "token of the declaration (doc comments included), so go-to resolves the name in a slice that starts elsewhere - a wrong "
                    "token, or an index out of the slice and a dead server", ("entry",))
    if n_e < 3:
        out.missing("table entry literals with a range in table::build (found %d)" % n_e)
    return out


# ------------------------------------------------------------------ RECURSION-BOUND

def rule_recursion_bound(prog):
    """The AST is built by recursive descent and then walked by recursive functions (table build, semantic analysis, ranges, error
    collection, formatting ...): the stack every one of them needs grows with the nesting depth of the tree.  Necessary condition for
    `analysing any text terminates without panicking`: the depth of the tree is bounded where it is built - the parser carries a
    nesting counter in its state (TokenStream) and compares it with a constant somewhere on the recursion.  Decided here: for every
    recursive node type with a parser, whether such a comparison exists in the parser at all."""
    out = Out("RECURSION-BOUND")
    fc = prog.front
    ast = [p for p in prog.adts if p.startswith("spl_frontend::ast::")]
    edges = {p: set() for p in ast}
    for p in ast:
        for v in prog.adts[p]["variants"]:
            for f in v["fields"]:
                for q in ast:
                    if hir.type_mentions(fc, f["t"], q):
                        edges[p].add(q)

    def reach(p):
        seen, st = set(), [p]
        while st:
            x = st.pop()
            for y in edges.get(x, ()):
                if y not in seen:
                    seen.add(y)
                    st.append(y)
        return seen
    rec = sorted(p for p in ast if p in reach(p) and prog.adts[p]["k"] == "enum")
    if not rec:
        out.missing("recursive AST node types (Expression, Statement, ...)")
        return out
    # bound checks in the parser: `<state of the token stream> (<|<=|>|>=) <constant>`
    bounds = []
    for b in fc.bodies:
        f_ = fc.file_of(b["sp"])
        if not (f_.endswith("src/parser.rs") or "/parser/" in f_) or "/tests" in f_:
            continue
        for bn in hir.nodes(b["body"], "Binary"):
            if bn["op"] not in ("<", "<=", ">", ">=", "Lt", "Le", "Gt", "Ge"):
                continue
            def is_const(e):
                e = hir.strip(e)
                if e.get("k") == "Lit":
                    return True
                return e.get("k") == "Path" and e["res"].get("k") == "Def" and e["res"].get("dk") in ("Const", "AssocConst")
            def is_state(e):
                for x in hir.nodes(e):
                    if x.get("k") in ("Field", "MethodCall"):
                        base = x.get("base") or x.get("recv")
                        if base is not None and "TokenStream" in fc.tstr(hir.strip(base)["t"]):
                            return True
                        if base is not None and hir.strip(base).get("k") == "Field" and \
                                "TokenStream" in fc.tstr(hir.strip(hir.strip(base)["base"])["t"]):
                            return True
                return False
            if (is_const(bn["l"]) and is_state(bn["r"])) or (is_const(bn["r"]) and is_state(bn["l"])):
                bounds.append((b, bn))
    for p in rec:
        nm = last(p)
        pb = [b for b in fc.bodies if b["d"] == "<ast::%s as parser::Parser>::parse" % nm]
        if not pb:
            continue
        out.add("<ast::%s as parser::Parser>::parse" % nm, "the nesting depth of %s nodes is bounded by the parser" % nm, bool(bounds),
                fc.loc(pb[0]["sp"]), "`%s` contains itself (through %s) and is parsed and later walked recursively, but nothing in the parser "
                "compares a nesting counter of the token stream with a constant: the recursion depth equals the nesting depth of the "
                "document and the stack overflows (SIGABRT, the server process dies)" % (
                    nm, ", ".join(sorted(last(q) for q in edges[p] if p in reach(q) or q == p)[:4])), ("bound",))
    return out
