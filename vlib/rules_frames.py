"""FRAME rule: run the frame interpreter over every function of both crates and report its sinks."""
from . import frames
from .core import Out


def relevant(b):
    c = b["_crate"]
    f = c.file_of(b["sp"])
    if b["k"] not in ("fn", "assoc_fn"):
        return False
    if "_serde" in b["d"] or "/tests" in f or f.endswith("benches.rs"):
        return False
    return True


_cache = {}


def interp_for(prog):
    if id(prog) not in _cache:
        I = frames.Interp(prog)
        for b in prog.bodies():
            if relevant(b):
                I.summary(b["p"])
        # Functions of a recursive cycle were summarised while their partners were still unknown (their mutual calls are not judged
        # in pass 1), so "tokens arrive as they are" (A) was never contradicted.  With every summary known: a function whose calls
        # are inconsistent under A but all consistent under B ("tokens arrive re-based for the Reference parameter") follows B.
        for _ in range(4):
            changed = False
            for b in prog.bodies():
                if not relevant(b):
                    continue
                s1 = I.summaries.get(b["p"])
                if s1 is None or getattr(s1, "conv", "A") != "A":
                    continue
                I.pass2 = True
                try:
                    sa = I.analyse_body(b, "A")
                    if any(x.ok is False and x.kind == "S2" for x in sa.sinks) and not any(x.ok is False for x in s1.sinks):
                        sb = I.analyse_body(b, "B")
                        if not any(x.ok is False for x in sb.sinks):
                            sb.conv = "B"
                            I.summaries[b["p"]] = sb
                            changed = True
                finally:
                    I.pass2 = False
            if not changed:
                break
        _cache[id(prog)] = I
    return _cache[id(prog)]


def rule_frames(prog):
    out = Out("FRAME")
    I = interp_for(prog)
    for b in prog.bodies():
        if not relevant(b):
            continue
        s = I.final(b["p"])
        if s is None:
            continue
        c = b["_crate"]
        fpath = c.file_of(b["sp"])
        fname = fpath.rsplit("/", 1)[-1]
        if fname == "mod.rs" and fpath.count("/") >= 1:
            fname = fpath.rsplit("/", 2)[-2] + ".rs"
        # a sink that pass 1 decided as a violation (both frames known) but pass 2 cannot decide any more, because the function's own
        # first-pass result became unknown through that very inconsistency (a recursive walker that forgets one `.shift`), keeps
        # the first-pass verdict
        s1 = I.summaries.get(b["p"])
        first_bad = {}
        if s1 is not None and getattr(s1, "conv", "A") == "A":
            for sk in s1.sinks:
                if sk.ok is False and sk.kind != "conv":
                    first_bad[(sk.kind, tuple(sk.sp) if isinstance(sk.sp, list) else sk.sp)] = sk
        for sk in s.sinks:
            if sk.kind == "conv":
                continue
            key_ = (sk.kind, tuple(sk.sp) if isinstance(sk.sp, list) else sk.sp)
            if sk.ok is None and key_ in first_bad:
                sk = first_bad[key_]
            out.add(b["d"], "%s %s" % (sk.kind, sk.what), sk.ok, c.loc(sk.sp), sk.msg, (sk.kind, fname, "path:" + fpath))
    return out
