"""FRAME rule: run the frame interpreter over every function of both crates and report its sinks."""
from . import frames
from .core import Out


def relevant(b):
    c = b["_crate"]
    f = c.file_of(b["sp"])
    if b["k"] not in ("fn", "assoc_fn"):
        return False
    if "_serde" in b["d"] or "/tests" in f or f.endswith("benches.rs"):
        return False
    return True


_cache = {}


def interp_for(prog):
    if id(prog) not in _cache:
        I = frames.Interp(prog)
        for b in prog.bodies():
            if relevant(b):
                I.summary(b["p"])
        _cache[id(prog)] = I
    return _cache[id(prog)]


def rule_frames(prog):
    out = Out("FRAME")
    I = interp_for(prog)
    for b in prog.bodies():
        if not relevant(b):
            continue
        s = I.final(b["p"])
        if s is None:
            continue
        c = b["_crate"]
        fpath = c.file_of(b["sp"])
        fname = fpath.rsplit("/", 1)[-1]
        if fname == "mod.rs" and fpath.count("/") >= 1:
            fname = fpath.rsplit("/", 2)[-2] + ".rs"
        for sk in s.sinks:
            if sk.kind == "conv":
                continue
            out.add(b["d"], "%s %s" % (sk.kind, sk.what), sk.ok, c.loc(sk.sp), sk.msg, (sk.kind, fname, "path:" + fpath))
    return out
