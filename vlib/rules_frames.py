"""FRAME rule: run the frame interpreter over every function of both crates and report its sinks."""
from . import frames
from .core import Out


def relevant(b):
    c = b["_crate"]
    f = c.file_of(b["sp"])
    if b["k"] not in ("fn", "assoc_fn"):
        return False
    if "_serde" in b["d"] or "/tests" in f or f.endswith("benches.rs"):
        return False
    return True


_cache = {}


def interp_for(prog):
    if id(prog) not in _cache:
        I = frames.Interp(prog)
        for b in prog.bodies():
            if relevant(b):
                I.summary(b["p"])
        # Functions of a recursive cycle were summarised while their partners were still unknown (their mutual calls are not judged
        # in pass 1), so "tokens arrive as they are" (A) was never contradicted.  With every summary known: a function whose calls
        # are inconsistent under A but all consistent under B ("tokens arrive re-based for the Reference parameter") follows B.
        for _ in range(4):
            changed = False
            for b in prog.bodies():
                if not relevant(b):
                    continue
                s1 = I.summaries.get(b["p"])
                if s1 is None or getattr(s1, "conv", "A") != "A":
                    continue
                I.pass2 = True
                try:
                    sa = I.analyse_body(b, "A")
                    if any(x.ok is False and x.kind == "S2" for x in sa.sinks) and not any(x.ok is False for x in s1.sinks):
                        sb = I.analyse_body(b, "B")
                        if not any(x.ok is False for x in sb.sinks):
                            sb.conv = "B"
                            I.summaries[b["p"]] = sb
                            changed = True
                finally:
                    I.pass2 = False
            if not changed:
                break
        _cache[id(prog)] = I
    return _cache[id(prog)]


def rule_frames(prog):
    out = Out("FRAME")
    I = interp_for(prog)
    for b in prog.bodies():
        if not relevant(b):
            continue
        s = I.final(b["p"])
        if s is None:
            continue
        c = b["_crate"]
        fpath = c.file_of(b["sp"])
        fname = fpath.rsplit("/", 1)[-1]
        if fname == "mod.rs" and fpath.count("/") >= 1:
            fname = fpath.rsplit("/", 2)[-2] + ".rs"
        # a sink that pass 1 decided as a violation (both frames known) but pass 2 cannot decide any more, because the function's own
        # first-pass result became unknown through that very inconsistency (a recursive walker that forgets one `.shift`), keeps
        # the first-pass verdict
        s1 = I.summaries.get(b["p"])
        first_bad = {}
        if s1 is not None and getattr(s1, "conv", "A") == "A":
            for sk in s1.sinks:
                if sk.ok is False and sk.kind != "conv":
                    first_bad[(sk.kind, tuple(sk.sp) if isinstance(sk.sp, list) else sk.sp)] = sk
        for sk in s.sinks:
            if sk.kind == "conv":
                continue
            key_ = (sk.kind, tuple(sk.sp) if isinstance(sk.sp, list) else sk.sp)
            if sk.ok is None and key_ in first_bad:
                sk = first_bad[key_]
            out.add(b["d"], "%s %s" % (sk.kind, sk.what), sk.ok, c.loc(sk.sp), sk.msg, (sk.kind, fname, "path:" + fpath))
    _loop_descent(prog, out)
    return out


def _locals_in(e):
    from . import hir
    return {p["res"]["id"] for p in hir.nodes(e, "Path") if p["res"].get("k") == "Local"}


def _loop_descent(prog, out):
    """S8 - iterative descent.  A loop that walks down through nested References (`cur = <child of cur>`) has to add up the offset
    of *every* level it crosses: whatever is assigned inside that loop from `cur.offset` must also be fed by a value the loop itself
    carries (`origin += cur.offset`, `origin = origin + cur.offset`, `abs = parent_abs + cur.offset; parent_abs = abs`).  An
    assignment built from `cur.offset` and loop-invariant values only forgets all levels but the last: it is right for a nesting
    depth of one and wrong beyond.  Loops of another shape produce no instance."""
    from . import hir
    for b in prog.bodies():
        if not relevant(b):
            continue
        c = b["_crate"]
        fpath = c.file_of(b["sp"])
        fname = fpath.rsplit("/", 1)[-1]
        if fname == "mod.rs" and fpath.count("/") >= 1:
            fname = fpath.rsplit("/", 2)[-2] + ".rs"
        for lp in hir.nodes(b["body"]):
            if lp.get("k") not in ("Loop", "While"):
                continue
            assigns = [a for a in hir.nodes(lp["body"]) if a.get("k") in ("Assign", "AssignOp")]
            carried = {}
            for a in assigns:
                l = hir.strip(a["l"])
                if l.get("k") == "Path" and l["res"].get("k") == "Local":
                    carried.setdefault(l["res"]["id"], []).append(a)
            # the cursor: a carried local of Reference type that is re-assigned from itself (or from a pattern binding of a match on it)
            cursors = set()
            for vid, asg in carried.items():
                for a in asg:
                    l = hir.strip(a["l"])
                    if a["k"] == "Assign" and "ast::Reference<" in c.tstr(l.get("t")):
                        cursors.add(vid)
            if not cursors:
                continue
            for vid, asg in carried.items():
                if vid in cursors:
                    continue
                for a in asg:
                    if a["k"] != "Assign":
                        continue
                    uses_cur_off = any(f["name"] == "offset" and (_locals_in(f["base"]) & cursors) for f in hir.nodes(a["r"], "Field"))
                    if not uses_cur_off:
                        continue
                    fed = (_locals_in(a["r"]) - cursors) & set(carried)
                    calls = any(x.get("k") in ("Call", "MethodCall") for x in hir.nodes(a["r"]))
                    ok = True if fed else (None if calls else False)
                    out.add(b["d"], "S8 an origin computed in a descent loop adds up every level crossed", ok, c.loc(a["sp"]),
                            "assigned from the cursor's `.offset` and %s" % ("a value carried by the loop" if fed else
                            "loop-invariant values only: the offsets of all levels but the last are dropped (right for one level of "
                            "nesting, wrong beyond)"), ("S8", fname, "path:" + fpath))
