"""Thorough tier: the quick rules plus a sensitivity sweep of the stored mutant corpus for this property
(each mutant is applied to a scratch copy of the current tree under $TMPDIR, analysed, and removed)."""
import json
import os
import subprocess
import sys

VERIF = os.path.dirname(os.path.dirname(os.path.abspath(__file__)))


def run(pid, repo, work):
    mj = os.path.join(VERIF, "mutants", "mutants.json")
    if not os.path.exists(mj):
        return []
    ms = [m for m in json.load(open(mj)) if pid in m.get("expect", [])]
    # independently seeded changes for this property (patches)
    sd = os.path.join(VERIF, "seeded")
    if os.path.isdir(sd):
        for n in sorted(os.listdir(sd)):
            meta = os.path.join(sd, n, "meta.json")
            pf = os.path.join(sd, n, "patch.diff")
            # a seed whose lines were touched by a later fix: commit is kept in a form re-based onto the repaired tree
            if os.path.exists(os.path.join(sd, n, "patch_rebased.diff")):
                pf = os.path.join(sd, n, "patch_rebased.diff")
            if os.path.exists(meta) and os.path.exists(pf):
                md = json.load(open(meta))
                if md.get("property") != pid:
                    continue
                if md.get("expect_silent_on_current_tree"):
                    # made harmless by a later repair: the check must stay silent on it
                    ms.append({"name": "seed:" + n, "patch": pf, "harmless": True})
                else:
                    ms.append({"name": "seed:" + n, "patch": pf, "expect": [pid]})
    # behaviour-preserving corpora: the check must stay silent on every one of them
    hr = os.path.join(VERIF, "mutants", "refactors.json")
    if os.path.exists(hr):
        for m in json.load(open(hr)):
            ms.append(dict(m, props=[pid]))
    rd = os.path.join(VERIF, "refactors")
    if os.path.isdir(rd):
        fc = {}
        if os.path.exists(os.path.join(rd, "EXPECTED_FAIL_CLOSED.json")):
            fc = json.load(open(os.path.join(rd, "EXPECTED_FAIL_CLOSED.json")))
        for n in sorted(os.listdir(rd)):
            if n.endswith(".diff"):
                # (redesigns that remove what a rule is anchored on are expected to fail closed - with anchor-missing / coverage-lost only)
                ms.append({"name": "refactor:" + n[:-5], "patch": os.path.join(rd, n), "harmless": True, "fail_closed": n[:-5] in fc})
    if not ms:
        return []
    out = os.path.join(VERIF, ".work", "thorough-%s.json" % pid)
    tmp = os.path.join(VERIF, ".work", "thorough-%s-mutants.json" % pid)
    for m in ms:
        m["props"] = [pid]
        if m.get("expect"):
            # only this property's check is run on the scratch copy
            m["expect"] = [pid]
    json.dump(ms, open(tmp, "w"))
    r = subprocess.run([sys.executable, os.path.join(VERIF, "tools", "mutants.py"), "--file", tmp, "--json", out, "--jobs", str(max(4, min(14, (os.cpu_count() or 8) - 2)))],
                       capture_output=True, text=True)
    res = json.load(open(out)) if os.path.exists(out) else []
    caught = [x for x in res if x["status"] == "caught"]
    missed = [x for x in res if x["status"] == "MISSED"]
    silent = [x for x in res if x["status"] == "silent"]
    alarms = [x for x in res if x["status"] == "FALSE-ALARM"]
    failclosed = [x for x in res if x["status"] == "fail-closed"]
    skipped = [x for x in res if x["status"] not in ("caught", "MISSED", "silent", "FALSE-ALARM", "fail-closed")]
    ev = os.path.join(VERIF, "evidence", pid + ".json")
    if repo == "/repo" and os.path.exists(ev):
        e = json.load(open(ev))
        e["tier"] = "thorough"
        e["coverage"]["mutant_sweep"] = {"mutants": len(res), "caught": len(caught), "missed": [x["name"] for x in missed],
                                         "skipped": [x["name"] for x in skipped],
                                         "harmless_edits_silent": len(silent), "harmless_edits_alarmed": [x["name"] for x in alarms],
                                         "redesigns_failed_closed_as_expected": [x["name"] for x in failclosed],
                                         "rule": "each stored mutant (a small edit that compiles and passes the 142 tests) is applied "
                                                 "to a scratch copy of the current tree; the check must report a violation on it"}
        json.dump(e, open(ev, "w"), indent=1)
    print("%s thorough: %d/%d breaking edits caught, %d/%d harmless edits silent, %d skipped"
          % (pid, len(caught), len(caught) + len(missed), len(silent), len(silent) + len(alarms), len(skipped)))
    for x in failclosed:
        print("NOTE: fails closed on a redesign that removes the rule's anchors (listed in refactors/EXPECTED_FAIL_CLOSED.json): %s" % x["name"])
    for x in alarms:
        print("NOTE: alarm on a behaviour-preserving edit (checker precision): %s" % x["name"])
    for x in missed:
        print("NOTE: mutant not detected (checker sensitivity): %s" % x["name"])
    return []
