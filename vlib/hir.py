"""Helpers over the exported typed-HIR JSON."""

EXPR_CHILD_KEYS = ("f", "recv", "l", "r", "e", "init", "iter", "cond", "then", "else", "scrut", "body",
                   "base", "idx", "b", "expr", "guard", "els")
LIST_CHILD_KEYS = ("args", "es", "arms", "stmts", "fields")


def children(node):
    """Yield direct child nodes (expressions, blocks, arms, stmts, patterns excluded)."""
    if not isinstance(node, dict):
        return
    if node.get("k") == "Block":
        for x in node["stmts"]:
            yield x
        if node.get("expr"):
            yield node["expr"]
        return
    for k in EXPR_CHILD_KEYS:
        v = node.get(k)
        if isinstance(v, dict):
            yield v
    for k in LIST_CHILD_KEYS:
        v = node.get(k)
        if isinstance(v, list):
            for x in v:
                if isinstance(x, dict):
                    yield x


def walk(node, parents=None):
    """Pre-order walk over expression/block/stmt/arm nodes; yields (node, parents tuple)."""
    if parents is None:
        parents = ()
    yield node, parents
    np = parents + (node,)
    for c in children(node):
        for x in walk(c, np):
            yield x


def nodes(node, kind=None):
    for n, _ in walk(node):
        if kind is None or n.get("k") == kind:
            yield n


def strip(e):
    """Strip transparent wrappers (Paren/DropTemps, BlockExpr without stmts, AddrOf)."""
    while isinstance(e, dict):
        k = e.get("k")
        if k == "Paren":
            e = e["e"]
        elif k == "BlockExpr" and not e["b"]["stmts"] and e["b"].get("expr"):
            e = e["b"]["expr"]
        else:
            break
    return e


def strip_ref(e):
    e = strip(e)
    while isinstance(e, dict) and e.get("k") == "AddrOf":
        e = strip(e["e"])
    return e


def callee(e):
    """Resolved callee path (impl method when resolvable) of a Call/MethodCall; else None."""
    k = e.get("k")
    if k == "MethodCall":
        return e.get("rp") or e.get("p")
    if k == "Call":
        f = strip(e["f"])
        if f.get("k") == "Path" and f["res"].get("k") == "Def":
            return f["res"].get("rp") or f["res"].get("p")
    return None


def callee_decl(e):
    """Declared (trait-level) callee path of a Call/MethodCall."""
    k = e.get("k")
    if k == "MethodCall":
        return e.get("p")
    if k == "Call":
        f = strip(e["f"])
        if f.get("k") == "Path" and f["res"].get("k") == "Def":
            return f["res"].get("p")
    return None


def callee_display(e):
    k = e.get("k")
    if k == "MethodCall":
        return e.get("d")
    if k == "Call":
        f = strip(e["f"])
        if f.get("k") == "Path" and f["res"].get("k") == "Def":
            return f["res"].get("d")
    return None


def call_args(e):
    """All arguments incl. receiver."""
    if e.get("k") == "MethodCall":
        return [e["recv"]] + e["args"]
    return e.get("args", [])


def path_def(e):
    e = strip(e)
    if e.get("k") == "Path" and e["res"].get("k") == "Def":
        return e["res"]
    return None


def path_local(e):
    e = strip(e)
    if e.get("k") == "Path" and e["res"].get("k") == "Local":
        return e["res"]
    return None


def in_macro(n, name):
    return name in (n.get("mx") or [])


def lit_value(e):
    e = strip(e)
    if e.get("k") == "Lit":
        return e["lit"].get("v")
    return None


# ---------------------------------------------------------------- types

def format_text(root):
    """The literal text pieces of the format strings expanded below `root` (rustc lowers a template to a byte string in
    which the pieces are length-prefixed; the printable runs are the text)."""
    out = []
    for l in nodes(root, "Lit"):
        if "desugaring of format string literal" in (l.get("mx") or []) and isinstance(l["lit"].get("v"), str):
            try:
                raw = bytes.fromhex(l["lit"]["v"])
            except ValueError:
                out.append(l["lit"]["v"])
                continue
            run = ""
            for ch in raw:
                if 32 <= ch < 127:
                    run += chr(ch)
                else:
                    if run:
                        out.append(run)
                    run = ""
            if run:
                out.append(run)
        elif l["lit"].get("k") == "str":
            out.append(str(l["lit"].get("v")))
    return out


def peel(crate, ti, wrappers=("ref", "box")):
    """Peel references and Box; returns type dict."""
    t = crate.ty(ti)
    while True:
        if t["k"] == "ref" and "ref" in wrappers:
            t = crate.ty(t["t"])
        elif t["k"] == "adt" and t["p"] == "alloc::boxed::Box" and "box" in wrappers and t["a"]:
            t = crate.ty(int(t["a"][0]))
        else:
            return t


def adt_path(crate, ti):
    t = peel(crate, ti)
    return t["p"] if t["k"] == "adt" else None


def type_mentions(crate, ti, path, _seen=None):
    """True if type ti syntactically mentions ADT `path` (through args, refs, tuples, slices)."""
    if _seen is None:
        _seen = set()
    if ti in _seen:
        return False
    _seen.add(ti)
    t = crate.ty(ti)
    k = t["k"]
    if k == "adt":
        if t["p"] == path:
            return True
        return any(type_mentions(crate, int(a), path, _seen) for a in t["a"])
    if k in ("ref", "ptr", "slice", "array"):
        return type_mentions(crate, t["t"], path, _seen)
    if k == "tuple":
        return any(type_mentions(crate, int(a), path, _seen) for a in t["a"])
    return False


# ---------------------------------------------------------------- patterns

def pat_bindings(p):
    """Yield all Binding patterns inside pattern p."""
    if not isinstance(p, dict):
        return
    k = p.get("k")
    if k == "Binding":
        yield p
        if p.get("sub"):
            for x in pat_bindings(p["sub"]):
                yield x
    elif k == "Struct":
        for f in p["fields"]:
            for x in pat_bindings(f["pat"]):
                yield x
    elif k in ("TupleStruct", "Or", "Tuple"):
        for q in p["pats"]:
            for x in pat_bindings(q):
                yield x
    elif k in ("Box", "Ref", "Guard"):
        for x in pat_bindings(p["pat"]):
            yield x
    elif k == "Slice":
        for q in p["before"] + ([p["mid"]] if p.get("mid") else []) + p["after"]:
            for x in pat_bindings(q):
                yield x


def pat_strip(p):
    while isinstance(p, dict) and p.get("k") in ("Ref", "Box"):
        p = p["pat"]
    return p


def pat_variant(p):
    """If p matches one enum variant / struct: return (ctor_or_variant_path, kind)."""
    p = pat_strip(p)
    k = p.get("k")
    if k in ("Struct", "TupleStruct", "Path"):
        r = p["res"]
        if r.get("k") == "Def":
            return r.get("ctor_of") or r.get("p")
        if r.get("k") in ("SelfCtor", "SelfTy"):
            return r.get("p")
    return None


def pat_variants_all(p):
    """All variant/struct paths mentioned anywhere inside pattern p (e.g. `Some(GlobalEntry::Type(_))` -> both)."""
    res = []
    if not isinstance(p, dict):
        return res
    v = pat_variant(p)
    if v:
        res.append(v)
    p = pat_strip(p)
    k = p.get("k")
    if k == "Struct":
        for f in p["fields"]:
            res += pat_variants_all(f["pat"])
    elif k in ("TupleStruct", "Or", "Tuple"):
        for q in p["pats"]:
            res += pat_variants_all(q)
    elif k in ("Guard",):
        res += pat_variants_all(p["pat"])
    elif k == "Binding" and p.get("sub"):
        res += pat_variants_all(p["sub"])
    return res


def pat_alternatives(p):
    p = pat_strip(p)
    if p.get("k") == "Or":
        out = []
        for q in p["pats"]:
            out.extend(pat_alternatives(q))
        return out
    return [p]


def is_wild(p):
    p = pat_strip(p)
    return p.get("k") == "Wild" or (p.get("k") == "Binding" and not p.get("sub"))


# ---------------------------------------------------------------- desugaring normalisation

def simplify(n):
    """Rewrite rustc's desugarings (`.await`, `?`, `for`, `while`) into compact nodes, in place where
    possible; returns the (possibly new) node."""
    if isinstance(n, list):
        for i, x in enumerate(n):
            n[i] = simplify(x)
        return n
    if not isinstance(n, dict):
        return n
    for k, v in list(n.items()):
        if k in ("t", "sp", "mx", "adj", "res", "lit", "pat"):
            continue
        if isinstance(v, (dict, list)):
            n[k] = simplify(v)
    k = n.get("k")
    if k == "Match":
        src = n["src"]
        if src == "await":
            sc = strip(n["scrut"])
            if sc.get("k") == "Call" and sc.get("args"):
                return {"k": "Await", "e": sc["args"][0], "t": n["t"], "sp": n["sp"]}
        elif src == "try":
            sc = strip(n["scrut"])
            if sc.get("k") == "Call" and sc.get("args"):
                return {"k": "Try", "e": sc["args"][0], "t": n["t"], "sp": n["sp"]}
        elif src == "for":
            sc = strip(n["scrut"])
            # outer: match into_iter(x) { mut iter => loop { match next(&mut iter) { None => break, Some(p) => body } } }
            if sc.get("k") == "Call" and (callee(sc) or "").endswith("IntoIterator::into_iter") and n["arms"]:
                loop = strip(n["arms"][0]["body"])
                if loop.get("k") == "Loop" and loop["body"]["stmts"]:
                    inner = stmt_inner(loop["body"]["stmts"][0])
                    if inner is not None and inner.get("k") == "Match" and len(inner["arms"]) == 2:
                        some = inner["arms"][1]
                        pat = some["pat"]
                        if pat.get("k") == "Struct" and pat["fields"]:
                            pat = pat["fields"][0]["pat"]
                        elif pat.get("k") == "TupleStruct" and pat["pats"]:
                            pat = pat["pats"][0]
                        return {"k": "ForLoop", "pat": pat, "iter": sc["args"][0], "body": some["body"],
                                "t": n["t"], "sp": n["sp"]}
    if k == "Loop" and n.get("src") == "while":
        blk = n["body"]
        e = blk.get("expr")
        if e is None and blk["stmts"]:
            e = stmt_inner(blk["stmts"][-1])
        e = strip(e) if e else None
        if e is not None and e.get("k") == "If":
            return {"k": "While", "cond": e["cond"], "body": e["then"], "t": n["t"], "sp": n["sp"]}
    return n


def stmt_inner(s):
    if not isinstance(s, dict):
        return None
    if s.get("k") in ("Expr", "Semi"):
        return strip(s["e"])
    return None


# ---------------------------------------------------------------- interprocedural helpers

def local_callee_body(prog, call):
    """Body of the function of the two crates that `call` (Call/MethodCall) resolves to, else None."""
    p = callee(call)
    if not p or not (p.startswith("spl_frontend") or p.startswith("lsp4spl")):
        return None
    return prog.body(p)


def nodes_deep(prog, root, depth=2, _seen=None, crate=None, values=False):
    """Like nodes(root) but also descends into the bodies of local functions that are called (helpers extracted by a
    refactoring are seen as if they were still inline).  crate: only descend into bodies of that crate (type indices
    are per crate).  values: also descend into local functions that are named as values (`peek(word_end)`)."""
    if _seen is None:
        _seen = set()
    for n in nodes(root):
        yield n
        b = None
        if depth > 0 and n.get("k") in ("Call", "MethodCall"):
            b = local_callee_body(prog, n)
        elif depth > 0 and values and n.get("k") == "Path" and n["res"].get("k") == "Def" and n["res"].get("dk") in ("Fn", "AssocFn"):
            p = n["res"].get("rp") or n["res"].get("p") or ""
            if p.startswith("spl_frontend") or p.startswith("lsp4spl"):
                b = prog.body(p)
        if b is not None and b["p"] not in _seen and (crate is None or b["_crate"] is crate):
            _seen.add(b["p"])
            for x in nodes_deep(prog, b["body"], depth - 1, _seen, crate, values):
                yield x


def inline_calls(prog, root, crate, depth=2, max_nodes=60, _stack=(), only=None):
    """A copy of `root` in which every call of a small function of `crate` that has no `return` of its own is replaced by the
    function's body, parameters replaced by the argument expressions (`place.begin_next_line()` -> `{ place.line += 1; .. }`).
    Refactorings that bundle the locals of a scan into a struct with methods, or name a condition, are seen through this way; the
    copy is for *reading* - spans of inlined nodes point into the helper."""
    import copy

    def subst(node, mp):
        if isinstance(node, dict):
            if node.get("k") == "Path":
                pl = path_local(node)
                if pl and pl["id"] in mp:
                    return copy.deepcopy(mp[pl["id"]])
            return {k: subst(v, mp) for k, v in node.items()}
        if isinstance(node, list):
            return [subst(v, mp) for v in node]
        return node

    counter = [0]

    def rename(node, suffix):
        """binding ids are unique per body only: the ids of an inlined body get a suffix of their own"""
        if isinstance(node, list):
            return [rename(v, suffix) for v in node]
        if not isinstance(node, dict):
            return node
        node = {k: rename(v, suffix) for k, v in node.items()}
        if node.get("k") == "Binding" and "id" in node:
            node["id"] = "%s%s" % (node["id"], suffix)
        if node.get("k") == "Local" and "id" in node:
            node["id"] = "%s%s" % (node["id"], suffix)
        return node

    def go(node, d, stack):
        if isinstance(node, list):
            return [go(v, d, stack) for v in node]
        if not isinstance(node, dict):
            return node
        node = {k: go(v, d, stack) for k, v in node.items()}
        if node.get("k") == "Call" and isinstance(node.get("f"), dict) and strip_ref(node["f"]).get("k") == "Closure":
            # a closure that is called where it stands (a function-typed parameter after substitution): its body with the parameters
            # bound to the arguments
            cl = strip_ref(node["f"])
            ps = cl.get("params") or []
            args = list(node.get("args") or [])
            if len(ps) == len(args) and not any(True for _ in nodes(cl["body"], "Ret")):
                binds = [{"k": "Let", "pat": q, "init": a, "sp": a.get("sp")} for q, a in zip(ps, args)]
                inner = strip(cl["body"])
                if inner.get("k") == "BlockExpr":
                    blk_ = dict(inner["b"])
                    blk_["stmts"] = binds + list(blk_["stmts"])
                    return dict(inner, b=blk_)
                return {"k": "BlockExpr", "b": {"k": "Block", "stmts": binds, "expr": cl["body"], "sp": node.get("sp")},
                        "t": node.get("t"), "sp": node.get("sp")}
        if d > 0 and node.get("k") in ("Call", "MethodCall"):
            hb = local_callee_body(prog, node)
            if hb is not None and hb.get("_crate") is crate and hb["k"] in ("fn", "assoc_fn") and hb["p"] not in stack and \
                    (only is None or only(hb)):
                args = ([node["recv"]] if node["k"] == "MethodCall" else []) + list(node.get("args") or [])
                ps = hb["params"]
                if len(args) == len(ps) and all(q.get("k") == "Binding" and not q.get("sub") for q in ps):
                    body = hb["body"]
                    n_nodes = sum(1 for _ in nodes(body))
                    if n_nodes <= max_nodes and not any(True for _ in nodes(body, "Ret")):
                        counter[0] += 1
                        sfx = "~%d" % counter[0]
                        body = rename(body, sfx)
                        ps = rename(ps, sfx)
                        mp, binds = {}, []
                        for q, a in zip(ps, args):
                            a2 = strip_ref(a)
                            simple = a2
                            while isinstance(simple, dict) and simple.get("k") == "Field":
                                simple = strip_ref(simple["base"])
                            if isinstance(simple, dict) and (simple.get("k") in ("Path", "Lit", "Closure")):
                                a2 = dict(a2)
                                a2.pop("adj", None)
                                mp[q["id"]] = a2
                            else:
                                # an argument that computes something is evaluated once: `let <param> = <argument>;`
                                binds.append({"k": "Let", "pat": q, "init": a, "sp": a.get("sp")})
                        new = subst(copy.deepcopy(body), mp)
                        new = go(new, d - 1, stack + (hb["p"],))
                        if binds:
                            inner = strip(new)
                            if inner.get("k") == "BlockExpr":
                                blk_ = dict(inner["b"])
                                blk_["stmts"] = binds + list(blk_["stmts"])
                                new = dict(inner, b=blk_)
                            else:
                                new = {"k": "BlockExpr", "b": {"k": "Block", "stmts": binds, "expr": new, "sp": node.get("sp")},
                                       "t": node.get("t"), "sp": node.get("sp")}
                        if isinstance(new, dict):
                            new = dict(new)
                            new["inlined"] = hb["p"]
                        return new
        return node
    return go(root, depth, tuple(_stack))


_cm_cache = {}


def callers_map(prog, crate=None):
    """callee path -> set of caller body paths (by resolved local callees, incl. function items used as values)."""
    key = (id(prog), crate)
    if key in _cm_cache:
        return _cm_cache[key]
    if len(_cm_cache) > 6:
        _cm_cache.clear()
    res = _cm_cache.setdefault(key, {})
    for b in prog.bodies():
        if crate and b["_crate"].name != crate:
            continue
        for n in nodes(b["body"]):
            p = None
            if n.get("k") in ("Call", "MethodCall"):
                p = callee(n)
            elif n.get("k") == "Path" and n["res"].get("k") == "Def" and n["res"].get("dk") in ("Fn", "AssocFn"):
                p = n["res"].get("rp") or n["res"].get("p")
            if p and (p.startswith("spl_frontend") or p.startswith("lsp4spl")):
                res.setdefault(p, set()).add(b["p"])
    return res


def only_called_from(prog, path, allowed, cmap=None, _depth=0):
    """True if every (transitive) caller chain of `path` ends in a function accepted by `allowed(body)`."""
    if cmap is None:
        cmap = callers_map(prog)
    cs = cmap.get(path, set()) - {path}
    if not cs or _depth > 4:
        return False
    for c in cs:
        cb = prog.body(c)
        if cb is None:
            return False
        if allowed(cb):
            continue
        if not only_called_from(prog, c, allowed, cmap, _depth + 1):
            return False
    return True
