"""Server-side structural rules: WHO-MAY, LIFECYCLE, CODEC, BROKER, DOC-KEY, NO-DROP/BATCH, UTF16."""
from . import hir, flow
from .core import Out
from .rules_tables import last
from .rules_struct import place, calls_in
from . import roles


def method_of(c, e):
    """`X::METHOD` constant -> 'X' (the LSP request/notification type)."""
    e = hir.strip(e)
    if e.get("k") == "Path" and e["res"].get("k") == "Def" and e["res"]["p"].endswith("::METHOD"):
        ta = e["res"].get("targs") or []
        if ta:
            return last(c.tstr(int(ta[0])))
    return None


def is_exit_call(n):
    return n.get("k") == "Call" and (hir.callee(n) or "").endswith("process::exit")


def bodies_in(c, prefix):
    return [b for b in c.bodies if b["p"].startswith(prefix)]


# ------------------------------------------------------------------ WHO-MAY

def rule_who_may(prog):
    out = Out("WHO-MAY")
    c = prog.lsp
    # process::exit: the process is ended from inside only for `exit` without `shutdown` (status 1) - and only where everything
    # that was queued for the client has been written: behind the join of the spawned tasks (responder, broker).  An exit call in
    # the reader loop races the responder task: responses already produced are lost, depending on how the input was chunked.
    n_exit = 0
    for b in c.bodies:
        if "/tests" in c.file_of(b["sp"]):
            continue
        for n, parents in hir.walk(b["body"]):
            if not is_exit_call(n):
                continue
            n_exit += 1
            v = hir.lit_value(n["args"][0])
            out.add(b["d"], "exit status of a process::exit call is 1", v == "1", c.loc(n["sp"]),
                    "status literal %s: the only sanctioned in-process termination is `exit` without `shutdown` (status 1); after "
                    "shutdown the process ends by returning from main (status 0)" % v, ("exit-status",))
            joined = False
            chain = list(parents) + [n]
            for i, p_ in enumerate(chain[:-1]):
                if p_.get("k") != "Block":
                    continue
                for s_ in p_["stmts"]:
                    if s_ is chain[i + 1]:
                        break
                    for fl in hir.nodes(s_, "ForLoop"):
                        if any(aw.get("k") == "Await" and "JoinHandle" in c.tstr(aw["e"]["t"]) for aw in hir.nodes(fl["body"])):
                            joined = True
                    # handles awaited one by one
                    if any(aw.get("k") == "Await" and "JoinHandle" in c.tstr(aw["e"]["t"]) for aw in hir.nodes(s_)):
                        joined = True
                    # ... or by a local helper that loops over them
                    if _joins_tasks(prog, c, s_):
                        joined = True
            out.add(b["d"], "process::exit is called only behind the join of the responder/broker tasks", joined, c.loc(n["sp"]),
                    "process::exit ends the process while the responder task may still hold queued responses: a client that sends "
                    "request(s) and `exit` in one write gets none of the responses", ("exit",))
    if n_exit == 0:
        # a server that never exits with status 1 cannot honour `exit` without `shutdown`
        out.add("server", "an `exit` without `shutdown` ends the process with status 1", False, "",
                "no process::exit call found in the server", ("exit",))
    # tokio::spawn
    sp = {}
    for b in c.bodies:
        for n in hir.nodes(b["body"], "Call"):
            cal = hir.callee(n) or ""
            if cal.endswith("tokio::task::spawn::spawn") or cal.endswith("tokio::spawn") or cal.endswith("task::spawn"):
                sp.setdefault(b["d"], []).append(n)
    # a spawn inside a helper counts for the function(s) that call the helper (`workers.start(..)`: each call site is one spawn)
    RUN = "server::LanguageServer::run"
    spawn_sites = {}     # function display name -> number of tasks it starts
    for fn, calls in sorted(sp.items()):
        fb_ = [b for b in c.bodies if b["d"] == fn]
        if fn != RUN and fb_ and len(calls) == 1 and fb_[0]["k"] in ("fn", "assoc_fn"):
            users = {}
            for y_ in c.bodies:
                for m_ in hir.nodes(y_["body"]):
                    if m_.get("k") in ("Call", "MethodCall") and hir.callee(m_) == fb_[0]["p"]:
                        users[y_["d"]] = users.get(y_["d"], 0) + 1
            if users:
                for u_, k_ in users.items():
                    spawn_sites[u_] = spawn_sites.get(u_, 0) + k_
                sp.setdefault(RUN, [])
                continue
        spawn_sites[fn] = spawn_sites.get(fn, 0) + len(calls)
    for fn in sorted(set(spawn_sites) | {RUN}):
        ok = fn == RUN and spawn_sites.get(fn, 0) == 2
        out.add(fn, "tasks are spawned only by LanguageServer::run (responder, broker)", ok,
                c.loc(sp[fn][0]["sp"]) if sp.get(fn) else "",
                "requests are handled inline by the reader loop; spawning elsewhere breaks response order "
                "(found %d spawn(s))" % spawn_sites.get(fn, 0), ("spawn",))
    # one FramedRead over stdin for all phases (re-creating it drops bytes that were read but not yet decoded)
    fr = []
    for b in c.bodies:
        if "/tests" in c.file_of(b["sp"]) or b["d"].startswith("io::tests"):
            continue
        for n in hir.nodes(b["body"], "Call"):
            d = hir.callee_display(n) or ""
            if "FramedRead" in d and last(d) in ("new", "with_capacity"):
                fr.append((b, n))
        for n in hir.nodes(b["body"], "MethodCall"):
            if n["m"] in ("into_inner", "into_parts") and "FramedRead" in c.tstr(n["recv"]["t"]):
                fr.append((b, n))
    out.add("server::LanguageServer::run", "exactly one FramedRead is created for the session and never taken apart",
            len(fr) == 1 and fr[0][0]["d"] == "server::LanguageServer::run", c.loc(fr[-1][1]["sp"]) if fr else "",
            "found %d construction/decomposition site(s); a second reader loses the bytes buffered by the first" % len(fr), ("framed",))
    # The id of every Response is the id of the Request it answers.  Decided as a value flow, not by function names:
    #   - a Response literal sits in (or is reachable only from) an associated function of PreparedResponse,
    #   - the `id` of every PreparedResponse literal originates in the `id` field of a Request,
    #   - the `id` of every Response literal originates in the `id` field of a PreparedResponse.
    # "originates": read as `<x>.id`, bound by a struct pattern `X { id, .. }`, copied through lets, or received as a parameter
    # from call sites that all pass such a value.
    ADT = {n_: [p_ for p_ in c.adts if p_.startswith("lsp4spl::io") and p_.endswith("::" + n_)] for n_ in ("Request", "PreparedResponse", "Response")}
    for n_, ps_ in ADT.items():
        if len(ps_) != 1:
            out.missing("io::%s (found %s)" % (n_, ps_))
            return out
    REQ, PREP, RESP = ADT["Request"][0], ADT["PreparedResponse"][0], ADT["Response"][0]

    def non_test(b_):
        return "/tests" not in c.file_of(b_["sp"]) and "::tests" not in b_["d"] and "_serde" not in b_["d"]

    def adt_of(e_):
        e_ = hir.strip(e_)
        aps = [hir.adt_path(c, e_["t"])] + [hir.adt_path(c, ad_["to"]) for ad_ in e_.get("adj") or []]
        for ap_ in aps:
            if ap_ in (REQ, PREP, RESP):
                return ap_
        return aps[0]

    def pattern_origin(b_, lid):
        """the struct whose `id` field a pattern binds to local `lid` in body b_"""
        pats = list(b_["params"])
        for n_ in hir.nodes(b_["body"]):
            if n_.get("k") in ("Let", "Arm", "LetExpr") and isinstance(n_.get("pat"), dict):
                pats.append(n_["pat"])
        found = []
        def rec(p_):
            p_ = hir.pat_strip(p_)
            if not isinstance(p_, dict):
                return
            if p_.get("k") == "Struct":
                for f_ in p_["fields"]:
                    q_ = hir.pat_strip(f_["pat"])
                    if f_["name"] == "id" and q_.get("k") == "Binding" and q_["id"] == lid:
                        found.append(hir.adt_path(c, p_["t"]) or hir.pat_variant(p_))
                    rec(f_["pat"])
            for q_ in p_.get("pats") or []:
                rec(q_)
            if p_.get("k") == "Binding" and p_.get("sub"):
                rec(p_["sub"])
        for p_ in pats:
            rec(p_)
        return found

    def id_origin(b_, e_, depth=0):
        """set of origins of the id value e_ in body b_: ADT paths whose `.id` it is, or 'other'"""
        e_ = hir.strip_ref(hir.strip(e_))
        while e_.get("k") == "MethodCall" and e_["m"] in ("clone", "to_owned") and not e_["args"]:
            e_ = hir.strip_ref(hir.strip(e_["recv"]))
        if e_.get("k") == "Field" and e_["name"] == "id":
            return {adt_of(e_["base"]) or "other"}
        pl_ = hir.path_local(e_)
        if not pl_ or depth > 3:
            return {"other"}
        po = pattern_origin(b_, pl_["id"])
        if po:
            return {x_ or "other" for x_ in po}
        for l_ in hir.nodes(b_["body"], "Let"):
            if l_["pat"].get("k") == "Binding" and l_["pat"]["id"] == pl_["id"] and l_.get("init") is not None:
                return id_origin(b_, l_["init"], depth + 1)
        for j_, p_ in enumerate(b_["params"]):
            if p_.get("k") == "Binding" and p_["id"] == pl_["id"]:
                res_ = set()
                n_sites = 0
                for y_ in c.bodies:
                    if not non_test(y_):
                        continue
                    for m_ in hir.nodes(y_["body"]):
                        if m_.get("k") in ("Call", "MethodCall") and hir.callee(m_) == b_["p"]:
                            args_ = ([m_["recv"]] if m_.get("k") == "MethodCall" else []) + list(m_.get("args") or [])
                            if j_ < len(args_):
                                n_sites += 1
                                res_ |= id_origin(y_, args_[j_], depth + 1)
                return res_ if n_sites else {"other"}
        return {"other"}

    n_prep = n_resp = 0
    for b in c.bodies:
        if not non_test(b):
            continue
        for s in hir.nodes(b["body"], "Struct"):
            if s.get("adt") == RESP:
                n_resp += 1
                ok = b["d"].startswith("io::PreparedResponse::") or hir.only_called_from(
                    prog, b["p"], lambda x: x["d"].startswith("io::PreparedResponse::"))
                out.add(b["d"], "Response is built only from a PreparedResponse", ok, c.loc(s["sp"]),
                        "a Response must carry the id of the request it answers", ("resp",))
                f = {x["name"]: x["e"] for x in s["fields"]}
                org = id_origin(b, f["id"]) if "id" in f else {"other"}
                out.add(b["d"], "response id = prepared id", org == {PREP}, c.loc(s["sp"]),
                        "the id of the Response originates in %s, not in the id of the PreparedResponse that was split off the request: "
                        "the client cannot match the answer to its request" % sorted(str(x) for x in org), ("resp",))
            if s.get("adt") == PREP:
                n_prep += 1
                f = {x["name"]: x["e"] for x in s["fields"]}
                org = id_origin(b, f["id"]) if "id" in f else {"other"}
                out.add(b["d"], "PreparedResponse carries the id of the request it was split from", org == {REQ}, c.loc(s["sp"]),
                        "the id of the PreparedResponse originates in %s, not in Request.id" % sorted(str(x) for x in org), ("resp",))
    if not n_prep or not n_resp:
        out.missing("PreparedResponse / Response struct literals (found %d / %d)" % (n_prep, n_resp))
    return out


# ------------------------------------------------------------------ LIFECYCLE

_PROG = {}


def _error_code(call):
    """ErrorCode variant(s) used to build the argument of into_error_response (through local lets and helper fns); a conditional
    argument (`if is_initialize { InvalidRequest } else { ServerNotInitialized }`) yields both, joined by `|`.  When the call sits
    in a helper that is being followed from its call site (flow 'inline'), a parameter of the helper stands for the argument
    passed there."""
    prog, body = _PROG.get("prog"), _PROG.get("body")
    stack = list(_PROG.get("inline") or [])     # [(path, helper body, call node)], innermost last
    # level k: expressions living in stack[k-1]'s helper body; level 0: the phase body
    roots = [(a_, len(stack)) for a_ in (call.get("args") or [])]
    found = set()
    seen_bodies = set()
    rounds = 0

    def lets_of(level):
        if level == 0:
            return body["body"] if body is not None else None
        return stack[level - 1][1]["body"]

    while roots and rounds < 8:
        rounds += 1
        nxt = []
        for r, lvl in roots:
            for p in hir.nodes(r, "Path"):
                co = p["res"].get("ctor_of", "")
                if co.startswith("lsp4spl::error::ErrorCode::"):
                    found.add(last(co))
                if p["res"].get("k") == "Local":
                    lid = p["res"]["id"]
                    if lvl > 0:
                        _, hb_, calln = stack[lvl - 1]
                        args_ = ([calln["recv"]] if calln.get("k") == "MethodCall" else []) + list(calln.get("args") or [])
                        for j_, prm in enumerate(hb_["params"]):
                            if prm.get("k") == "Binding" and prm["id"] == lid and j_ < len(args_) and (id(args_[j_]), lvl) not in seen_bodies:
                                seen_bodies.add((id(args_[j_]), lvl))
                                nxt.append((args_[j_], lvl - 1))
                    lb = lets_of(lvl)
                    if lb is not None:
                        for l in hir.nodes(lb, "Let"):
                            if l.get("init") is not None and any(bd["id"] == lid for bd in hir.pat_bindings(l["pat"])):
                                if id(l) not in seen_bodies:
                                    seen_bodies.add(id(l))
                                    nxt.append((l["init"], lvl))
                        # ... or bound by the pattern of a match arm: what is matched on made the value
                        for m_ in hir.nodes(lb, "Match"):
                            if any(any(bd["id"] == lid for bd in hir.pat_bindings(a_["pat"])) for a_ in m_["arms"]) and id(m_) not in seen_bodies:
                                seen_bodies.add(id(m_))
                                nxt.append((m_["scrut"], lvl))
                if p["res"].get("k") == "Def" and p["res"].get("dk") in ("Fn", "AssocFn") and prog is not None:
                    # a constructor named as a value (`.map_err(invalid_params)`)
                    fp_ = p["res"].get("rp") or p["res"].get("p") or ""
                    fb_ = prog.body(fp_) if fp_.startswith("lsp4spl::server") else None
                    if fb_ is not None and fp_ not in seen_bodies:
                        seen_bodies.add(fp_)
                        for p2 in hir.nodes(fb_["body"], "Path"):
                            co2 = p2["res"].get("ctor_of", "")
                            if co2.startswith("lsp4spl::error::ErrorCode::"):
                                found.add(last(co2))
            if prog is not None:
                for cl in hir.nodes(r):
                    if cl.get("k") in ("Call", "MethodCall"):
                        hb = hir.local_callee_body(prog, cl)
                        if hb is not None and hb["p"] not in seen_bodies and hb["p"].startswith("lsp4spl::server"):
                            seen_bodies.add(hb["p"])
                            # (a helper that builds the error: its body is searched for codes; its locals are not followed further)
                            for p in hir.nodes(hb["body"], "Path"):
                                co = p["res"].get("ctor_of", "")
                                if co.startswith("lsp4spl::error::ErrorCode::"):
                                    found.add(last(co))
                            for cl2 in hir.nodes(hb["body"]):
                                if cl2.get("k") in ("Call", "MethodCall"):
                                    hb2 = hir.local_callee_body(prog, cl2)
                                    if hb2 is not None and hb2["p"] not in seen_bodies and hb2["p"].startswith("lsp4spl::server"):
                                        seen_bodies.add(hb2["p"])
                                        for p in hir.nodes(hb2["body"], "Path"):
                                            co = p["res"].get("ctor_of", "")
                                            if co.startswith("lsp4spl::error::ErrorCode::"):
                                                found.add(last(co))
        roots = nxt
    if not found and prog is not None and not _PROG.get("retry"):
        # the call sits in a helper that is not being followed from a call site right now: resolve inside that helper
        for hb_ in prog.lsp.bodies:
            if hb_["p"].startswith("lsp4spl::server") and hb_ is not body and any(x_ is call for x_ in hir.nodes(hb_["body"])):
                saved = (_PROG.get("body"), _PROG.get("inline"))
                _PROG["body"], _PROG["inline"], _PROG["retry"] = hb_, [], True
                try:
                    return _error_code(call)
                finally:
                    _PROG["body"], _PROG["inline"] = saved
                    _PROG["retry"] = False
    return "|".join(sorted(found)) if found else None


def _classify_factory(c, prog=None):
    inlining = []

    def holds_events(hb):
        # (directly, or in a helper of its own: `answer(request, doctx)` -> `respond(request, features::hover, doctx)`)
        ns_ = hir.nodes_deep(prog, hb["body"], 2, crate=c) if prog is not None else hir.nodes(hb["body"])
        for m_ in ns_:
            if m_.get("k") != "MethodCall":
                continue
            d_ = m_.get("d") or ""
            if d_ == "io::Request::split" or d_.startswith("io::PreparedResponse::into_"):
                return True
        return False

    def classify(n):
        k = n.get("k")
        if prog is not None and k in ("Call", "MethodCall") and len(inlining) < 3:
            hb = hir.local_callee_body(prog, n)
            if hb is not None and hb["_crate"] is c and hb["p"].startswith("lsp4spl::server::") and \
                    hb["p"] not in [x_[0] for x_ in inlining] \
                    and not (n.get("d") or "").startswith("io::") and holds_events(hb):
                blk = _async_block(hb)
                if blk is not None:
                    return ("inline", blk, (hb["p"], hb, n))
        if k == "MethodCall":
            d = n.get("d") or ""
            if d == "io::Request::split":
                return ("split", n)
            if d.startswith("io::PreparedResponse::into_result_response"):
                return ("into", n, "result")
            if d.startswith("io::PreparedResponse::into_error_response"):
                return ("into", n, _error_code(n))
            if n["m"] == "send":
                for p in hir.nodes(n, "Path"):
                    co = p["res"].get("ctor_of", "")
                    if co == "lsp4spl::io::Message::Response":
                        return ("send", n)
                # the message was wrapped by a helper of the server module (`let refusal = refuse(request, ..); tx.send(refusal)`)
                if prog is not None and n.get("args") and "io::Message" in c.tstr(hir.strip(n["args"][0])["t"]):
                    pl_ = hir.path_local(hir.strip(n["args"][0]))
                    scope = (inlining[-1][1]["body"] if inlining else (_PROG.get("body") or {}).get("body"))
                    if pl_ and scope is not None:
                        for l_ in hir.nodes(scope, "Let"):
                            if l_["pat"].get("k") == "Binding" and l_["pat"]["id"] == pl_["id"] and l_.get("init") is not None:
                                if any(p_.get("k") == "Path" and p_["res"].get("ctor_of", "") == "lsp4spl::io::Message::Response"
                                       for p_ in _server_deep(prog, c, l_["init"], 1)):
                                    return ("send", n)
        if k == "Call" and is_exit_call(n):
            return ("exit", n, hir.lit_value(n["args"][0]))
        if k == "Call":
            d = hir.path_def(n["f"])
            if d and d["p"].endswith("core::panicking::panic_fmt"):
                return ("panic", n)
        return None
    classify.inline_stack = inlining
    classify.follow_closures = True
    _PROG["inline"] = inlining
    return classify


def _server_deep(prog, c, root, depth=2, _seen=None):
    """nodes below root, and those of the helper functions of the server module that are called there"""
    if _seen is None:
        _seen = set()
    for n in hir.nodes(root):
        yield n
        if depth > 0 and n.get("k") in ("Call", "MethodCall"):
            hb = hir.local_callee_body(prog, n)
            if hb is not None and hb["_crate"] is c and hb["p"].startswith("lsp4spl::server::") and hb["p"] not in _seen:
                _seen.add(hb["p"])
                for x in _server_deep(prog, c, hb["body"], depth - 1, _seen):
                    yield x


def _phase_bodies(prog, body, depth=2, seen=None):
    """the phase function plus the local helper functions (same module) it calls"""
    if seen is None:
        seen = []
    if body in seen:
        return seen
    seen.append(body)
    if depth > 0:
        for n in hir.nodes(body["body"]):
            if n.get("k") in ("Call", "MethodCall"):
                hb = hir.local_callee_body(prog, n)
                if hb is not None and hb["p"].startswith("lsp4spl::server::") and hb not in seen:
                    _phase_bodies(prog, hb, depth - 1, seen)
    return seen


def c_tstr_recv(fb, m):
    c = fb["_crate"]
    r = hir.strip(m["recv"])
    return c.tstr(r["t"]) + "".join(c.tstr(a_["to"]) for a_ in r.get("adj") or [])


def _phase_loops(prog, body):
    res = []
    for fb in _phase_bodies(prog, body):
        for n in hir.nodes(fb["body"]):
            if n.get("k") == "While":
                cond = hir.strip(n["cond"])
                if cond.get("k") == "LetExpr" and any(m["m"] == "next" for m in hir.nodes(cond["init"], "MethodCall")):
                    res.append((n, fb))
                elif cond.get("k") == "LetExpr" and any(
                        m.get("k") == "MethodCall" and m["m"] == "next" and "FramedRead" in c_tstr_recv(fb, m)
                        for m in _server_deep(prog, fb["_crate"], cond["init"], 1)):
                    # the read sits in a small helper (`next_message(reader).await?`)
                    res.append((n, fb))
            elif n.get("k") == "Loop":
                # `loop { let Some(frame) = reader.next().await else { .. }; .. }`
                blk = hir.strip(n["body"]).get("b") if hir.strip(n["body"]).get("k") == "BlockExpr" else n["body"]
                for st_ in (blk or {}).get("stmts") or []:
                    if st_.get("k") == "Let" and st_.get("els") is not None and st_.get("init") is not None and any(
                            m["m"] == "next" and "FramedRead" in c_tstr_recv(fb, m) for m in hir.nodes(st_["init"], "MethodCall")):
                        res.append((n, fb))
                        break
    return res


def _message_arms(c, loop):
    """variant -> list of arms (a variant may have a guarded and an unguarded arm)"""
    best, best_m, best_parents = {}, None, None
    for m, parents in hir.walk(loop["body"]):
        if m.get("k") != "Match":
            continue
        arms = {}
        for arm in m["arms"]:
            pv = hir.pat_variant(arm["pat"])
            if pv and pv.startswith("lsp4spl::io::Message::"):
                arms.setdefault(last(pv), []).append(arm)
        if len(arms) > len(best):
            best, best_m, best_parents = arms, m, list(parents)
    # `let request = match message { Request(r) => r, <other arms leave the iteration> }; <rest>`: the rest of the block is the
    # continuation of the Request arm - seen as that arm's body
    if best_m is not None and "Request" in best and len(best["Request"]) == 1 and len(best_parents) >= 2:
        arm = best["Request"][0]
        let_, blk = None, None
        for i_ in range(len(best_parents) - 1, -1, -1):
            if best_parents[i_].get("k") == "Let":
                let_ = best_parents[i_]
                blk = next((b_ for b_ in reversed(best_parents[:i_]) if b_.get("k") == "Block"), None)
                break
            if best_parents[i_].get("k") in ("Block", "If", "Match", "Arm", "Closure"):
                break
        simple = hir.path_local(hir.strip(arm["body"])) is not None
        if let_ is not None and blk is not None and simple and let_ in blk["stmts"]:
            others_leave = all(
                any(x_.get("k") in ("Ret", "Continue", "Break") for x_ in hir.nodes(a_["body"]))
                for v_, as_ in best.items() if v_ != "Request" for a_ in as_)
            if others_leave:
                rest = blk["stmts"][blk["stmts"].index(let_) + 1:]
                cont = {"k": "Block", "sp": arm["sp"], "stmts": rest, "expr": blk.get("expr")}
                best = dict(best)
                best["Request"] = [dict(arm, body={"k": "BlockExpr", "b": cont, "t": arm["body"].get("t"), "sp": arm["sp"]})]
    return best


def _tail_value_ok(prog, t, depth=0):
    t = hir.strip(t) if isinstance(t, dict) else None
    if t is None or depth > 6:
        return False
    while t.get("k") in ("Await", "Try"):
        t = hir.strip(t["e"])
    k = t.get("k")
    if k == "BlockExpr":
        return t["b"].get("expr") is not None and _tail_value_ok(prog, t["b"]["expr"], depth + 1)
    if k == "Ret":
        return t.get("e") is not None and _tail_value_ok(prog, t["e"], depth + 1)
    if k == "If":
        return t.get("else") is not None and _tail_value_ok(prog, t["then"], depth + 1) and _tail_value_ok(prog, t["else"], depth + 1)
    if k == "Match" and "matches!" not in (t.get("mx") or []):
        return bool(t["arms"]) and all(_tail_value_ok(prog, a_["body"], depth + 1) for a_ in t["arms"])
    if k == "Call":
        d = hir.path_def(t["f"])
        if d and last(d.get("ctor_of", "")) == "Ok":
            return True
        hb = hir.local_callee_body(prog, t)
        if hb is not None:
            return _tail_ok(prog, hb, depth + 1)
    return False


def _tail_ok(prog, body, depth=0):
    """does the function end in Ok(..) (possibly through a local helper it returns the result of, on every branch of a final
    if/match)?"""
    tail = _async_tail(body)
    if tail is None or depth > 3:
        return False
    return _tail_value_ok(prog, tail, depth)


def rule_lifecycle(prog):
    out = Out("LIFECYCLE")
    c = prog.lsp
    phases = {}
    for name in ("initialization", "main", "shutdown"):
        b = prog.body("lsp4spl::server::phases::" + name)
        if b is None:
            out.missing("server::phases::" + name)
            return out
        phases[name] = b
    classify = _classify_factory(c, prog)
    _PROG["prog"] = prog
    phase_exit_values = []
    want_loops = {"initialization": 2, "main": 1, "shutdown": 1}
    for name, b in phases.items():
        loops = _phase_loops(prog, b)
        # (a different number of reader loops is a different construction, not a fault: the clauses below speak about each loop found)
        out.add("server::phases::" + name, "has %d frame loop(s)" % want_loops[name],
                True if len(loops) == want_loops[name] else (None if loops else False),
                c.loc(b["sp"]), "found %d" % len(loops), ("shape",))
        for li, (loop, lbody) in enumerate(loops):
            _PROG["body"] = lbody
            arms = _message_arms(c, loop)
            item = "server::phases::%s[loop %d]" % (name, li + 1)
            if set(arms) != {"Request", "Notification", "Response"}:
                out.add(item, "dispatches on Request/Notification/Response", False, c.loc(loop["sp"]), "found %s" % sorted(arms), ("shape",))
                continue
            # (0) every decoded message reaches the dispatch: nothing between the head of the loop and the `match` on the message
            #     kind leaves the iteration (continue / break / return) - such an exit drops requests without a response
            disp = None
            for m_, parents in hir.walk(loop["body"]):
                if m_.get("k") == "Match" and any((hir.pat_variant(a_["pat"]) or "").startswith("lsp4spl::io::Message::") for a_ in m_["arms"]):
                    disp = (m_, parents)
                    break
            if disp is not None:
                early = None
                chain = list(disp[1]) + [disp[0]]
                for i_, pr in enumerate(chain[:-1]):
                    if pr.get("k") != "Block":
                        continue
                    kids = list(pr["stmts"]) + ([pr["expr"]] if pr.get("expr") else [])
                    idx = [j for j, k_ in enumerate(kids) if k_ is chain[i_ + 1]]
                    for k_ in kids[:idx[0]] if idx else []:
                        # (the `else` of `let Some(frame) = reader.next().await else { .. }` is the end of input, not a message)
                        head_else = k_.get("els") if k_.get("k") == "Let" and k_.get("init") is not None and any(
                            m_["m"] == "next" for m_ in hir.nodes(k_["init"], "MethodCall")) else None
                        for x in hir.nodes(k_):
                            if head_else is not None and _contains(head_else, x):
                                continue
                            if x.get("k") in ("Continue", "Break") or (x.get("k") == "Ret"):
                                early = x
                out.add(item, "every decoded message reaches the dispatch on its kind", early is None, c.loc((early or loop)["sp"]),
                        "the iteration is left (`continue`/`break`/`return`) before the message is dispatched: a *request* that takes this "
                        "exit never gets a response", ("one-response",))
            # (a) every path through the Request arm(s): one split, one into_*, one send, in this order
            ps = []
            for rarm in arms["Request"]:
                try:
                    ps += flow.paths(rarm["body"], classify)
                except OverflowError:
                    out.add(item, "request paths enumerable", None, c.loc(rarm["sp"]))
            seen = set()
            for p in ps:
                evs = [e[0] for e in p]
                sig = _path_sig(c, p)
                if sig in seen:
                    continue
                seen.add(sig)
                n_split, n_into, n_send = evs.count("split"), evs.count("into"), evs.count("send")
                ok = n_split == 1 and n_into == 1 and n_send == 1 and \
                    evs.index("split") < evs.index("into") < evs.index("send")
                if not ok and n_split == 0 and n_into == 0 and any(_handed_on(prog, rarm_) for rarm_ in arms["Request"]):
                    # the request is handed to a handler that is chosen at run time (a table of function pointers, a trait object):
                    # what that handler does with it is not followed from here
                    ok = None
                if not ok and "closure-skipped" in evs and n_into == 0:
                    # the response is built inside a closure of a Result/Option combinator and this is the way on which the closure
                    # does not run (the value is an Err that `?` propagates further on): not followed
                    ok = None
                locn = c.loc(p[-1][1]["sp"]) if p and isinstance(p[-1][1], dict) else c.loc(arms["Request"][0]["sp"])
                out.add(item, "request path %s: exactly one response" % sig, ok, locn,
                        "events on this path: %s" % evs, ("one-response",))
            # (b) error codes
            codes = set()
            for p in ps:
                for e in p:
                    if e[0] == "into" and e[2] != "result":
                        codes.add(e[2])
            rloc = c.loc(arms["Request"][0]["sp"])
            if name == "initialization" and li == 0:
                handed_ = not codes and any(_handed_on(prog, rarm_) for rarm_ in arms["Request"])
                out.add(item, "requests before initialize are rejected with ServerNotInitialized",
                        None if handed_ else codes - {"InvalidParams"} == {"ServerNotInitialized"}, rloc, "codes used: %s" % sorted(map(str, codes)), ("codes",))
            elif name == "initialization":
                # between the initialize request and the initialized notification: a second initialize is an InvalidRequest, every
                # other request still finds the server not initialized
                flat = set(x for cd in codes for x in str(cd).split("|"))
                cond_ok = False
                for rarm in arms["Request"]:
                    defs_ = {}
                    for l in hir.nodes(rarm["body"], "Let"):
                        if l["pat"].get("k") == "Binding" and l.get("init") is not None:
                            defs_[l["pat"]["id"]] = l["init"]

                    def names_initialize(e, depth=0):
                        for x in hir.nodes(e, "Path"):
                            d_ = x["res"]
                            if d_.get("k") == "Def" and method_of(c, x) == "Initialize":
                                return True
                            pl_ = hir.path_local(x)
                            if pl_ and pl_["id"] in defs_ and depth < 3 and names_initialize(defs_[pl_["id"]], depth + 1):
                                return True
                        return False

                    for iff in hir.nodes(rarm["body"], "If"):
                        if names_initialize(iff["cond"]):
                            # (a branch may build its error through a local helper)
                            th = set(last(p_["res"].get("ctor_of", "")) for p_ in hir.nodes_deep(prog, iff["then"], 2, crate=c)
                                     if p_.get("k") == "Path" and "ErrorCode::" in p_["res"].get("ctor_of", ""))
                            el = set(last(p_["res"].get("ctor_of", "")) for p_ in hir.nodes_deep(prog, iff.get("else") or {}, 2, crate=c)
                                     if p_.get("k") == "Path" and "ErrorCode::" in p_["res"].get("ctor_of", ""))
                            cond_ok = th == {"InvalidRequest"} and el == {"ServerNotInitialized"}
                    for m_ in hir.nodes(rarm["body"], "Match"):
                        for a_ in m_["arms"]:
                            pc_ = _pat_const(a_["pat"])
                            if pc_ and method_of(c, pc_) == "Initialize":
                                th = set(last(p_["res"].get("ctor_of", "")) for p_ in hir.nodes_deep(prog, a_["body"], 2, crate=c)
                                         if p_.get("k") == "Path" and "ErrorCode::" in p_["res"].get("ctor_of", ""))
                                if th == {"InvalidRequest"}:
                                    cond_ok = True
                out.add(item, "before `initialized`: a second initialize is rejected with InvalidRequest, other requests with ServerNotInitialized",
                        flat == {"InvalidRequest", "ServerNotInitialized"} and cond_ok, rloc,
                        "codes used: %s; InvalidRequest tied to method == initialize: %s" % (sorted(flat), cond_ok), ("codes",))
            elif name == "shutdown":
                handed_ = not codes and any(_handed_on(prog, rarm_) for rarm_ in arms["Request"])
                out.add(item, "requests after shutdown are rejected with InvalidRequest", None if handed_ else codes == {"InvalidRequest"},
                        rloc, "codes used: %s" % sorted(map(str, codes)), ("codes",))
                results = [e for p in ps for e in p if e[0] == "into" and e[2] == "result"]
                out.add(item, "no request is served after shutdown", not results, rloc, "", ("codes",))
            else:
                inner = None
                for rarm in arms["Request"]:
                    for m in _server_deep(prog, c, rarm["body"]):
                        if m.get("k") == "Match" and m["src"] == "match" and any(
                                method_of(c, _pat_const(a["pat"])) for a in m["arms"] if _pat_const(a["pat"])):
                            inner = m
                            break
                if inner is None:
                    out.add(item, "dispatches on request.method", None if any(_handed_on(prog, rarm_) for rarm_ in arms["Request"]) else False,
                            rloc, "", ("codes",))
                else:
                    for a in inner["arms"]:
                        pc = _pat_const(a["pat"])
                        meth = method_of(c, pc) if pc else None
                        acodes = set()
                        results = 0
                        try:
                            # over the paths through the arm (helpers followed from their call sites, so that an error handed to a
                            # helper as an argument is seen)
                            for p_ in flow.paths(a["body"], classify):
                                results = max(results, len([e_ for e_ in p_ if e_[0] == "into" and e_[2] == "result"]))
                                acodes |= {e_[2] for e_ in p_ if e_[0] == "into" and e_[2] != "result"}
                        except OverflowError:
                            for n in _server_deep(prog, c, a["body"]):
                                if n.get("k") != "MethodCall":
                                    continue
                                ev = classify(n)
                                if ev and ev[0] == "into":
                                    if ev[2] == "result":
                                        results += 1
                                    else:
                                        acodes.add(ev[2])
                        if meth == "Initialize":
                            out.add(item, "second initialize is rejected with InvalidRequest",
                                    acodes == {"InvalidRequest"} and results == 0, c.loc(a["sp"]), "codes %s" % sorted(map(str, acodes)), ("codes",))
                        elif meth is None:
                            out.add(item, "unknown methods are rejected with MethodNotFound",
                                    acodes == {"MethodNotFound"} and results == 0 and hir.is_wild(a["pat"]), c.loc(a["sp"]),
                                    "codes %s" % sorted(map(str, acodes)), ("codes",))
                        else:
                            out.add(item, "%s is answered with a result" % meth, results == 1 and acodes <= {"InvalidParams"}, c.loc(a["sp"]),
                                    "results %d, error codes %s" % (results, sorted(map(str, acodes))), ("codes",))
            # (c) exit handling
            exits = []
            exit_guarded = []
            for narm in arms["Notification"]:
                exits += [n for n in hir.nodes(narm["body"], "Call") if is_exit_call(n)]
                exit_guarded += _exit_branches(c, narm)
            nloc = c.loc(arms["Notification"][0]["sp"])
            if name == "shutdown":
                ok = not exits and exit_guarded and all(kind in ("break", "return-ok") for kind in exit_guarded)
                if not ok and not exits and not exit_guarded and any(_handed_on(prog, narm_) for narm_ in arms["Notification"]):
                    ok = None      # the notification is handed to a handler chosen at run time
                out.add(item, "`exit` after shutdown leaves the loop (process ends with status 0 after flushing)", None if ok is None else bool(ok),
                        nloc, "exit branches: %s, process::exit calls: %d" % (exit_guarded, len(exits)), ("exit",))
            else:
                # `exit` without shutdown: the phase is left at once and tells its caller so (a value that no other way out of the
                # phase returns); run() turns that into status 1 behind the join (clause `flag` below, WHO-MAY exit)
                vals = _ok_values(lbody)
                exit_vals = _exit_values(c, arms["Notification"])
                phase_exit_values.extend(exit_vals)
                ok = None
                if exits:
                    ok = False   # reported by WHO-MAY (exit in the reader loop); here: not the sanctioned form
                elif exit_guarded and all(k_ == "return-ok" for k_ in exit_guarded) and exit_vals and None not in exit_vals:
                    all_exit = [x for lp_, _ in loops for x in _exit_nodes(c, _message_arms(c, lp_).get("Notification", []))]
                    others = [v for v, n_ in vals if not any(n_ is x for x in all_exit)]
                    ok = len(set(exit_vals)) == 1 and exit_vals[0] not in others and None not in others
                elif exit_guarded and any(k_ in ("break", "other") for k_ in exit_guarded):
                    ok = False
                out.add(item, "`exit` without shutdown leaves the phase with a value no other way out returns", ok, nloc,
                        "exit branches: %s, value(s) returned there: %s, values of the other Ok exits: %s" % (
                            exit_guarded, exit_vals, sorted(set(str(v) for v, _ in vals))), ("exit",))
            # (c2) params are client input: a value that does not deserialize is answered (request: InvalidParams) or dropped
            #      (notification), never propagated with `?` - that ends the reader loop, the process terminates and neither this
            #      request nor any later one is answered
            for kind_ in ("Request", "Notification"):
                for arm_ in arms[kind_]:
                    # (the arm, and the helper functions of the server module it hands the message to)
                    seen_h = set()
                    arm_nodes = list(_server_deep(prog, c, arm_["body"], 2, seen_h))
                    for t_ in [x_ for x_ in arm_nodes if x_.get("k") == "Try"]:
                        inner = hir.strip(t_["e"])
                        if inner.get("k") in ("Call", "MethodCall") and (hir.callee(inner) or "").endswith("serde_json::value::from_value"):
                            out.add(item, "params of a %s that do not deserialize do not end the reader loop" % kind_.lower(), False,
                                    c.loc(t_["sp"]), "`serde_json::from_value(params)?`: a %s with missing or malformed params makes the phase "
                                    "return Err, the process exits with status 1 and %s" % (
                                        kind_.lower(), "this request and all later ones stay unanswered" if kind_ == "Request"
                                        else "all later requests stay unanswered"), ("one-response", "params"))
                    for m_ in [x_ for x_ in arm_nodes if x_.get("k") == "Match"]:
                        sc_ = hir.strip(m_["scrut"])
                        if sc_.get("k") in ("Call", "MethodCall") and (hir.callee(sc_) or "").endswith("serde_json::value::from_value"):
                            err_arms = [a_ for a_ in m_["arms"] if any(v.endswith("Result::Err") for v in hir.pat_variants_all(a_["pat"])) or hir.is_wild(a_["pat"])]
                            ok_ = bool(err_arms)
                            why_ = ""
                            if kind_ == "Request":
                                cs_ = set()
                                for a_ in err_arms:
                                    for mc_ in hir.nodes(a_["body"], "MethodCall"):
                                        ev_ = classify(mc_)
                                        if ev_ and ev_[0] == "into":
                                            cs_.add(ev_[2])
                                ok_ = cs_ == {"InvalidParams"}
                                why_ = "answer in the Err arm: %s" % sorted(map(str, cs_))
                            out.add(item, "params of a %s that do not deserialize do not end the reader loop" % kind_.lower(), ok_,
                                    c.loc(m_["sp"]), why_, ("one-response", "params"))
            # InvalidParams is the answer to undeserializable params only
            for rarm in arms["Request"]:
                for mc_, parents_ in hir.walk(rarm["body"]):
                    if mc_.get("k") != "MethodCall":
                        continue
                    ev_ = classify(mc_)
                    if not (ev_ and ev_[0] == "into" and "InvalidParams" in str(ev_[2]).split("|")):
                        continue
                    in_err = False
                    for i_, pr_ in enumerate(parents_):
                        if pr_.get("k") == "Arm" and any(v.endswith("Result::Err") for v in hir.pat_variants_all(pr_["pat"])):
                            mm_ = parents_[i_ - 1] if i_ > 0 else None
                            sc_ = hir.strip(mm_["scrut"]) if mm_ and mm_.get("k") == "Match" else {}
                            if sc_.get("k") in ("Call", "MethodCall") and (hir.callee(sc_) or "").endswith("serde_json::value::from_value"):
                                in_err = True
                            elif sc_.get("k") == "MethodCall" and sc_["m"] in ("map", "map_err", "and_then") and any(
                                    x_.get("k") in ("Call", "MethodCall") and (hir.callee(x_) or "").endswith("serde_json::value::from_value")
                                    for x_ in hir.nodes(sc_["recv"])):
                                # `match from_value(params).map(|p| ..) { .., Err(err) => .. }`: still the deserialisation's error
                                in_err = True
                    out.add(item, "InvalidParams answers params that do not deserialize, nothing else", in_err, c.loc(mc_["sp"]),
                            "an InvalidParams error is produced outside the Err arm of the params' deserialization", ("codes", "params"))
            # Response arm: error
            rets = [n for rarm in arms["Response"] for n in hir.nodes(rarm["body"], "Ret")]
            out.add(item, "a Response from the client is an error", bool(rets), c.loc(arms["Response"][0]["sp"]), "", ("shape",))
        # (e) falls through to Ok(())
        out.add("server::phases::" + name, "end of input falls through to Ok(())", _tail_ok(prog, b), c.loc(b["sp"]),
                "when the client's stream ends the phase must return normally", ("eof",))
    # (h) handshake order: the `initialized` notification leads out of the initialization phase only where an `initialize` request
    #     has been answered with a result.  Decided over the paths through the phase function: reader loops are left by `break` /
    #     `return` or by the end of the input; the end of the input is final (no later loop reads another message), so a path on
    #     which an earlier reader loop was not left by `break` is not a path on which a message arrives later.  On every remaining
    #     path that reaches the exit under the `Initialized::METHOD` test, an into_result_response lies in front of it.
    ib = phases["initialization"]
    iloops = [lp for lp, fb_ in _phase_loops(prog, ib) if fb_ is ib]
    all_iloops = _phase_loops(prog, ib)

    def tests_initialized(cond):
        for bn in hir.nodes(hir.strip(cond), "Binary"):
            if bn["op"] == "==" and "Initialized" in (method_of(c, bn["l"]), method_of(c, bn["r"])):
                return True
        return False

    init_exits = []      # (exit node, parents)
    for n_, parents_ in hir.walk(ib["body"]):
        if n_.get("k") not in ("Break", "Ret"):
            continue
        under = False
        for i_, pr_ in enumerate(parents_):
            nxt_ = parents_[i_ + 1] if i_ + 1 < len(parents_) else n_
            if pr_.get("k") == "If" and tests_initialized(pr_["cond"]) and (nxt_ is pr_.get("then") or _contains(pr_.get("then") or {}, n_)):
                under = True
            if pr_.get("k") == "Arm":
                pc_ = _pat_const(pr_["pat"])
                if (pc_ and method_of(c, pc_) == "Initialized") or (pr_.get("guard") is not None and tests_initialized(pr_["guard"])):
                    under = True
        if under:
            init_exits.append((n_, list(parents_)))
    if len(all_iloops) != len(iloops) or not iloops:
        if all_iloops:
            out.add("server::phases::initialization", "`initialized` is honoured only after `initialize` was answered", None, c.loc(ib["sp"]),
                    "the reader loops of the phase sit in helper functions: the handshake order is not followed across them", ("shape", "order"))
    elif not init_exits:
        out.add("server::phases::initialization", "`initialized` is honoured only after `initialize` was answered", None, c.loc(ib["sp"]),
                "no exit under a test of Initialized::METHOD found", ("shape", "order"))
    else:
        loop_of = {}
        eof_breaks = set()
        for lp in iloops:
            # (`let Some(frame) = reader.next().await else { break }`: leaving there is the end of the input, not a message)
            for st_ in hir.nodes(lp["body"], "Let"):
                if st_.get("els") is not None and st_.get("init") is not None and any(
                        m_.get("k") == "MethodCall" and m_["m"] == "next" for m_ in _server_deep(prog, c, st_["init"], 1)):
                    for x_ in hir.nodes(st_["els"], "Break"):
                        eof_breaks.add(id(x_))
            for x_ in hir.nodes(lp["body"]):
                if x_.get("k") == "Break" and id(x_) not in eof_breaks:
                    loop_of.setdefault(id(x_), lp)      # (innermost wins below: nested loops overwrite)
        for lp in iloops:
            for inner_lp in hir.nodes(lp["body"]):
                if inner_lp.get("k") in ("While", "Loop", "ForLoop") and inner_lp is not lp:
                    for x_ in hir.nodes(inner_lp["body"], "Break"):
                        loop_of[id(x_)] = inner_lp
        exit_ids = {id(n_) for n_, _ in init_exits}

        def ev_h(n_):
            if n_.get("k") == "MethodCall" and (n_.get("d") or "").startswith("io::PreparedResponse::into_result_response"):
                return ("result", n_)
            return None
        verdict_h, why_h, loc_h = True, "", c.loc(ib["sp"])
        try:
            ps_h = flow.paths(_async_block(ib) or ib["body"], ev_h)
        except OverflowError:
            ps_h, verdict_h = [], None
        for n_, parents_ in init_exits:
            # a flag that remembers the answered `initialize` and guards this exit: a value this rule does not follow
            flagged = any(pr_.get("k") == "If" and any(
                (hir.path_local(x_) or {}).get("id") is not None and c.tstr(x_["t"]) == "bool" and any(
                    a_.get("k") == "Assign" and (hir.path_local(hir.strip(a_["l"])) or {}).get("id") == hir.path_local(x_)["id"]
                    for a_ in hir.nodes(ib["body"], "Assign"))
                for x_ in hir.nodes(pr_["cond"], "Path")) for pr_ in parents_)
            before_loops = [lp for lp in iloops if not _contains(lp, n_) and lp["sp"][1] < n_["sp"][1]]
            for p_ in ps_h:
                idx = [j_ for j_, e_ in enumerate(p_) if e_[0] in ("break", "loop-break", "return") and len(e_) > 1 and e_[1] is n_]
                if not idx:
                    continue
                pre = p_[:idx[0]]
                live = all(any(e_[0] == "loop-break" and loop_of.get(id(e_[1])) is lp for e_ in pre) for lp in before_loops)
                if not live:
                    continue
                if not any(e_[0] == "result" for e_ in pre):
                    if flagged:
                        verdict_h = None if verdict_h is True else verdict_h
                    else:
                        verdict_h, loc_h = False, c.loc(n_["sp"])
                        why_h = "a path reaches this exit without an `initialize` request having been answered with a result"
        out.add("server::phases::initialization", "`initialized` is honoured only after `initialize` was answered", verdict_h, loc_h,
                "%s: a client that sends `initialized` first moves the server into the main phase without capabilities having been "
                "exchanged; its later `initialize` is then answered as a second one" % (why_h or "-"), ("shape", "order"))
    # (i) ids: JSON-RPC / LSP request ids are integers *or strings*.  Message is an untagged enum: a request whose id does not fit
    #     the type of Request.id does not match the Request variant, falls through to Notification (unknown fields are ignored) and is
    #     dropped as an unknown notification - it never gets a response.
    ra = prog.adts.get("lsp4spl::io::Request")
    if ra is None:
        out.missing("io::Request")
    else:
        idf = [f for v in ra["variants"] for f in v["fields"] if f["name"] == "id"]
        if not idf:
            out.missing("io::Request.id")
        else:
            ts = c.tstr(idf[0]["t"])
            tt = c.ty(idf[0]["t"])
            holds_str = any(w in ts for w in ("String", "str", "serde_json::Value", "Cow<"))
            if not holds_str and tt["k"] == "adt" and tt["p"] in prog.adts:
                holds_str = any(any(w in c.tstr(f["t"]) for w in ("String", "str", "serde_json::Value", "Cow<"))
                                for v in prog.adts[tt["p"]]["variants"] for f in v["fields"])
            out.add("io::Request.id", "a request id of either JSON-RPC kind (integer, string) is representable", holds_str,
                    c.loc(ra["sp"]), "Request.id is `%s`: a request with a string id (legal in JSON-RPC 2.0 and LSP) does not deserialize as "
                    "Request, is taken for a notification and never answered" % ts, ("ids",))
    # (d) run(): senders are dropped/moved before awaiting the tasks
    run = [b for b in c.bodies if b["d"] == "server::LanguageServer::run"]
    if not run:
        out.missing("server::LanguageServer::run")
        return out
    run = run[0]
    blk = _async_block(run)
    if blk is None:
        out.missing("body of LanguageServer::run")
        return out
    seq = blk["stmts"] + ([blk["expr"]] if blk.get("expr") else [])
    join_i = None
    for i, s in enumerate(seq):
        if any(n.get("k") == "ForLoop" and any(x.get("k") == "Await" for x in hir.nodes(n["body"])) for n in hir.nodes(s)):
            join_i = i
        elif _joins_tasks(prog, c, s):
            join_i = i
        elif any(aw.get("k") == "Await" and "JoinHandle" in c.tstr(hir.strip(aw["e"])["t"]) for aw in hir.nodes(s)):
            # the handles are awaited one by one (`responder.await..; if let Some(broker) = broker { broker.await.. }`): the last one counts
            join_i = i
    out.add("server::LanguageServer::run", "awaits the spawned tasks before returning", join_i is not None, c.loc(run["sp"]),
            "responder and broker must be joined so that queued responses are written", ("join",))
    # (d2) flag: what initialization / main report about an `exit` without shutdown decides (i) whether the following phases
    #      run at all and (ii) the exit status behind the join
    flags = set()
    phase_calls = []
    for s_ in seq:
        for n_, parents_ in hir.walk(s_):
            if n_.get("k") == "Call" and (hir.callee(n_) or "") in ("lsp4spl::server::phases::initialization", "lsp4spl::server::phases::main",
                                                                   "lsp4spl::server::phases::shutdown"):
                phase_calls.append((last(hir.callee(n_)), n_, parents_, s_))
    for nm_, n_, parents_, s_ in phase_calls:
        if nm_ == "shutdown":
            continue
        tgt = None
        if s_.get("k") == "Let" and s_["pat"].get("k") == "Binding":
            tgt = "%s#%s" % (s_["pat"]["name"], s_["pat"]["id"])
        for pr_ in parents_:
            if pr_.get("k") == "Assign":
                tgt = place(pr_["l"])
        if tgt:
            flags.add(tgt)

    # a value computed from what a phase returned is that report too (`let flag = match result { Ok(flag) => flag, Err(e) => return Err(e) }`)
    for _ in range(3):
        for s_ in seq:
            for n_ in hir.nodes(s_):
                tgt_, src_ = None, None
                if n_.get("k") == "Let" and n_["pat"].get("k") == "Binding" and n_.get("init") is not None:
                    tgt_, src_ = "%s#%s" % (n_["pat"]["name"], n_["pat"]["id"]), n_["init"]
                elif n_.get("k") == "Assign":
                    tgt_, src_ = place(n_["l"]), n_["r"]
                if tgt_ and tgt_ not in flags and src_ is not None and any(place(x) in flags for x in hir.nodes(src_, "Path")) and not any(
                        x.get("k") in ("Call", "MethodCall") and hir.local_callee_body(prog, x) is not None for x in hir.nodes(src_)):
                    flags.add(tgt_)

    def mentions_flag(e):
        return any(place(x) in flags for x in hir.nodes(e, "Path"))

    # the value by which a phase reports the `exit` (collected from the phases above: `true`, or a variant of a phase-result enum)
    EXITV = set(v_ for v_ in phase_exit_values if v_ is not None)

    def two_valued(e):
        t_ = c.tstr(hir.strip(e)["t"])
        if t_ == "bool":
            return True
        ap_ = hir.adt_path(c, hir.strip(e)["t"])
        return ap_ in c.adts and len(c.adts[ap_].get("variants") or []) == 2

    def says(cond):
        """True: `cond` holding implies that an exit was reported; False: implies that none was; None: says nothing"""
        e = hir.strip(cond)
        if e.get("k") == "Unary" and e.get("op") in ("!", "Not"):
            inner = hir.strip(e["e"])
            v_ = says(inner)
            # the negation of a test is only a test of the opposite when the flag has two values
            if v_ is None:
                return None
            fl_ = [x for x in hir.nodes(inner, "Path") if place(x) in flags]
            return (not v_) if fl_ and all(two_valued(x) for x in fl_) else None
        if place(e) in flags and c.tstr(e["t"]) == "bool":
            return ("True" in EXITV or "true" in EXITV) if EXITV else True
        if e.get("k") == "Binary" and e["op"] in ("==", "!="):
            for x_, y_ in ((e["l"], e["r"]), (e["r"], e["l"])):
                if place(hir.strip_ref(hir.strip(x_))) in flags:
                    v_ = _unit_value(hir.strip_ref(hir.strip(y_)))
                    if v_ is None:
                        return None
                    is_exit_ = v_ in EXITV or (v_ in ("True", "true") and not EXITV)
                    if e["op"] == "==":
                        return is_exit_
                    return (not is_exit_) if two_valued(x_) or is_exit_ else None
        if e.get("k") == "Match" and "matches!" in (e.get("mx") or []) and place(hir.strip_ref(hir.strip(e["scrut"]))) in flags:
            vs_ = [v for a_ in e["arms"] for v in hir.pat_variants_all(a_["pat"])]
            if vs_ and all(v in EXITV for v in vs_):
                return True
            if vs_ and not any(v in EXITV for v in vs_):
                return False
        return None

    def guard_of(n_, parents_):
        """what the conditions around n_ say: set of True/False verdicts"""
        res = set()
        chain = list(parents_) + [n_]
        for i_, pr_ in enumerate(chain[:-1]):
            nxt = chain[i_ + 1]
            if pr_.get("k") == "If":
                v_ = says(pr_["cond"])
                if v_ is None:
                    continue
                if nxt is pr_.get("then") or _contains(pr_.get("then") or {}, n_):
                    res.add(v_)
                elif pr_.get("else") is not None and _contains(pr_["else"], n_):
                    fl_ = [x for x in hir.nodes(pr_["cond"], "Path") if place(x) in flags]
                    if fl_ and all(two_valued(x) for x in fl_):
                        res.add(not v_)
            if pr_.get("k") == "Match" and "matches!" not in (pr_.get("mx") or []) and place(hir.strip_ref(hir.strip(pr_["scrut"]))) in flags:
                covered_exit = False
                for a_ in pr_["arms"]:
                    vs_ = hir.pat_variants_all(a_["pat"])
                    lits_ = [str(l_["lit"].get("v")) for l_ in _pat_lits(a_["pat"])]
                    vals_ = vs_ + lits_
                    if _contains(a_, n_):
                        if vals_ and all(v in EXITV or (not EXITV and v in ("True", "true")) for v in vals_):
                            res.add(True)
                        elif vals_ and not any(v in EXITV for v in vals_):
                            res.add(False)
                        elif not vals_ and covered_exit:
                            res.add(False)
                        break
                    if vals_ and all(v in EXITV for v in vals_) and a_.get("guard") is None:
                        covered_exit = True
        return res

    if phase_calls and flags:
        for nm_, n_, parents_, s_ in phase_calls:
            if nm_ == "initialization":
                continue
            g_ = guard_of(n_, parents_)
            legacy = any(pr_.get("k") == "If" and mentions_flag(pr_["cond"]) and hir.strip(pr_["cond"]).get("k") == "Unary"
                         for pr_ in parents_)
            guarded = True if (False in g_ or legacy) else (None if (EXITV - {"true", "True"}) and not g_ and any(
                pr_.get("k") in ("If", "Match") and mentions_flag(pr_.get("cond") or pr_.get("scrut") or {}) for pr_ in parents_) else False)
            out.add("server::LanguageServer::run", "phase `%s` is entered only if no `exit` was received before" % nm_, guarded,
                    c.loc(n_["sp"]), "after an `exit` without shutdown the server goes on reading and serving messages", ("exit", "flag"))
        ex_ok = False
        ex_loc = c.loc(run["sp"])
        for i, s_ in enumerate(seq):
            for n_, parents_ in hir.walk(s_):
                if is_exit_call(n_):
                    ex_loc = c.loc(n_["sp"])
                    under = [pr_ for pr_ in parents_ if pr_.get("k") == "If" and mentions_flag(pr_["cond"])
                             and hir.strip(pr_["cond"]).get("k") != "Unary" and says(pr_["cond"]) is not False]
                    ex_ok = (bool(under) or True in guard_of(n_, parents_)) and join_i is not None and i > join_i
        out.add("server::LanguageServer::run", "an `exit` without shutdown reported by a phase ends the process with status 1 behind the join",
                ex_ok, ex_loc, "run() must call process::exit(1) under the flag the phases return, after the tasks were awaited; "
                "without it the process ends with status 0", ("exit", "flag"))
    elif not any(is_exit_call(n_) for b_ in c.bodies for n_ in hir.nodes(b_["body"], "Call")):
        out.add("server::LanguageServer::run", "an `exit` without shutdown reported by a phase ends the process with status 1 behind the join",
                False, c.loc(run["sp"]), "no flag and no process::exit", ("exit", "flag"))
    senders = {}
    for i, s in enumerate(seq):
        if s.get("k") == "Let":
            for bd in hir.pat_bindings(s["pat"]):
                if "mpsc::Sender<" in c.tstr(bd["bt"]) or "mpsc::bounded::Sender<" in c.tstr(bd["bt"]):
                    senders["%s#%s" % (bd["name"], bd["id"])] = i
    # any other await of a JoinHandle (early-return paths)
    for i, s_ in enumerate(seq):
        for aw in hir.nodes(s_, "Await"):
            if "JoinHandle" not in c.tstr(aw["e"]["t"]):
                continue
            if join_i is not None and i == join_i:
                continue
            live = []
            for sname, si in senders.items():
                if si >= i:
                    continue
                rel = False
                for s2 in seq[:i]:
                    for n2 in hir.nodes(s2, "Call"):
                        for a2 in n2.get("args", []):
                            a2_ = hir.strip(a2)
                            if a2_.get("k") == "Path" and place(a2_) == sname:
                                rel = True
                if not rel:
                    live.append(sname.split("#")[0])
            out.add("server::LanguageServer::run", "task handle awaited only after all senders were released", not live, c.loc(aw["sp"]),
                    "a task handle is awaited while sender(s) %s are still alive in `run`: the task's receive loop never ends and "
                    "the server hangs instead of terminating" % live, ("join",))
    for sname in sorted(senders):
        released = None
        for i, s in enumerate(seq[: join_i if join_i is not None else len(seq)]):
            for n in hir.nodes(s, "Call"):
                # drop(x) or moved by value as an argument
                for a in n.get("args", []):
                    a_ = hir.strip(a)
                    if a_.get("k") == "Path" and place(a_) == sname:
                        released = i
        out.add("server::LanguageServer::run", "sender `%s` is dropped or moved away before the tasks are awaited" % sname.split("#")[0],
                released is not None, c.loc(run["sp"]),
                "a live Sender keeps the receiving task's loop running forever: the server would hang instead of terminating", ("join",))
    _optional_params(prog, out)
    return out


def _optional_params(prog, out):
    """JSON-RPC 2.0: the `params` member of a request or notification object MAY be omitted (`{"jsonrpc":"2.0","id":7,"method":"shutdown"}`).
    The incoming message is an untagged enum: a request whose Deserialize demands `params` does not fail, it falls through to the next
    variant - a notification, whose id nobody reads - and never gets its response.  Read from the derived Deserialize impls as the
    compiler expanded them: a call object (a struct with the members `method` and `params`) has no `missing_field("params")`."""
    c = prog.lsp
    seen = {}
    for b in c.bodies:
        if "Deserialize" not in b["d"] or "/tests" in c.file_of(b["sp"]):
            continue
        req = set()
        for n in hir.nodes(b["body"]):
            if n.get("k") in ("Call", "MethodCall") and (hir.callee(n) or "").endswith("missing_field"):
                for x in hir.nodes(n, "Lit"):
                    v = hir.lit_value(x)
                    if isinstance(v, str):
                        req.add(v)
        if req:
            ty = b["d"].split(" for ", 1)[1].split(">", 1)[0] if " for " in b["d"] else b["d"]
            seen.setdefault(ty, [set(), b])[0].update(req)
    for ty, (req, b) in sorted(seen.items()):
        adt = next((a for p_, a in c.adts.items() if p_.endswith(ty) or p_.endswith("::" + ty.split("::")[-1])), None)
        names = {f["name"] for v in (adt or {}).get("variants") or [] for f in v.get("fields") or []}
        if not {"method", "params"} <= names:
            continue
        out.add(ty, "`params` may be omitted in an incoming call object", "params" not in req, c.loc(b["sp"]),
                "the derived Deserialize demands the members %s; JSON-RPC makes `params` optional, and in the untagged Message enum a "
                "request that fails to match falls through to Notification: it is dropped without a response" % sorted(req), ("params",))


def _path_sig(c, p):
    parts = []
    for e in p:
        if e[0] == "into":
            parts.append("into:%s" % e[2])
        elif e[0] in ("split", "send"):
            parts.append(e[0])
        elif e[0] in ("break", "loop-break", "return", "exit"):
            parts.append(e[0])
    # add the handler called on this path (distinguishes the 13 respond! arms)
    return ">".join(parts) + "@" + _enclosing_handler(c, p)


def _enclosing_handler(c, p):
    for e in p:
        if e[0] == "into" and e[2] == "result":
            n = e[1]
            args = n.get("args") or []
            if args:
                for call in hir.nodes(args[0]):
                    if call.get("k") == "Call":
                        d = hir.path_def(call["f"])
                        if d and d["p"].startswith("lsp4spl::features"):
                            return last(d["p"])
                pl = hir.path_local(args[0])
                if pl:
                    return pl["name"] + "#" + pl["id"]
    return "-"


def _pat_const(p):
    p = hir.pat_strip(p)
    if p.get("k") == "Path":
        return {"k": "Path", "res": p["res"]}
    return None


def _exit_branches(c, narm):
    """What is executed under the `Exit::METHOD` test in a Notification arm: 'exit' / 'break' / 'return-ok' / 'other'."""
    res = []

    def kind_of(body):
        if any(is_exit_call(n) for n in hir.nodes(body, "Call")):
            return "exit"
        if any(True for _ in hir.nodes(body, "Break")):
            return "break"
        for r in hir.nodes(body, "Ret"):
            e = hir.strip(r["e"]) if r.get("e") else {}
            d = hir.path_def(e.get("f", {})) if e.get("k") == "Call" else None
            if d and last(d.get("ctor_of", "")) == "Ok":
                return "return-ok"
        return "other"

    def tests_exit(cond):
        cond = hir.strip(cond)
        for bn in hir.nodes(cond, "Binary"):
            if bn["op"] == "==" and "Exit" in (method_of(c, bn["l"]), method_of(c, bn["r"])):
                return True
        return False

    if narm.get("guard") is not None and tests_exit(narm["guard"]):
        res.append(kind_of(narm["body"]))
    for n in hir.nodes(narm["body"]):
        if n.get("k") == "If" and tests_exit(n["cond"]):
            res.append(kind_of(n["then"]))
        if n.get("k") == "Match":
            for a in n["arms"]:
                pc = _pat_const(a["pat"])
                if pc and method_of(c, pc) == "Exit":
                    res.append(kind_of(a["body"]))
                elif a.get("guard") is not None and tests_exit(a["guard"]):
                    res.append(kind_of(a["body"]))
    return res


def _unit_value(a):
    """a name for the value `a` when it is a literal, `()` or a unit enum variant; else None"""
    a = hir.strip(a)
    if a.get("k") == "Lit":
        return str(a["lit"].get("v"))
    if a.get("k") == "Tup" and not a.get("es"):
        return "()"
    if a.get("k") == "Path":
        r = a.get("res") or {}
        if r.get("k") == "Def" and str(r.get("dk", "")).startswith("Ctor(Variant, Const)"):
            return r.get("ctor_of") or r.get("p")
    return None


def _ok_values(body):
    """(literal value or None, node) of every `Ok(<v>)` a phase function ends with: `return Ok(v)` and the tail expression."""
    res = []

    def okv(e):
        e = hir.strip(e)
        if e.get("k") == "Call":
            d = hir.path_def(e["f"])
            if d and last(d.get("ctor_of", "")) == "Ok" and e["args"]:
                return (_unit_value(e["args"][0]),)
        return None
    for r in hir.nodes(body["body"], "Ret"):
        if r.get("e"):
            v = okv(r["e"])
            if v:
                res.append((v[0], r))
    tail = _async_tail(body)
    if tail is not None:
        v = okv(tail)
        if v:
            res.append((v[0], tail))
    return res


def _exit_nodes(c, narms):
    """Ret nodes under the `Exit::METHOD` test of the Notification arms"""
    res = []

    def tests_exit(cond):
        for bn in hir.nodes(hir.strip(cond), "Binary"):
            if bn["op"] == "==" and "Exit" in (method_of(c, bn["l"]), method_of(c, bn["r"])):
                return True
        return False
    for narm in narms:
        bodies = []
        if narm.get("guard") is not None and tests_exit(narm["guard"]):
            bodies.append(narm["body"])
        for n in hir.nodes(narm["body"]):
            if n.get("k") == "If" and tests_exit(n["cond"]):
                bodies.append(n["then"])
            if n.get("k") == "Match":
                for a in n["arms"]:
                    pc = _pat_const(a["pat"])
                    if (pc and method_of(c, pc) == "Exit") or (a.get("guard") is not None and tests_exit(a["guard"])):
                        bodies.append(a["body"])
        for b_ in bodies:
            res += list(hir.nodes(b_, "Ret"))
    return res


def _exit_values(c, narms):
    res = []
    for r in _exit_nodes(c, narms):
        e = hir.strip(r["e"]) if r.get("e") else {}
        v = None
        if e.get("k") == "Call" and e.get("args"):
            v = _unit_value(e["args"][0])
        res.append(v)
    return res


def _has_column_free_way(cond, reads_col):
    """can `cond` hold without any of the comparisons that read the column holding?  (conjunction: every conjunct must allow it;
    disjunction: one disjunct is enough)"""
    e = hir.strip(cond)
    if e.get("k") == "Binary" and e["op"] == "&&":
        return _has_column_free_way(e["l"], reads_col) and _has_column_free_way(e["r"], reads_col)
    if e.get("k") == "Binary" and e["op"] == "||":
        return _has_column_free_way(e["l"], reads_col) or _has_column_free_way(e["r"], reads_col)
    return not reads_col(e)


def _handed_on(prog, arm):
    """is the message bound by the arm's pattern passed to a call whose callee is a value (function pointer, closure variable, trait
    object method) - i.e. to code that cannot be named from here?"""
    ids = {bd["id"] for bd in hir.pat_bindings(arm["pat"])}
    for call in hir.nodes(arm["body"]):
        if call.get("k") not in ("Call", "MethodCall"):
            continue
        args_ = list(call.get("args") or [])
        if not any((hir.path_local(hir.strip_ref(hir.strip(a_))) or {}).get("id") in ids for a_ in args_):
            continue
        if call.get("k") == "Call" and hir.path_local(hir.strip(call["f"])):
            return True       # `handler(request, ..)` with `handler` a local value
        if hir.local_callee_body(prog, call) is None and not (hir.callee(call) or "").startswith(("core::", "std::", "alloc::", "tokio::", "serde")):
            return True
    return False


def _joins_tasks(prog, c, stmt):
    """does the statement await the spawned tasks through a local helper (`workers.join().await`: a loop over JoinHandles inside)"""
    for call in hir.nodes(stmt):
        if call.get("k") in ("Call", "MethodCall"):
            hb = hir.local_callee_body(prog, call)
            if hb is not None and hb["_crate"] is c:
                for fl in hir.nodes_deep(prog, hb["body"], 1, crate=c):
                    if fl.get("k") == "ForLoop" and any(aw.get("k") == "Await" and "JoinHandle" in c.tstr(aw["e"]["t"]) for aw in hir.nodes(fl["body"])):
                        return True
    return False


def _async_block(b):
    """The user-written block of an async fn (inside the coroutine closure)."""
    e = hir.strip(b["body"])
    if e.get("k") == "Closure":
        e = hir.strip(e["body"])
        if e.get("k") == "BlockExpr":
            blk = e["b"]
            inner = blk.get("expr")
            inner = hir.strip(inner) if inner else None
            if inner and inner.get("k") == "BlockExpr":
                return inner["b"]
            return blk
    if e.get("k") == "BlockExpr":
        return e["b"]
    return None


def _async_tail(b):
    blk = _async_block(b)
    return blk.get("expr") if blk else None


# ------------------------------------------------------------------ CODEC

def rule_codec(prog):
    out = Out("CODEC")
    c = prog.lsp
    # by role: the crate's implementations of tokio_util's Decoder / Encoder (wherever the codec type lives)
    dec = [b for b in c.bodies if b["name"] == "decode" and " as tokio_util::codec::Decoder>" in b["d"] and "/tests" not in c.file_of(b["sp"])]
    enc = [b for b in c.bodies if b["name"] == "encode" and " as tokio_util::codec::Encoder<" in b["d"] and "/tests" not in c.file_of(b["sp"])]
    if len(dec) != 1 or len(enc) != 1:
        out.missing("LSCodec::decode / LSCodec::encode")
        return out
    dec, enc = dec[0], enc[0]
    if hir.strip(dec["body"]).get("k") != "BlockExpr":
        # decode is a dispatch over helpers (`match Self::readiness(src) { .. }`): the statement sequence the clauses are about is not here
        out.missing("LSCodec::decode as one statement sequence (header search, length, guard, slice, advance)")
        return out
    blk = hir.strip(dec["body"])["b"]
    seq = blk["stmts"] + ([blk["expr"]] if blk.get("expr") else [])
    src = "%s#%s" % (dec["params"][1]["name"], dec["params"][1]["id"]) if len(dec["params"]) > 1 else None

    def is_none_return(n):
        if n.get("k") != "Ret" or not n.get("e"):
            return False
        e = hir.strip(n["e"])
        if e.get("k") == "Call":
            d = hir.path_def(e["f"])
            if d and last(d.get("ctor_of", "")) == "Ok" and e["args"]:
                a = hir.path_def(e["args"][0])
                return bool(a) and last(a.get("ctor_of", "")) == "None"
        return False

    def mutates_src(n):
        if n.get("k") == "MethodCall" and place(n["recv"]) == src:
            adj = n["recv"].get("adj") or []
            if any(a["k"] == "Borrow" and "&mut" in c.tstr(a["to"]) for a in adj) and n["m"] not in ("len",):
                # parse_headers(src, ..) takes &[u8] via deref; only true consumers count
                return n["m"] in ("advance", "split_to", "split_off", "clear", "truncate", "get_u8", "copy_to_bytes", "take")
        return consumes_via_helper(n)

    CONSUMERS = ("advance", "split_to", "split_off", "clear", "truncate", "get_u8", "copy_to_bytes", "take")

    def consumes_via_helper(n):
        """a local helper that is handed the buffer and consumes from its parameter"""
        if n.get("k") not in ("Call", "MethodCall"):
            return False
        args_ = ([n["recv"]] if n.get("k") == "MethodCall" else []) + list(n.get("args") or [])
        if not any(place(hir.strip_ref(a_)) == src for a_ in args_):
            return False
        hb = hir.local_callee_body(prog, n)
        if hb is None or hb["_crate"] is not c or len(hb["params"]) != len(args_):
            return False
        for a_, p_ in zip(args_, hb["params"]):
            if place(hir.strip_ref(a_)) == src and p_.get("k") == "Binding":
                pn = "%s#%s" % (p_["name"], p_["id"])
                if any(m_.get("k") == "MethodCall" and m_["m"] in CONSUMERS and place(m_["recv"]) == pn for m_ in hir.nodes(hb["body"])):
                    return True
        return False

    first_mut = None
    last_none = None
    via_helper = False
    adv = None
    idx = None
    guard = None
    for i, s in enumerate(seq):
        for n in hir.nodes(s):
            if mutates_src(n) and first_mut is None:
                first_mut = i
                if n.get("m") == "advance" and not consumes_via_helper(n):
                    adv = (i, n)
                via_helper = consumes_via_helper(n)
            if is_none_return(n):
                last_none = i
            if n.get("k") == "Index" and place(n["base"]) == src:
                idx = (i, n)
            if n.get("k") == "If":
                cond = hir.strip(n["cond"])
                if cond.get("k") == "Binary" and cond["op"] in ("<", ">", "<=", ">=") and any(is_none_return(x) for x in hir.nodes(n["then"])):
                    sides = [hir.strip(cond["l"]), hir.strip(cond["r"])]
                    lens = [x for x in sides if x.get("k") == "MethodCall" and x["m"] == "len" and place(x["recv"]) == src]
                    others = [place(x) for x in sides if place(x)]
                    if lens and others and ((cond["op"] == "<" and sides[0] is lens[0]) or (cond["op"] == ">" and sides[1] is lens[0])):
                        guard = (i, others[0])
    out.add("LSCodec::decode", "nothing is consumed from the buffer before the last `return Ok(None)`",
            first_mut is not None and last_none is not None and last_none < first_mut, c.loc(dec["sp"]),
            "a partial frame must leave the buffer untouched so that decoding restarts from the header "
            "(last Ok(None) in statement %s, first consuming call in statement %s)" % (last_none, first_mut))
    # ... and once the frame has been consumed, the answer is a message or an error, never `None`: for FramedRead `Ok(None)` means
    # "no complete frame yet, read more" - it does not call decode again for the frames already in the buffer
    def ev_c(n_):
        if n_.get("k") == "MethodCall" and n_["m"] in ("advance", "split_to", "split_off", "clear", "truncate") and place(n_["recv"]) == src:
            return ("consume", n_)
        if n_.get("k") == "Path" and last(n_["res"].get("ctor_of", "")) == "None":
            return ("none", n_)
        return None
    try:
        ps_c = flow.paths(dec["body"], ev_c)
        bad_p = [p_ for p_ in ps_c if any(e_[0] == "consume" for e_ in p_) and any(e_[0] == "none" for e_ in p_)]
        out.add("LSCodec::decode", "a consumed frame is answered with a message or an error, never with `None`", not bad_p, c.loc(dec["sp"]),
                "%d path(s) through decode consume the frame and also produce a `None`: FramedRead reads `Ok(None)` as `need more bytes` and "
                "waits for input although complete frames are already buffered - whether the next request is answered depends on how the "
                "client's bytes were chunked" % len(bad_p), ("none",))
    except OverflowError:
        out.add("LSCodec::decode", "a consumed frame is answered with a message or an error, never with `None`", None, c.loc(dec["sp"]), "", ("none",))
    ok = idx is not None and guard is not None and guard[0] < idx[0]
    end_name = None
    if idx is not None:
        r = hir.strip(idx[1]["idx"])
        if r.get("k") == "Struct":
            f = {x["name"]: place(x["e"]) for x in r["fields"]}
            end_name = f.get("end")
            ok = ok and guard[1] == end_name
    if idx is None and via_helper:
        ok = None   # slicing and consuming sit in a helper behind the last `return Ok(None)`: this clause does not follow them there
    out.add("LSCodec::decode", "body slice is guarded by `src.len() < content_end => wait`", ok, c.loc(idx[1]["sp"]) if idx else c.loc(dec["sp"]),
            "guard on %s, slice end %s" % (guard[1] if guard else None, end_name))
    ok = adv is not None and place(adv[1]["args"][0]) == end_name and idx is not None and adv[0] >= idx[0]
    if adv is None and via_helper:
        ok = None
    out.add("LSCodec::decode", "exactly the decoded frame is consumed (advance(content_end))", ok,
            c.loc(adv[1]["sp"]) if adv else c.loc(dec["sp"]), "")
    # the answer for a frame does not depend on what is buffered behind it: the bytes from the end of the frame on (the amount that is
    # consumed) belong to the next frame, which may be incomplete, spelled differently, or not there yet
    if end_name is not None or adv is not None:
        ends = {end_name} | ({place(adv[1]["args"][0])} if adv is not None and adv[1].get("args") else set())
        ends.discard(None)
        beyond = None
        for n_ in hir.nodes(dec["body"]):
            rng_ = None
            if n_.get("k") == "Index" and place(hir.strip_ref(n_["base"])) == src:
                rng_ = hir.strip(n_["idx"])
            elif n_.get("k") == "MethodCall" and n_["m"] in ("get", "split_at", "split_off", "starts_with", "chunk") and place(hir.strip_ref(n_["recv"])) == src and n_.get("args"):
                rng_ = hir.strip(n_["args"][0])
            if rng_ is None:
                continue
            if rng_.get("k") == "Struct":
                f_ = {x["name"]: place(hir.strip(x["e"])) for x in rng_["fields"]}
                if f_.get("start") in ends:
                    beyond = n_
            elif n_.get("k") == "Index" and place(rng_) in ends:
                # the single byte at the end of the frame is the first byte of the next one
                beyond = n_
            elif n_.get("k") == "MethodCall" and n_["m"] in ("split_at", "split_off") and place(rng_) in ends and adv is not None and \
                    n_ is not adv[1]:
                # (reading the tail that split_off/split_at hands back - only a violation if it is looked at; not followed here)
                pass
        out.add("LSCodec::decode", "the answer for a complete frame does not depend on the bytes buffered behind it", beyond is None,
                c.loc((beyond or dec)["sp"]), "decode slices the buffer from the end of the frame on and looks at the start of the next frame: "
                "a legal next header (`content-length`, or `Content-Type` first) that arrives in the same read is answered with an error "
                "that ends the server, while the same frames written one by one are served", ("beyond",))
    # content_end = content_start + content_length ; content_length parsed from the Content-Length header
    ce = None
    for s in seq:
        if s.get("k") == "Let" and s["pat"].get("k") == "Binding" and "%s#%s" % (s["pat"]["name"], s["pat"]["id"]) == end_name:
            ce = hir.strip(s["init"])
    if ce is None and end_name and "." in end_name:
        # the frame bounds travel in a struct built by a helper: take the field's initialiser from the struct literal
        fld = end_name.rsplit(".", 1)[1]
        for st in hir.nodes_deep(prog, dec["body"], 2, crate=c):
            if st.get("k") == "Struct" and st.get("adt", "").startswith("lsp4spl::"):
                for f_ in st["fields"]:
                    if f_["name"] == fld:
                        ce = hir.strip(f_["e"])
    ok = (ce.get("k") == "Binary" and ce["op"] == "+") if ce is not None else None
    out.add("LSCodec::decode", "content_end = content_start + content_length", ok, c.loc(dec["sp"]), "")
    lits = [n["lit"].get("v") for n in hir.nodes_deep(prog, dec["body"], 2, values=True) if n.get("k") == "Lit" and n["lit"]["k"] == "str"]
    # (a header name kept in a constant counts as written where the constant is used)
    for n in hir.nodes_deep(prog, dec["body"], 3, crate=c, values=True):
        if n.get("k") == "Path" and n["res"].get("k") == "Def" and str(n["res"].get("dk", "")).startswith(("Const", "AssocConst")):
            cb_ = prog.body(n["res"].get("p") or "")
            v_ = hir.lit_value(cb_["body"]) if cb_ is not None else None
            if isinstance(v_, str):
                lits.append(v_)
    out.add("LSCodec::decode", "length is read from the `Content-Length` header", "Content-Length" in lits, c.loc(dec["sp"]), "string literals: %s" % lits)
    # header field names are case-insensitive (the base protocol's header part follows HTTP semantics)
    exact = None
    for bn in hir.nodes_deep(prog, dec["body"], 3, crate=c, values=True):
        if bn.get("k") == "Binary" and bn["op"] in ("==", "!=") and any(
                y.get("k") == "Lit" and y["lit"].get("k") == "str" and str(y["lit"].get("v")).lower() == "content-length" for y in hir.nodes(bn)):
            exact = bn
    insens = any(x.get("k") == "MethodCall" and x["m"] in ("eq_ignore_ascii_case", "to_ascii_lowercase", "to_lowercase", "to_ascii_uppercase")
                 for x in hir.nodes_deep(prog, dec["body"], 3, crate=c, values=True))
    out.add("LSCodec::decode", "the Content-Length header is recognised in any case", insens and exact is None, c.loc((exact or dec)["sp"]),
            "the header name is compared with `==`: `content-length: 52` is rejected as invalid headers, the session ends with status 1 and the "
            "request is never answered", ("hdrcase",))
    # encode: the number written is String::len() (bytes) of the very string that is written
    # (the framing may sit in a local helper of encode: the body that holds the `Content-Length: {}..{}` format is the one judged)
    enc_bodies = [enc]
    for call in hir.nodes_deep(prog, enc["body"], 2, crate=c):
        if call.get("k") in ("Call", "MethodCall"):
            hb = hir.local_callee_body(prog, call)
            if hb is not None and hb["_crate"] is c and hb not in enc_bodies:
                enc_bodies.append(hb)
    verdict, detail = None, "no `Content-Length` format found in encode or its helpers"
    for eb in enc_bodies:
        fmt_args = None
        for n in hir.nodes(eb["body"], "Let"):
            init = hir.strip(n.get("init") or {})
            if init.get("k") == "Tup" and "desugaring of format string literal" in (init.get("mx") or []) \
                    and "format!" in (init.get("mx") or []):
                fmt_args = [place(x) for x in init["es"]]
        if fmt_args is None or not any("Content-Length" in t_ for t_ in hir.format_text(eb["body"])):
            continue
        lens = {}
        for n in hir.nodes(eb["body"], "Let"):
            init = hir.strip(n.get("init") or {})
            if init.get("k") == "MethodCall" and init["m"] == "len" and n["pat"].get("k") == "Binding":
                lens["%s#%s" % (n["pat"]["name"], n["pat"]["id"])] = (place(hir.strip_ref(init["recv"])), (init.get("d") or ""))
        if len(fmt_args) != 2 or fmt_args[0] not in lens or fmt_args[1] is None:
            detail = "formatted (%s): shape not recognised" % (fmt_args,)
            continue
        src_, d_ = lens[fmt_args[0]]
        verdict = src_ == fmt_args[1] and (d_.endswith("String::len") or d_.endswith("str>::len") or d_.endswith("str::len"))
        detail = "length taken from %s (%s = bytes); formatted (%s)" % (src_, d_, fmt_args)
    out.add("LSCodec::encode", "Content-Length is the byte length of the body that follows", verdict, c.loc(enc["sp"]), detail)
    enc = dict(enc, body={"k": "Tup", "es": [eb["body"] for eb in enc_bodies], "t": 0, "sp": enc["sp"]})
    bad = [n for n in hir.nodes(enc["body"], "MethodCall") if n["m"] in ("chars", "encode_utf16", "char_indices")]
    out.add("LSCodec::encode", "no character-count based length", not bad, c.loc(enc["sp"]), "")
    # frames reach stdout complete: through the framed writer (`send`) or `write_all`.  `AsyncWriteExt::write` writes *some* bytes and
    # says how many; taking that for the whole buffer cuts a large frame short behind a header that announces the full length
    shortw = None
    n_w = 0
    for wb in c.bodies:
        if "/tests" in c.file_of(wb["sp"]) or "::tests" in wb["d"]:
            continue
        for mc, parents in hir.walk(wb["body"]):
            if mc.get("k") != "MethodCall" or mc["m"] not in ("write", "write_all", "send", "feed", "write_buf", "write_vectored", "poll_write"):
                continue
            r_ = hir.strip(mc["recv"])
            t_ = c.tstr(r_["t"]) + "".join(c.tstr(a_["to"]) for a_ in r_.get("adj") or [])
            if "Stdout" not in t_ and "FramedWrite" not in t_:
                continue
            n_w += 1
            if mc["m"] in ("write", "write_buf", "write_vectored", "poll_write"):
                # a write loop that goes on behind the bytes that were accepted (`buf.advance(n)` / `&buf[n..]`) is complete
                loops_ = [p_ for p_ in parents if p_.get("k") in ("While", "Loop", "ForLoop")]
                resumes = bool(loops_) and any(
                    (x_.get("k") == "MethodCall" and x_["m"] in ("advance", "split_to", "drain")) or
                    (x_.get("k") == "Index" and (hir.strip(x_["idx"]).get("adt") or "").endswith("RangeFrom"))
                    for x_ in hir.nodes(loops_[-1]["body"]))
                if not resumes:
                    shortw = (wb, mc)
    if n_w:
        out.add("stdout", "frames are written to stdout completely (framed `send` / `write_all`, no single `write`)", shortw is None,
                c.loc(shortw[1]["sp"]) if shortw else c.loc(enc["sp"]),
                "`.%s(..)` on stdout in `%s` outside a loop: it may accept only part of the buffer (tokio's Stdout takes at most 2 MiB per call); "
                "the rest of the frame is never written although its Content-Length was" % (shortw[1]["m"] if shortw else "", shortw[0]["d"] if shortw else ""),
                ("write",))
    # sizes in decode are unsigned: a difference `a - b` is only taken where a guard on the very same two values (`b < a`, `b <= a`,
    # early return on `a < b`) has established its sign.  Which bytes the buffer holds when decode runs is decided by the chunking
    # of the client's writes; a difference whose sign depends on it panics (debug) or wraps (release) for some split of the stream.
    n_sub = 0
    for bn, parents in hir.walk(dec["body"]):
        if bn.get("k") not in ("Binary", "AssignOp") or bn.get("op") not in ("-", "-="):
            continue
        a_, b_ = place(hir.strip_ref(bn["l"])) or _call_sig(bn["l"]), place(hir.strip_ref(bn["r"])) or _call_sig(bn["r"])
        if hir.lit_value(hir.strip(bn["r"])) is not None or a_ is None or b_ is None:
            continue

        def orders(cond, negated):
            """does `cond` (taken, or not taken when negated) establish b <= a ?"""
            for cb in hir.nodes(cond, "Binary"):
                l_, r_ = place(hir.strip_ref(cb["l"])) or _call_sig(cb["l"]), place(hir.strip_ref(cb["r"])) or _call_sig(cb["r"])
                op = cb["op"]
                if negated:
                    op = {"<": ">=", "<=": ">", ">": "<=", ">=": "<"}.get(op)
                if (l_, r_) == (b_, a_) and op in ("<", "<="):
                    return True
                if (l_, r_) == (a_, b_) and op in (">", ">="):
                    return True
            return False
        guarded = False
        chain = list(parents) + [bn]
        for i_, pr_ in enumerate(chain[:-1]):
            if pr_.get("k") == "If":
                if chain[i_ + 1] is pr_.get("then") and orders(pr_["cond"], False):
                    guarded = True
                if pr_.get("else") is not None and chain[i_ + 1] is pr_["else"] and orders(pr_["cond"], True):
                    guarded = True
            if pr_.get("k") == "Block":
                for st_ in pr_["stmts"]:
                    if st_ is chain[i_ + 1]:
                        break
                    inner_ = hir.stmt_inner(st_) or {}
                    if inner_.get("k") == "If" and any(True for _ in hir.nodes(inner_["then"], "Ret")) and orders(inner_["cond"], True):
                        guarded = True
        n_sub += 1
        out.add("LSCodec::decode", "an unsigned difference is taken only behind a guard on its two operands", guarded, c.loc(bn["sp"]),
                "`%s - %s` with no dominating comparison of exactly these two values: for some chunking of the input the buffer holds more than "
                "the subtrahend's bound and the subtraction underflows - the reader task panics (or reserves an absurd capacity) and every "
                "later request stays unanswered" % ((a_ or "?").split("#")[0], (b_ or "?").split("#")[0]), ("sub",))
    return out


def _pat_lits(p):
    """literal patterns inside p"""
    res = []
    if not isinstance(p, dict):
        return res
    p = hir.pat_strip(p)
    if p.get("k") == "Lit":
        res.append(p)
    for key in ("pats",):
        for q in p.get(key) or []:
            res += _pat_lits(q)
    for f in p.get("fields") or []:
        res += _pat_lits(f.get("pat"))
    if p.get("sub"):
        res += _pat_lits(p["sub"])
    if p.get("pat") and isinstance(p.get("pat"), dict):
        res += _pat_lits(p["pat"])
    return res


def _call_sig(e):
    """`x.len()` -> 'x.len()' (a stable name for a method result without arguments, used to compare operands)"""
    e = hir.strip_ref(e)
    if e.get("k") == "MethodCall" and not e["args"]:
        r = place(hir.strip_ref(e["recv"]))
        if r:
            return "%s.%s()" % (r, e["m"])
    return None


# ------------------------------------------------------------------ BROKER / DOC-KEY

def rule_broker(prog):
    out = Out("BROKER")
    c = prog.lsp
    b = roles.broker_fn(prog)
    if b is None:
        out.missing("document broker task (async fn taking Receiver<DocumentRequest>)")
        return out
    notify_ps = set(x["p"] for x in roles.notify_fns(prog))

    def is_docs(e):
        t = c.tstr(e["t"])
        for ad in e.get("adj") or []:
            t = c.tstr(ad["to"])
        return "HashMap<" in t and "AnalyzedSource" in t

    def deep(node):
        return list(hir.nodes_deep(prog, node, 3, crate=c))

    if not any(n.get("k") == "MethodCall" and is_docs(n["recv"]) for n in deep(b["body"])):
        out.missing("document map (HashMap<Url, AnalyzedSource>) used by the broker task")
        return out
    arms = {}
    for m in deep(b["body"]):
        if m.get("k") != "Match":
            continue
        for arm in m["arms"]:
            pv = hir.pat_variant(arm["pat"])
            if pv and pv.startswith("lsp4spl::document::DocumentRequest::"):
                arms[last(pv)] = arm

    def arm_code(arm):
        """the code of an arm: the arm body, or the body of the one local method the arm hands the request to"""
        e_ = hir.strip(arm["body"])
        if e_.get("k") == "BlockExpr" and not e_["b"].get("stmts") and e_["b"].get("expr") is not None:
            e_ = hir.strip(e_["b"]["expr"])
        if e_.get("k") == "Await":
            e_ = hir.strip(e_["e"])
        if e_.get("k") in ("Call", "MethodCall"):
            hb = hir.local_callee_body(prog, e_)
            if hb is not None and hb["_crate"] is c:
                # async fn: the coroutine body
                return hb["body"]
        return arm["body"]
    if set(arms) != {"Open", "Change", "Close", "GetInfo"}:
        out.missing("DocumentRequest arms in broker (found %s)" % sorted(arms))
        return out
    # DOC-KEY
    lossy = ("path", "host_str", "host", "query", "fragment", "domain", "path_segments", "port", "scheme", "username")
    nkeys = 0
    for name, arm in sorted(arms.items()):
        for n in deep(arm["body"]):
            if n.get("k") == "MethodCall" and is_docs(n["recv"]) and n["m"] in ("insert", "entry", "remove", "get", "get_mut", "contains_key") and n["args"]:
                key = n["args"][0]
                bad = [x["m"] for x in hir.nodes(key, "MethodCall") if x["m"] in lossy and hir.adt_path(c, x["recv"]["t"]) == "url::Url"]
                # key computed by a local helper: look into its body
                roots_ = [key]
                for call in hir.nodes(key, "Call"):
                    hb = prog.body(hir.callee(call) or "")
                    if hb is not None:
                        bad += [x["m"] for x in hir.nodes(hb["body"], "MethodCall") if x["m"] in lossy and hir.adt_path(c, x["recv"]["t"]) == "url::Url"]
                        roots_.append(hb["body"])
                # ... and nothing else that maps several URIs to one key: a conversion to a file path (drops scheme, query, fragment), a case
                # mapping, trimming or cutting of the URI's text
                for r_ in roots_:
                    for x in hir.nodes(r_, "MethodCall"):
                        rt_ = c.tstr(hir.strip(x["recv"])["t"]) + "".join(c.tstr(a_["to"]) for a_ in hir.strip(x["recv"]).get("adj") or [])
                        is_url_ = "Url" in rt_ or hir.adt_path(c, hir.strip(x["recv"])["t"]) == "url::Url"
                        if (is_url_ and x["m"] in ("to_file_path", "join", "make_relative", "origin", "socket_addrs")) or \
                                (("str" in rt_ or "String" in rt_) and x["m"] in ("to_lowercase", "to_uppercase", "to_ascii_lowercase", "to_ascii_uppercase",
                                                                                "trim", "trim_start", "trim_end", "trim_matches", "trim_start_matches",
                                                                                "trim_end_matches", "strip_prefix", "strip_suffix", "split", "rsplit",
                                                                                "split_once", "rsplit_once", "replace", "replacen", "truncate")):
                            bad.append(x["m"])
                nkeys += 1
                out.add("document::broker", "%s: docs.%s key is an injective function of the URI" % (name, n["m"]), not bad,
                        c.loc(n["sp"]), "the key is derived with the lossy accessor Url::%s(): URIs that differ only in "
                        "scheme/host/query share one document" % (bad[0] if bad else ""), ("key",))
    if nkeys < 4:
        out.missing("docs map operations (found %d)" % nkeys)
    # diagnostics only when announced
    flag_ids = set()
    for pp in b["params"]:
        for bd in hir.pat_bindings(pp):
            if c.tstr(bd["bt"]) == "bool":
                flag_ids.add(bd["id"])
    # async fn: parameters are re-bound inside the coroutine (`let x = x;`)
    for l in hir.nodes(b["body"], "Let"):
        if l["pat"].get("k") == "Binding" and l.get("init") is not None:
            pl0 = hir.path_local(l["init"])
            if pl0 and pl0["id"] in flag_ids:
                flag_ids.add(l["pat"]["id"])
    # ... or stored in a field of the broker's state struct
    flag_fields = set()
    # (the struct may be put together by a constructor the broker calls: `DocumentStore::new(iotx, send_diagnostics)`)
    b_inl_ = hir.inline_calls(prog, b["body"], c, depth=2, only=lambda hb: c.file_of(hb["sp"]) == c.file_of(b["sp"]))
    for st in list(hir.nodes(b["body"], "Struct")) + list(hir.nodes(b_inl_, "Struct")):
        for f in st["fields"]:
            pl0 = hir.path_local(hir.strip(f["e"]))
            if pl0 and pl0["id"] in flag_ids:
                flag_fields.add(f["name"])

    def is_flag(cond):
        cond = hir.strip_ref(cond)
        pl = hir.path_local(cond)
        if pl and pl["id"] in flag_ids:
            return True
        return cond.get("k") == "Field" and cond["name"] in flag_fields and c.tstr(cond["t"]) == "bool"

    cmap = hir.callers_map(prog, "lsp4spl")

    def from_broker(x):
        return x["p"] == b["p"] or x["p"].startswith(b["p"] + "::")

    last_seg = last

    def _is_some_pat(p_):
        p_ = p_ or {}
        return p_.get("k") == "TupleStruct" and last_seg((p_.get("res") or {}).get("ctor_of", "") or p_.get("path", "") or "") == "Some"

    _opts_cache = {}

    def opts_of(x, depth=0):
        """Locals of x that are Some(..) exactly when the diagnostics flag is set (`if flag { Some(&iotx) } else { None }`,
        `flag.then_some(..)`), or parameters that receive such a value at every call site."""
        if x["p"] in _opts_cache:
            return _opts_cache[x["p"]]
        _opts_cache[x["p"]] = set()
        res = set()
        for l in hir.nodes(x["body"], "Let"):
            if l["pat"].get("k") != "Binding" or l.get("init") is None:
                continue
            i_ = hir.strip(l["init"])
            if i_.get("k") == "If" and is_flag(i_["cond"]) and i_.get("else") is not None:
                t_, e_ = hir.strip(i_["then"]), hir.strip(i_["else"])
                if t_.get("k") == "Call" and last_seg((hir.path_def(t_["f"]) or {}).get("ctor_of", "")) == "Some" and \
                        e_.get("k") == "Path" and last_seg(e_["res"].get("ctor_of", "")) == "None":
                    res.add(l["pat"]["id"])
            elif i_.get("k") == "MethodCall" and i_["m"] in ("then_some", "then") and is_flag(i_["recv"]):
                res.add(l["pat"]["id"])
            else:
                pl_ = hir.path_local(i_)
                if pl_ and pl_["id"] in res:
                    res.add(l["pat"]["id"])
        if not from_broker(x) and depth < 3:
            sites_ = []
            for y in c.bodies:
                if "/tests" in c.file_of(y["sp"]):
                    continue
                for m in hir.nodes(y["body"], "Call"):
                    if hir.callee(m) == x["p"]:
                        sites_.append((y, m))
            for idx_, pp in enumerate(x["params"]):
                if pp.get("k") != "Binding" or not sites_:
                    continue
                if all(idx_ < len(m["args"]) and (hir.path_local(m["args"][idx_]) or {}).get("id") in opts_of(y, depth + 1)
                       for y, m in sites_):
                    res.add(pp["id"])
                    # async fn: `let p = p;`
                    for l in hir.nodes(x["body"], "Let"):
                        if l["pat"].get("k") == "Binding" and (hir.path_local(l.get("init") or {}) or {}).get("id") == pp["id"]:
                            res.add(l["pat"]["id"])
        _opts_cache[x["p"]] = res
        return res

    def opt_guard(x, n, parents):
        opts = opts_of(x)
        if not opts:
            return False
        chain_ = list(parents) + [n]
        for i_, p in enumerate(chain_[:-1]):
            k_ = p.get("k")
            if k_ == "If" and _contains(p["then"], n):
                cnd = hir.strip(p["cond"])
                if cnd.get("k") == "LetExpr" and _is_some_pat(cnd.get("pat")) and (hir.path_local(cnd.get("init") or {}) or {}).get("id") in opts:
                    return True
            if k_ == "Match" and (hir.path_local(p["scrut"]) or {}).get("id") in opts:
                for arm in p["arms"]:
                    if _contains(arm["body"], n) and _is_some_pat(arm["pat"]):
                        return True
            if k_ == "Block":
                for st_ in p["stmts"]:
                    if st_ is chain_[i_ + 1] or _contains(st_, n):
                        break
                    if st_.get("k") == "Let" and st_.get("els") and _is_some_pat(st_["pat"]) and \
                            (hir.path_local(st_.get("init") or {}) or {}).get("id") in opts and \
                            any(x_.get("k") in ("Ret", "Continue", "Break") for x_ in hir.nodes(st_["els"])):
                        return True
        return False

    def local_enum(e):
        ap = hir.adt_path(c, e["t"]) or ""
        return ap.startswith("lsp4spl::") and not ap.endswith("DocumentRequest") and (c.adts.get(ap) or {}).get("k") == "enum"

    def site_guard(x, n, parents, depth=0):
        """True: the call n (in body x) runs only under the diagnostics flag; False: it runs without; None: the condition it runs
        under is derived from the flag in a way this rule does not follow (a mode enum computed from it)."""
        for p in parents:
            if p.get("k") == "If" and _contains(p["then"], n) and (is_flag(p["cond"]) or any(is_flag(y) for y in hir.nodes(p["cond"]))):
                return True
        # early-return form: `if !flag { return; }` in front of the call
        chain_ = list(parents) + [n]
        for i_, p in enumerate(chain_[:-1]):
            if p.get("k") != "Block":
                continue
            for st_ in p["stmts"]:
                if st_ is chain_[i_ + 1] or _contains(st_, n):
                    break
                in_ = hir.stmt_inner(st_) or {}
                cnd_ = hir.strip(in_.get("cond") or {}) if in_.get("k") == "If" else {}
                if cnd_.get("k") == "Unary" and cnd_.get("op") in ("!", "Not") and is_flag(cnd_["e"]) and \
                        any(x_.get("k") == "Ret" for x_ in hir.nodes(in_["then"])) and in_.get("else") is None:
                    return True
        if opt_guard(x, n, parents):
            return True
        opaque = False
        for p in parents:
            if p.get("k") == "Match" and not _contains(p["scrut"], n) and local_enum(hir.strip_ref(hir.strip(p["scrut"]))):
                opaque = True
            if p.get("k") == "If" and _contains(p["then"], n) and any(
                    y.get("k") in ("Path", "Field") and local_enum(y) for y in hir.nodes(p["cond"])):
                opaque = True
        if from_broker(x) or depth > 3:
            return None if opaque else False
        sites = []
        for y in c.bodies:
            if "/tests" in c.file_of(y["sp"]):
                continue
            for m, ps in hir.walk(y["body"]):
                if m.get("k") in ("Call", "MethodCall") and hir.callee(m) == x["p"]:
                    sites.append((y, m, ps))
        if not sites:
            return None
        vs = [site_guard(y, m, ps, depth + 1) for y, m, ps in sites]
        if all(v is True for v in vs):
            return True
        if any(v is False for v in vs) and not opaque:
            return False
        return None

    n_notes = 0
    for x in c.bodies:
        if "/tests" in c.file_of(x["sp"]):
            continue
        for n, parents in hir.walk(x["body"]):
            if n.get("k") != "Call" or (hir.callee(n) or "") not in notify_ps:
                continue
            n_notes += 1
            verdict_ = site_guard(x, n, parents)
            out.add("document::broker", "diagnostics are published only if the client announced support", verdict_,
                    c.loc(n["sp"]), "`notify` must be inside `if <the broker's diagnostics flag>`", ("diag",))
            # ... and on nothing else: every Open/Change of a supporting client is followed by its diagnostics
            # (`if let` heads only establish that the document exists / destructure a map entry: not a condition on publishing)
            extra = [p for p in parents if p.get("k") == "If" and _contains(p.get("then") or {}, n) and not is_flag(p["cond"])
                     and hir.strip(p["cond"]).get("k") != "LetExpr"]
            out.add("document::broker", "for a supporting client publishing depends on nothing but the flag", not extra,
                    c.loc((extra[0] if extra else n)["sp"]),
                    "the publishDiagnostics call is additionally guarded by another condition: the diagnostics of some edit are never "
                    "sent (the last ones published no longer describe the document, or depend on how messages were batched)", ("diag",))
            ok = from_broker(x) or hir.only_called_from(prog, x["p"], from_broker, cmap)
            out.add("document::notify", "is called only by the broker", ok, c.loc(n["sp"]), "called from %s" % x["d"], ("diag",))
    if n_notes == 0:
        out.missing("calls of the PublishDiagnostics builder")
    for name in ("Open", "Change"):
        has_note = any(n.get("k") == "Call" and (hir.callee(n) or "") in notify_ps for n in deep(arms[name]["body"]))
        out.add("document::broker", "diagnostics are published after %s" % name, has_note, c.loc(arms[name]["sp"]), "", ("diag",))
    for name in ("Close", "GetInfo"):
        has_note = any(n.get("k") == "Call" and (hir.callee(n) or "") in notify_ps for n in deep(arms[name]["body"]))
        out.add("document::broker", "no diagnostics are published on %s" % name, not has_note, c.loc(arms[name]["sp"]), "", ("diag",))

    def has(arm, meth):
        return [n for n in deep(arm["body"]) if n.get("k") == "MethodCall" and n["m"] == meth]

    out.add("document::broker", "Open analyses the text and stores it", bool(has(arms["Open"], "insert")) and
            any(n.get("k") == "Call" and hir.callee_display(n) == "spl_frontend::AnalyzedSource::new" for n in deep(arms["Open"]["body"])),
            c.loc(arms["Open"]["sp"]), "", ("state",))
    chg = deep(arms["Change"]["body"])
    upd = [n for n in chg if n.get("k") == "MethodCall" and (n.get("d") or "") == "spl_frontend::AnalyzedSource::update"]
    ok = len(upd) == 1
    if ok:
        # the updated document flows back into the map: entry.insert(x) / docs.insert(k, x) / *slot = x
        # the values that are the updated document: the update call itself, and a call of a local helper that returns it
        upd_vals = [upd[0]]
        for call in chg:
            if call.get("k") in ("Call", "MethodCall"):
                hb = hir.local_callee_body(prog, call)
                if hb is not None and hb["_crate"] is c:
                    hbody = hir.strip(hb["body"])
                    tail = hir.strip(hbody["b"]["expr"]) if hbody.get("k") == "BlockExpr" and hbody["b"].get("expr") is not None else hbody
                    if tail is upd[0]:
                        upd_vals.append(call)
                    elif hir.path_local(tail) and any(
                            l.get("k") == "Let" and l["pat"].get("k") == "Binding" and l["pat"]["id"] == hir.path_local(tail)["id"] and
                            "Mut" not in l["pat"]["mode"] and l.get("init") is not None and hir.strip(l["init"]) is upd[0]
                            for l in hir.nodes(hbody)):
                        upd_vals.append(call)
        newdocs = set()
        for l in chg:
            if l.get("k") == "Let" and l.get("init") is not None and any(hir.strip(l["init"]) is u_ for u_ in upd_vals) and \
                    l["pat"].get("k") == "Binding":
                newdocs.add("%s#%s" % (l["pat"]["name"], l["pat"]["id"]))

        def is_new(e):
            e_ = hir.strip(e)
            return any(e_ is u_ for u_ in upd_vals) or place(e_) in newdocs

        stored = any(n["args"] and is_new(n["args"][-1]) for n in has(arms["Change"], "insert"))
        for a_ in chg:
            if a_.get("k") == "Assign" and is_new(a_["r"]) and "AnalyzedSource" in c.tstr(a_["l"]["t"]):
                stored = True
        ok = stored
    out.add("document::broker", "Change stores the updated document", ok, c.loc(arms["Change"]["sp"]), "", ("state",))
    out.add("document::broker", "Close forgets the document", bool(has(arms["Close"], "remove")), c.loc(arms["Close"]["sp"]), "", ("state",))
    # every per-document map the broker keeps is emptied for a URI when that document is closed
    def is_url_map(e):
        t = c.tstr(e["t"])
        for ad in e.get("adj") or []:
            t = c.tstr(ad["to"])
        return ("HashMap<" in t or "BTreeMap<" in t) and "Url" in t.split(",")[0]

    def map_place(e):
        # the map's identity is its field / local name (`docs`, `self.docs`, `store.docs` are one map seen from different functions)
        pl_ = place(hir.strip_ref(e)) or ""
        if not pl_:
            return None
        return pl_.rsplit(".", 1)[1] if "." in pl_ else pl_.split("#")[0]

    filled = {}
    for n in deep(b["body"]):
        if n.get("k") == "MethodCall" and n["m"] in ("insert", "entry") and is_url_map(n["recv"]):
            mp = map_place(n["recv"])
            if mp:
                filled.setdefault(mp, n)
    removed = set()
    for n in deep(arms["Close"]["body"]):
        if n.get("k") == "MethodCall" and n["m"] in ("remove", "clear", "remove_entry") and is_url_map(n["recv"]):
            mp = map_place(n["recv"])
            if mp:
                removed.add(mp)
    for mp, n in sorted(filled.items()):
        out.add("document::broker", "Close removes the closed document's entry from `%s`" % mp, mp in removed, c.loc(n["sp"]),
                "the broker keeps per-document state in `%s` but the Close arm does not remove the closed URI from it: the state of a closed "
                "document survives and influences the same URI when it is opened again" % mp, ("state",))
    g = has(arms["GetInfo"], "get")
    s = has(arms["GetInfo"], "send")
    out.add("document::broker", "GetInfo answers from the stored document", bool(g) and bool(s), c.loc(arms["GetInfo"]["sp"]), "", ("state",))
    # ... on every path: the handler on the other end of the oneshot channel awaits the answer with `?`; an arm that can end without
    # sending (unknown document -> sender dropped) turns "document not open" into an error that ends the reader loop
    def ev(n_):
        if n_.get("k") == "MethodCall" and n_["m"] == "send" and "oneshot" in (
                c.tstr(hir.strip(n_["recv"])["t"]) + "".join(c.tstr(a_["to"]) for a_ in (hir.strip(n_["recv"]).get("adj") or []))):
            return ("answer", n_)
        return None
    try:
        ps_ = flow.paths(arm_code(arms["GetInfo"]), ev)
        silent = [p_ for p_ in ps_ if not any(e_[0] == "answer" for e_ in p_) and not (p_ and p_[-1][0] in ("panic",))]
        out.add("document::broker", "GetInfo answers on every path (also for a document that is not open)", not silent and bool(ps_),
                c.loc(arms["GetInfo"]["sp"]), "%d of %d paths through the GetInfo arm end without sending on the oneshot channel: the waiting "
                "handler gets a receive error, which `?` turns into the end of the reader loop - this request and all later ones stay "
                "unanswered" % (len(silent), len(ps_)), ("state", "answer"))
    except OverflowError:
        out.add("document::broker", "GetInfo answers on every path (also for a document that is not open)", None, c.loc(arms["GetInfo"]["sp"]), "", ("state", "answer"))
    # handlers are awaited inline: covered by WHO-MAY spawn. All document requests travel through doctx.send
    return out


def _contains(root, n):
    return any(x is n for x in hir.nodes(root))


# ------------------------------------------------------------------ NO-DROP / BATCH / UTF16

def rule_text_sync(prog):
    out = Out("TEXT-SYNC")
    c = prog.lsp
    b = roles.text_changes_fn(prog)
    if b is None:
        out.missing("fn(Vec<TextDocumentContentChangeEvent>, ..) -> Vec<TextChange>")
        return out
    cv = roles.conv(prog)
    # NO-DROP: the adaptor chain over `changes` must not be able to discard an element
    dropping = [n for n in hir.nodes(b["body"], "MethodCall") if n["m"] in ("filter_map", "filter", "take_while", "skip", "skip_while", "flat_map", "take", "step_by")]
    bad = None
    for n in dropping:
        nones = [p for p in hir.nodes(n, "Path") if last(p["res"].get("ctor_of", "")) == "None"]
        if n["m"] != "filter_map" or nones:
            bad = n
    out.add("document::to_text_changes", "no content change is discarded", bad is None, c.loc(bad["sp"]) if bad else c.loc(b["sp"]),
            "a change without `range` (full-text replacement) is silently dropped by `%s`; the server's text then "
            "diverges from the client's" % (bad["m"] if bad else ""), ("nodrop",))
    # ... and nobody on the way from the notification to that function prunes or reorders the list either: no pruning / reordering
    # method is applied to a value of type Vec<TextDocumentContentChangeEvent> anywhere in the server
    PRUNE = ("retain", "retain_mut", "dedup", "dedup_by", "dedup_by_key", "truncate", "drain", "pop", "remove", "swap_remove", "clear",
             "sort", "sort_by", "sort_by_key", "sort_unstable", "sort_unstable_by", "sort_unstable_by_key", "reverse", "split_off", "rotate_left",
             "rotate_right", "swap")
    pruned = None
    n_lists = 0
    for fb in c.bodies:
        if "/tests" in c.file_of(fb["sp"]):
            continue
        for mc in hir.nodes(fb["body"], "MethodCall"):
            t_ = c.tstr(hir.strip(mc["recv"])["t"]) + "".join(c.tstr(a_["to"]) for a_ in (hir.strip(mc["recv"]).get("adj") or []))
            if "TextDocumentContentChangeEvent" not in t_:
                continue
            n_lists += 1
            if mc["m"] in PRUNE:
                pruned = (fb, mc)
    out.add("document", "the list of content changes is neither pruned nor reordered on its way to the conversion", pruned is None,
            c.loc(pruned[1]["sp"]) if pruned else c.loc(b["sp"]),
            "`%s` on the content changes of a didChange notification (in `%s`): a change that looks like a no-op by one criterion (empty text) "
            "can be the one that empties the document; every later position is then interpreted against the wrong text"
            % (pruned[1]["m"] if pruned else "", pruned[0]["d"] if pruned else ""), ("nodrop", "batch"))
    # BATCH: replace_range on the temp text with the converted range; ranges converted against the temp text
    temp = None
    for n in hir.nodes(b["body"], "Let"):
        if n["pat"].get("k") == "Binding" and "Mut" in n["pat"]["mode"] and "String" in c.tstr(n["pat"]["bt"]):
            temp = "%s#%s" % (n["pat"]["name"], n["pat"]["id"])
    rr = [n for n in hir.nodes(b["body"], "MethodCall") if n["m"] == "replace_range" and place(n["recv"]) == temp]
    rr_via = []
    if temp is not None and not rr:
        # applied by a helper that is handed the temporary text (`text_change.apply_to(&mut temp_text)`, possibly of the front end)
        for n in hir.nodes(b["body"]):
            if n.get("k") not in ("Call", "MethodCall"):
                continue
            hb = hir.local_callee_body(prog, n)
            if hb is None:
                continue
            args_ = ([n["recv"]] if n.get("k") == "MethodCall" else []) + list(n["args"])
            for j_, a_ in enumerate(args_):
                if place(hir.strip_ref(hir.strip(a_))) == temp and j_ < len(hb["params"]) and hb["params"][j_].get("k") == "Binding":
                    pn_ = "%s#%s" % (hb["params"][j_]["name"], hb["params"][j_]["id"])
                    if any(x_.get("k") == "MethodCall" and x_["m"] == "replace_range" and place(x_["recv"]) == pn_ for x_ in hir.nodes(hb["body"])):
                        rr_via.append(n)
    out.add("document::to_text_changes", "each change is applied to the temporary text before the next one is converted",
            temp is not None and (len(rr) >= 1 or len(rr_via) >= 1), c.loc(b["sp"]), "batched changes are relative to their predecessors", ("batch",))
    conv = [n for n in hir.nodes(b["body"], "Call") if hir.callee_display(n) in
            tuple(cv[k]["d"] for k in ("as_index_range", "get_insertion_index") if k in cv)]
    ok = bool(conv) and all(place(n["args"][1]) == temp for n in conv)
    if not conv:
        # the conversion sits in a local helper that is handed the text: the helper's text parameter must receive the temporary text
        conv_ds = tuple(cv[k]["d"] for k in ("as_index_range", "get_insertion_index") if k in cv)
        via = []
        for call in hir.nodes(b["body"], "Call"):
            hb = hir.local_callee_body(prog, call)
            if hb is None or hb["_crate"] is not c or hb["p"] == b["p"]:
                continue
            inner = [n for n in hir.nodes(hb["body"], "Call") if hir.callee_display(n) in conv_ds]
            if not inner:
                continue
            pnames = ["%s#%s" % (p_["name"], p_["id"]) if p_.get("k") == "Binding" else None for p_ in hb["params"]]
            for n in inner:
                pl_ = place(n["args"][1])
                via.append((call, place(call["args"][pnames.index(pl_)]) if pl_ in pnames and len(call["args"]) == len(pnames) else None))
        if via:
            conv = [v_[0] for v_ in via]
            ok = True if all(v_[1] == temp for v_ in via) else (None if any(v_[1] is None for v_ in via) else False)
    out.add("document::to_text_changes", "positions are converted against the advanced temporary text", ok, c.loc(conv[0]["sp"]) if conv else c.loc(b["sp"]),
            "", ("batch",))
    if rr:
        # the range applied equals the range recorded in the TextChange (whatever order they are built in)
        defs = {}
        for l in hir.nodes(b["body"], "Let"):
            if l["pat"].get("k") == "Binding" and l.get("init") is not None:
                defs[l["pat"]["id"]] = l["init"]

        def canon(e, depth=0):
            e = hir.strip_ref(e)
            while e.get("k") == "MethodCall" and e["m"] in ("clone", "to_owned", "as_str", "to_string", "as_ref", "borrow"):
                e = hir.strip_ref(e["recv"])
            if depth > 8:
                return None
            if e.get("k") == "Field":
                base = hir.strip_ref(e["base"])
                pl = hir.path_local(base)
                if pl and pl["id"] in defs:
                    d_ = hir.strip(defs[pl["id"]])
                    if d_.get("k") == "Struct":
                        for f in d_["fields"]:
                            if f["name"] == e["name"]:
                                return canon(f["e"], depth + 1)
                bc = canon(base, depth + 1)
                return (bc + "." + e["name"]) if isinstance(bc, str) else None
            pl = hir.path_local(e)
            if pl:
                if pl["id"] in defs:
                    d_ = hir.strip_ref(defs[pl["id"]])
                    while d_.get("k") == "MethodCall" and d_["m"] in ("clone", "to_owned"):
                        d_ = hir.strip_ref(d_["recv"])
                    if d_.get("k") in ("Field",) or hir.path_local(d_):
                        return canon(d_, depth + 1)
                return "%s#%s" % (pl["name"], pl["id"])
            return "node@%d" % id(e)

        lits = [st for st in hir.nodes(b["body"], "Struct") if (st.get("adt") or "") == "spl_frontend::TextChange"]
        ok = None
        if len(lits) == 1:
            f = {x["name"]: x["e"] for x in lits[0]["fields"]}
            r1, r2 = canon(rr[0]["args"][0]), canon(f.get("range", {}))
            t1, t2 = canon(rr[0]["args"][1]), canon(f.get("text", {}))
            if None not in (r1, r2, t1, t2):
                ok = r1 == r2 and t1 == t2
        out.add("document::to_text_changes", "the temporary text receives the same range and text as the TextChange", ok,
                c.loc(rr[0]["sp"]), "", ("batch",))
    # every String whose length/positions feed a TextChange.range inside the per-change step is the temp text
    def _has_lit(n):
        return any((st.get("adt") or "") == "spl_frontend::TextChange" for st in hir.nodes(n["body"], "Struct"))
    # the per-change step: the outermost closure / loop body that builds the TextChange
    clos = [n for n in hir.nodes(b["body"]) if n.get("k") in ("Closure", "ForLoop") and _has_lit(n)]
    if clos and temp:
        clo = clos[0]
        inner_defs = set()
        for l in hir.nodes(clo["body"], "Let"):
            for bd in hir.pat_bindings(l["pat"]):
                inner_defs.add(bd["id"])
        for pp in (clo.get("params") or ([clo["pat"]] if "pat" in clo else [])):
            for bd in hir.pat_bindings(pp):
                inner_defs.add(bd["id"])
        outer = {}
        for l in hir.nodes(b["body"], "Let"):
            if l.get("init") is not None:
                for bd in hir.pat_bindings(l["pat"]):
                    if bd["id"] not in inner_defs:
                        outer[bd["id"]] = l["init"]
        bad = None
        for st in hir.nodes(clo["body"], "Struct"):
            if (st.get("adt") or "") != "spl_frontend::TextChange":
                continue
            for fl in st["fields"]:
                if fl["name"] != "range":
                    continue
                fl = dict(fl)
                pl0 = hir.path_local(hir.strip_ref(fl["e"]))
                if pl0:
                    for l in hir.nodes(clo["body"], "Let"):
                        if l["pat"].get("k") == "Binding" and l["pat"]["id"] == pl0["id"] and l.get("init") is not None:
                            fl["e"] = l["init"]
                for pth in hir.nodes(fl["e"], "Path"):
                    r = pth["res"]
                    if r.get("k") == "Local" and r["id"] in outer and "%s#%s" % (r["name"], r["id"]) != temp:
                        # a value computed before the loop: stale once an earlier change of the batch was applied
                        if any((m_.get("m") == "len") or (hir.callee_display(m_) or "") in set(v["d"] for v in cv.values())
                               for m_ in hir.nodes(outer[r["id"]]) if m_.get("k") in ("MethodCall", "Call")):
                            bad = pth
                for mc in hir.nodes(fl["e"], "MethodCall"):
                    if mc["m"] == "len" and "String" in c.tstr(mc["recv"]["t"]) or mc["m"] == "len" and c.tstr(mc["recv"]["t"]).endswith("str"):
                        pl_ = place(mc["recv"])
                        if pl_ and pl_ != temp:
                            bad = mc
        out.add("document::to_text_changes", "change ranges are computed from the advancing temporary text only", bad is None,
                c.loc(bad["sp"]) if bad else c.loc(b["sp"]),
                "a range bound is derived from a text/length captured before the batch was processed: stale as soon as an earlier "
                "change of the same notification changed the length", ("batch",))
    # no byte distance is computed from terminator-stripped lines (`str::lines()` drops `\n` *or* `\r\n`)
    for fn in ("as_position", "get_insertion_index", "as_pos_range", "as_index_range"):
        fb = cv.get(fn)
        if fb is None:
            continue
        item_ids = set()
        ns = list(hir.nodes_deep(prog, fb["body"], 1, crate=c))
        for n in ns:
            # closures applied to an iterator chain that starts at lines()/split(..)
            if n.get("k") == "MethodCall":
                chain = [x for x in hir.nodes(n["recv"], "MethodCall") if x["m"] in ("lines", "split", "split_terminator", "rsplit", "splitn")]
                if chain or n["m"] in ("lines",):
                    for a in n["args"]:
                        a = hir.strip(a)
                        if a.get("k") == "Closure":
                            for pp in a["params"]:
                                for bd in hir.pat_bindings(pp):
                                    item_ids.add(bd["id"])
            if n.get("k") == "ForLoop" and any(x["m"] in ("lines", "split", "split_terminator") for x in hir.nodes(n["iter"], "MethodCall")):
                for bd in hir.pat_bindings(n["pat"]):
                    item_ids.add(bd["id"])
        bad = None
        for n in ns:
            if n.get("k") == "MethodCall" and n["m"] == "len":
                pl = hir.path_local(hir.strip_ref(n["recv"]))
                if pl and pl["id"] in item_ids:
                    bad = n
        out.add("document::" + fn, "byte offsets are not computed from terminator-stripped lines", bad is None,
                c.loc((bad or fb)["sp"]), "`line.len()` of a line produced by `lines()`/`split` is added up as a byte distance: the "
                "terminator (`\n` or `\r\n`) is not part of the line, so offsets are wrong in documents with CRLF or mixed line endings",
                ("lines",))
    # a column behind the end of its line means the end of that line: the scan for a client position has an exit that
    # depends on the *line* alone (taken at the line break of the requested line, or when the line counter passes it)
    gi = cv.get("get_insertion_index")
    if gi is not None:
        gi = dict(gi)
        gi["body"] = hir.simplify(hir.inline_calls(prog, gi["body"], c, depth=2, only=lambda hb: c.file_of(hb["sp"]).rsplit(".", 1)[0].startswith(c.file_of(cv["get_insertion_index"]["sp"]).rsplit(".", 1)[0].rsplit("/", 1)[0])))
        pos_ids = set()
        for pp in gi["params"]:
            for bd in hir.pat_bindings(pp):
                if "Position" in c.tstr(bd["bt"]):
                    pos_ids.add(bd["id"])

        def reads(e, fld):
            """does e read <position>.<fld> (directly or through a local defined from it)?"""
            for x in hir.nodes(e):
                if x.get("k") == "Field" and x["name"] == fld:
                    pl = hir.path_local(hir.strip_ref(x["base"]))
                    if pl and pl["id"] in pos_ids:
                        return True
                pl = hir.path_local(x) if x.get("k") == "Path" else None
                if pl and pl["id"] in derived.get(fld, ()):
                    return True
            return False

        derived = {"line": set(), "character": set()}
        for _ in range(3):
            for l in hir.nodes(gi["body"], "Let"):
                if l.get("init") is None:
                    continue
                for fld in ("line", "character"):
                    if reads(l["init"], fld):
                        for bd in hir.pat_bindings(l["pat"]):
                            derived[fld].add(bd["id"])
        loops = [n for n in hir.nodes(gi["body"]) if n.get("k") in ("ForLoop", "While", "Loop")]
        if not loops:
            out.add("document::get_insertion_index", "a column behind the end of a line is clamped to the end of that line", None,
                    c.loc(gi["sp"]), "no character scan found (other construction): not decided", ("clamp",))
        else:
            ok = False
            for lp in loops:
                for n, parents in hir.walk(lp["body"]):
                    if n.get("k") not in ("Ret", "Break"):
                        continue
                    for pr in parents:
                        if pr.get("k") == "If" and reads(pr["cond"], "line") and not reads(pr["cond"], "character"):
                            ok = True
                        # one combined exit `on the line && (column reached || at a line break)`: some way through the condition
                        # does not ask for the column
                        if pr.get("k") == "If" and reads(pr["cond"], "line") and _has_column_free_way(pr["cond"], lambda x_: reads(x_, "character")):
                            ok = True
                        if pr.get("k") == "Arm" and pr.get("guard") is not None and reads(pr["guard"], "line") and not reads(pr["guard"], "character"):
                            ok = True
            # the column counter advances by len_utf16() (1 or 2): a requested column in the middle of a surrogate pair is jumped over
            # by an equality test; the exit test on the column must be an ordering
            counters = set()
            for a_ in hir.nodes(gi["body"], "AssignOp"):
                if any(m_.get("m") == "len_utf16" for m_ in hir.nodes(a_["r"], "MethodCall")):
                    pl_ = hir.path_local(hir.strip(a_["l"]))
                    if pl_:
                        counters.add(pl_["id"])
            for _ in range(2):
                for l in hir.nodes(gi["body"], "Let"):
                    if l.get("init") is not None and any((hir.path_local(x) or {}).get("id") in counters for x in hir.nodes(l["init"], "Path")):
                        for bd in hir.pat_bindings(l["pat"]):
                            pass  # tuples built from the counter are handled below through `mentions_counter`

            def mentions_counter(e):
                return any((hir.path_local(x) or {}).get("id") in counters for x in hir.nodes(e, "Path"))

            eq_bad = None
            n_cmp = 0
            for cmp_ in hir.nodes(gi["body"], "Binary"):
                if cmp_["op"] not in ("==", "!=", "<", "<=", ">", ">="):
                    continue
                l_, r_ = cmp_["l"], cmp_["r"]
                if (mentions_counter(l_) and reads(r_, "character")) or (mentions_counter(r_) and reads(l_, "character")):
                    n_cmp += 1
                    if cmp_["op"] in ("==", "!="):
                        eq_bad = cmp_
            if counters and n_cmp:
                out.add("document::get_insertion_index", "the requested column is compared with the UTF-16 column counter by an ordering, not by equality",
                        eq_bad is None, c.loc((eq_bad or gi)["sp"]),
                        "the counter advances by 2 for a character outside the BMP: a requested column between the two halves is never *equal* to "
                        "the counter, the scan runs past it, start > end, and `String::replace_range` panics - the server dies on a didChange",
                        ("clamp",))
            # every exit of the scan answers with the scan head itself: an exit that steps back (`i - 1`) or forward can answer a
            # larger column with a smaller index than another exit answers a smaller column with - start > end for start <= end
            bad_ret = None
            n_ret = 0
            for lp in loops:
                for rt in hir.nodes(lp["body"], "Ret"):
                    if rt.get("e") is None:
                        continue
                    n_ret += 1
                    if any(x.get("k") in ("Binary", "AssignOp") and x.get("op") in ("+", "-", "+=", "-=") for x in hir.nodes(rt["e"])):
                        bad_ret = rt
            if n_ret:
                out.add("document::get_insertion_index", "every exit of the scan returns the scan position itself (the conversion is monotone)",
                        bad_ret is None, c.loc((bad_ret or gi)["sp"]),
                        "an exit returns the scan position adjusted by an offset: on `ab\\r\\ncd` column 3 of line 0 is answered with index 3 by "
                        "the exact-match exit but column 99 with index 2 by this one, the range (0,3)-(0,99) becomes 3..2 and replace_range panics",
                        ("clamp",))
            out.add("document::get_insertion_index", "a column behind the end of a line is clamped to the end of that line", ok,
                    c.loc(gi["sp"]), "the scan only stops where line *and* column match: for a column behind the end of its line it runs "
                    "on into the following lines and answers with the end of the document (LSP: such a column means the end of the line); "
                    "an edit sent with that position is applied somewhere else than in the client's copy", ("clamp",))
    # the order of a batch is the order of application
    reord = [n for n in hir.nodes(b["body"], "MethodCall") if n["m"] in ("rev", "reverse", "sort", "sort_by", "sort_by_key", "sort_unstable",
                                                                          "sort_unstable_by", "sort_unstable_by_key", "sort_by_cached_key")]
    out.add("document::to_text_changes", "content changes are converted in the order they were sent", not reord,
            c.loc((reord[0] if reord else b)["sp"]), "each change of a batch is relative to the text after its predecessors", ("batch",))
    # ordered: the byte range built from a client range (as_index_range) never ends in front of its start - the client's range may
    # (a malformed `end < start`), and `String::replace_range` panics on an inverted range, which ends the broker task
    air = cv.get("as_index_range")
    if air is None and "get_insertion_index" in cv:
        # written in place: the function that builds a byte range from two results of get_insertion_index
        gi_p_ = cv["get_insertion_index"]["p"]
        for fb_ in c.bodies:
            if "/tests" in c.file_of(fb_["sp"]) or fb_["k"] not in ("fn", "assoc_fn"):
                continue
            ldefs_ = {l_["pat"]["id"]: l_["init"] for l_ in hir.nodes(fb_["body"], "Let") if l_["pat"].get("k") == "Binding" and l_.get("init") is not None}

            def _from_gi(e_, d_=0):
                if any(x_.get("k") == "Call" and hir.callee(x_) == gi_p_ for x_ in hir.nodes(e_)):
                    return True
                return d_ < 3 and any((hir.path_local(x_) or {}).get("id") in ldefs_ and _from_gi(ldefs_[hir.path_local(x_)["id"]], d_ + 1)
                                      for x_ in hir.nodes(e_, "Path"))
            for st in hir.nodes(fb_["body"], "Struct"):
                if (st.get("adt") or "").startswith("core::ops::range::Range"):
                    f_ = {x["name"]: x["e"] for x in st["fields"]}
                    if "start" in f_ and "end" in f_ and _from_gi(f_["start"]) and _from_gi(f_["end"]):
                        air = air or fb_
    if air is None:
        out.missing("position conversion function as_index_range")
    else:
        ordered = None
        for st in hir.nodes(air["body"], "Struct"):
            if not (st.get("adt") or "").startswith("core::ops::range::Range"):
                continue
            f_ = {x["name"]: x["e"] for x in st["fields"]}
            if "start" not in f_ or "end" not in f_:
                continue
            sp_ = place(hir.strip_ref(f_["start"]))
            en = hir.strip(f_["end"])
            ordered = False
            if en.get("k") == "MethodCall" and en["m"] == "max" and en["args"] and sp_ in (place(hir.strip_ref(en["args"][0])), place(hir.strip_ref(en["recv"]))):
                ordered = True
            if en.get("k") == "Call" and last(hir.callee(en) or "") == "max" and sp_ in [place(hir.strip_ref(a_)) for a_ in en["args"]]:
                ordered = True
        if ordered is False:
            # or the two bounds are compared with each other before a range is chosen (`if last < first { first..first } else { first..last }`)
            bounds = set()
            for st in hir.nodes(air["body"], "Struct"):
                if (st.get("adt") or "").startswith("core::ops::range::Range"):
                    for x_ in st["fields"]:
                        pl_ = place(hir.strip_ref(hir.strip(x_["e"])))
                        if pl_:
                            bounds.add(pl_)
            for bn in hir.nodes(air["body"], "Binary"):
                if bn["op"] in ("<", "<=", ">", ">="):
                    l_, r_ = place(hir.strip_ref(hir.strip(bn["l"]))), place(hir.strip_ref(hir.strip(bn["r"])))
                    if l_ and r_ and l_ != r_ and {l_, r_} <= bounds:
                        ordered = True
        if ordered is False:
            # or an explicit guard comparing the two bounds somewhere in the function
            for bn in hir.nodes(air["body"], "Binary"):
                if bn["op"] in ("<", "<=", ">", ">=") and {"start", "end"} <= {(place(hir.strip_ref(bn["l"])) or "").split("#")[0], (place(hir.strip_ref(bn["r"])) or "").split("#")[0]}:
                    ordered = True
        out.add("document::as_index_range", "the byte range of a change never ends in front of its start", ordered, c.loc(air["sp"]),
                "`start..end` is built from two independently converted positions: a client range with `end < start` yields an inverted "
                "range, `replace_range` panics in the broker task and every later request stays unanswered", ("clamp", "ordered"))
    # UTF16: column counters in as_position / get_insertion_index (and private helpers they share)
    # a field of a local struct whose value becomes `Position.character` is a column counter too (a cursor struct bundling line/column)
    col_fields = set()
    for fb_ in c.bodies:
        if "/tests" in c.file_of(fb_["sp"]):
            continue
        for st in hir.nodes(fb_["body"], "Struct"):
            if (st.get("adt") or "").endswith("lsp_types::Position"):
                for f in st["fields"]:
                    e_ = hir.strip(f["e"])
                    if f["name"] == "character" and e_.get("k") == "Field":
                        ap_ = hir.adt_path(c, hir.strip(e_["base"])["t"]) or ""
                        for ad_ in hir.strip(e_["base"]).get("adj") or []:
                            ap_ = hir.adt_path(c, ad_["to"]) or ap_
                        if ap_.startswith("lsp4spl::"):
                            col_fields.add((ap_, e_["name"]))
                    # (`let Self { line, character } = self; Position { line, character }`: the field reaches the Position through
                    # a destructuring pattern)
                    pl_ = hir.path_local(e_) if f["name"] == "character" else None
                    if pl_:
                        for l_ in hir.nodes(fb_["body"], "Let"):
                            pt_ = hir.pat_strip(l_["pat"])
                            if pt_.get("k") == "Struct" and str((pt_.get("res") or {}).get("p") or (pt_.get("res") or {}).get("k") or ""):
                                for pf_ in pt_.get("fields") or []:
                                    if any(bd["id"] == pl_["id"] for bd in hir.pat_bindings(pf_["pat"])):
                                        ap_ = hir.adt_path(c, l_["init"]["t"]) if l_.get("init") is not None else None
                                        for ad_ in (l_.get("init") or {}).get("adj") or []:
                                            ap_ = hir.adt_path(c, ad_["to"]) or ap_
                                        if ap_ and ap_.startswith("lsp4spl::"):
                                            col_fields.add((ap_, pf_["name"]))

    def is_col_field_of_struct(l):
        if l.get("k") != "Field":
            return False
        bs = hir.strip(l["base"])
        aps = [hir.adt_path(c, bs["t"]) or ""] + [hir.adt_path(c, ad_["to"]) or "" for ad_ in bs.get("adj") or []]
        return any((ap_, l["name"]) in col_fields for ap_ in aps)

    for fn in ("as_position", "get_insertion_index"):
        fb = cv.get(fn)
        if fb is None:
            out.missing("position conversion function " + fn)
            continue
        # (small helpers without a `return` of their own - methods of a struct that bundles the scan's counters, named conditions -
        # are read in place; the others are looked at as bodies of their own)
        fb = dict(fb)
        fb["body"] = hir.simplify(hir.inline_calls(prog, fb["body"], c, depth=2, only=lambda hb: c.file_of(hb["sp"]).rsplit(".", 1)[0].startswith(c.file_of(cv[fn]["sp"]).rsplit(".", 1)[0].rsplit("/", 1)[0])))
        bodies_ = [fb]
        for call in hir.nodes(fb["body"]):
            if call.get("k") in ("Call", "MethodCall"):
                hb = hir.local_callee_body(prog, call)
                if hb is not None and hb["_crate"] is c and hb not in bodies_:
                    bodies_.append(hb)
        incs_all = []
        for bb in bodies_:
            colvars = set()
            for st in hir.nodes(bb["body"], "Struct"):
                if (st.get("adt") or "").endswith("lsp_types::Position"):
                    for f in st["fields"]:
                        if f["name"] == "character":
                            pl = place(f["e"])
                            if pl:
                                colvars.add(pl)
            for n in hir.nodes(bb["body"], "Let"):
                init = hir.strip(n.get("init") or {})
                if init.get("k") == "Tup" and any((place(e) or "").endswith(".character") for e in init["es"]):
                    posv = "%s#%s" % (n["pat"]["name"], n["pat"]["id"]) if n["pat"].get("k") == "Binding" else None
                    for cmpn in hir.nodes(bb["body"], "Binary"):
                        if cmpn["op"] == "==" and posv in (place(cmpn["l"]), place(cmpn["r"])):
                            other = cmpn["l"] if place(cmpn["r"]) == posv else cmpn["r"]
                            other = hir.strip(other)
                            if other.get("k") == "Tup" and len(other["es"]) == 2:
                                pl = place(other["es"][1])
                                if pl:
                                    colvars.add(pl)
            # a local compared with `<position>.character` counts columns too
            for cmpn in hir.nodes(bb["body"], "Binary"):
                if cmpn["op"] not in ("==", "!=", "<", "<=", ">", ">="):
                    continue
                for me_, other_ in ((cmpn["l"], cmpn["r"]), (cmpn["r"], cmpn["l"])):
                    o_ = hir.strip_ref(other_)
                    if o_.get("k") == "Field" and o_["name"] == "character" and "Position" in (
                            c.tstr(o_["base"]["t"]) + "".join(c.tstr(a_["to"]) for a_ in (o_["base"].get("adj") or []))):
                        pl = place(hir.strip_ref(me_))
                        if pl and "." not in pl:
                            colvars.add(pl)
            for n in hir.nodes(bb["body"], "AssignOp"):
                if n["op"] != "+=":
                    continue
                l = hir.strip(n["l"])
                is_col_field = l.get("k") == "Field" and l["name"] == "character" and "lsp_types::Position" in c.tstr(l["base"]["t"])
                if place(n["l"]) in colvars or is_col_field or is_col_field_of_struct(l):
                    incs_all.append((bb, n))
        if not incs_all:
            # no running counter: the column is computed in one go (`text[line_start..index].<count>`): judge the counting expression
            verdict, where = None, fb
            for bb in bodies_:
                defs_ = {}
                for l_ in hir.nodes(bb["body"], "Let"):
                    if l_["pat"].get("k") == "Binding" and l_.get("init") is not None:
                        defs_[l_["pat"]["id"]] = l_["init"]
                for st in hir.nodes(bb["body"], "Struct"):
                    if not (st.get("adt") or "").endswith("lsp_types::Position"):
                        continue
                    for f in st["fields"]:
                        if f["name"] != "character":
                            continue
                        roots, seen_ = [f["e"]], set()
                        while roots:
                            r_ = roots.pop()
                            for x in hir.nodes(r_):
                                pl_ = hir.path_local(x)
                                if pl_ and pl_["id"] in defs_ and pl_["id"] not in seen_:
                                    seen_.add(pl_["id"])
                                    roots.append(defs_[pl_["id"]])
                                if x.get("k") == "MethodCall":
                                    if x["m"] in ("encode_utf16", "len_utf16"):
                                        verdict = True if verdict is None else verdict
                                    elif x["m"] in ("chars", "char_indices", "graphemes") or (x["m"] == "len" and "str" in c.tstr(hir.strip(x["recv"])["t"])):
                                        verdict, where = False, x
            out.add("document::" + fn, "column advances by UTF-16 code units", verdict, c.loc(where["sp"]),
                    "the column of a Position is counted in `char`s / bytes: LSP columns count UTF-16 code units, so every position behind a "
                    "character outside the BMP (or, for bytes, outside ASCII) in the same line is off", ("utf16",))
            continue
        # what ends a line: the counter of the line is advanced (and the column reset) at `\n` *and* at a carriage return that is not part
        # of `\r\n` - LSP counts all three line endings, and the two converters must agree
        eol_chars = set()
        eol_site = None
        for bb in bodies_:
            for iff in hir.nodes(bb["body"], "If"):
                resets = any(a_.get("k") == "Assign" and hir.lit_value(hir.strip(a_["r"])) in ("0", 0) for a_ in hir.nodes(iff["then"])) or \
                    any(a_.get("k") == "AssignOp" and a_["op"] == "+=" and hir.lit_value(hir.strip(a_["r"])) in ("1", 1) and
                        "line" in (place(a_["l"]) or "") for a_ in hir.nodes(iff["then"]))
                if not resets:
                    continue
                for l_ in hir.nodes_deep(prog, iff["cond"], 2, crate=c):
                    if l_.get("k") == "Lit" and l_["lit"].get("k") == "char":
                        eol_chars.add(l_["lit"].get("v"))
                    # (a pattern literal `'\n' | '\r'` of a matches! / match counts as well)
                    if l_.get("k") == "Match":
                        for a_ in l_["arms"]:
                            for pl2 in _pat_lits(a_["pat"]):
                                if pl2["lit"].get("k") == "char":
                                    eol_chars.add(pl2["lit"].get("v"))
                eol_site = eol_site or iff
        table_decided = set()
        # (table) the conditions under which the scan ends a line / leaves at the end of the requested line are decided over the finite
        # set of cases that matter: current character in {LF, CR, other} x "the next character is LF".  A line is advanced exactly
        # at LF and at a CR that is not followed by LF; the clamp exit of get_insertion_index is taken at the *first* character of a
        # line break, i.e. at LF and at every CR.  A condition that keeps state between iterations cannot be tabulated (undecided
        # here; clause `state` below speaks about it).
        for bb in bodies_:
            defs_t = {}
            for l_ in hir.nodes(bb["body"], "Let"):
                if l_["pat"].get("k") == "Binding" and l_.get("init") is not None:
                    defs_t[l_["pat"]["id"]] = l_["init"]
            # the loop variable holding the character
            char_ids = set()
            for x in hir.nodes(bb["body"]):
                pats = [x["pat"]] if x.get("k") in ("LetExpr", "ForLoop") and x.get("pat") else []
                # (`let Some((i, c)) = chars.next() else { break };`)
                if x.get("k") == "Let" and x.get("els") is not None and x.get("pat"):
                    pats = [x["pat"]]
                for pt in pats:
                    for bd in hir.pat_bindings(pt):
                        if c.tstr(bd["bt"]) == "char":
                            char_ids.add(bd["id"])
            if not char_ids:
                continue
            mutated = {(hir.path_local(hir.strip(a_["l"])) or {}).get("id") for a_ in hir.nodes(bb["body"]) if a_.get("k") in ("Assign", "AssignOp")}

            def is_char(x, sc):
                pl_ = hir.path_local(hir.strip(x))
                if not pl_:
                    return False
                if sc is None:
                    return pl_["id"] in char_ids
                v_ = sc.get(pl_["id"])
                return bool(v_) and is_char(v_[0], v_[1])

            def peeks(x, sc, depth=0):
                """does the value of x come from looking at the next character without taking it"""
                if depth > 6:
                    return False
                for m_ in hir.nodes(x):
                    if m_.get("k") == "MethodCall" and m_["m"] == "peek":
                        return True
                    pl_ = hir.path_local(m_) if m_.get("k") == "Path" else None
                    if pl_:
                        if sc is not None and pl_["id"] in sc:
                            v_ = sc[pl_["id"]]
                            tgt = v_[0].get("body") if v_[0].get("k") == "Closure" else v_[0]
                            if tgt is not None and peeks(tgt, v_[1], depth + 1):
                                return True
                        elif sc is None and pl_["id"] in defs_t and pl_["id"] not in mutated and peeks(defs_t[pl_["id"]], None, depth + 1):
                            return True
                return False

            def ev3(e, env, sc=None, depth=0):
                """three-valued value of a condition for the current character env['c'] and env['next_lf'];
                sc: parameter bindings {id: (argument expression, its scope)} while a local helper is evaluated in place"""
                e = hir.strip(e)
                k = e.get("k")
                if depth > 10:
                    return None
                if k == "Lit":
                    v = e["lit"].get("v")
                    if e["lit"].get("k") == "bool" or v in (True, False):
                        return bool(v)
                    return None
                if k == "BlockExpr" and not e["b"].get("stmts") and e["b"].get("expr") is not None:
                    return ev3(e["b"]["expr"], env, sc, depth + 1)
                if k == "Unary" and e.get("op") in ("!", "Not"):
                    v = ev3(e["e"], env, sc, depth + 1)
                    return None if v is None else (not v)
                if k == "Binary" and e["op"] in ("&&", "||"):
                    a_, b_ = ev3(e["l"], env, sc, depth + 1), ev3(e["r"], env, sc, depth + 1)
                    if e["op"] == "&&":
                        if a_ is False or b_ is False:
                            return False
                        return True if (a_ is True and b_ is True) else None
                    if a_ is True or b_ is True:
                        return True
                    return False if (a_ is False and b_ is False) else None
                if k == "Binary" and e["op"] in ("==", "!="):
                    l_, r_ = hir.strip(e["l"]), hir.strip(e["r"])
                    for x_, y_ in ((l_, r_), (r_, l_)):
                        if is_char(x_, sc) and y_.get("k") == "Lit" and y_["lit"].get("k") == "char":
                            eq = env["c"] == y_["lit"].get("v")
                            return eq if e["op"] == "==" else (not eq)
                        # `<peeked> == Some('\n')`
                        if peeks(x_, sc) and y_.get("k") == "Call" and (hir.callee(y_) or "").endswith("Option::Some") and \
                                [l2["lit"].get("v") for l2 in hir.nodes(y_, "Lit")] == ["\n"] and not any(
                                    z_.get("k") == "Call" and z_ is not y_ for z_ in hir.nodes(y_)):
                            return env["next_lf"] if e["op"] == "==" else (not env["next_lf"])
                    # `line == position.line`: we are on the requested line
                    if sc is None and any(f_.get("k") == "Field" and f_["name"] == "line" for f_ in hir.nodes(e)):
                        on_ = env.get("on_line", True)
                        return on_ if e["op"] == "==" else (not on_)
                    return None
                if k == "Match" and "matches!" in (e.get("mx") or []):
                    # matches!(chars.peek(), Some((_, '\n')))
                    lits = [l_["lit"].get("v") for a_ in e["arms"] for l_ in _pat_lits(a_["pat"])]
                    if peeks(e["scrut"], sc):
                        if lits == ["\n"]:
                            return env["next_lf"]
                    elif is_char(e["scrut"], sc) and all(a_.get("guard") is None for a_ in e["arms"]) and len(e["arms"]) == 2:
                        # matches!(c, '\n' | '\r'), also with ranges: the first arm is the pattern, the second the rest
                        from . import charclass
                        return charclass.Eval(prog, c).pat_matches(e["arms"][0]["pat"], env["c"])
                    return None
                if k == "Path":
                    pl_ = hir.path_local(e)
                    if pl_ and sc is not None:
                        v_ = sc.get(pl_["id"])
                        return ev3(v_[0], env, v_[1], depth + 1) if v_ else None
                    if pl_ and pl_["id"] in defs_t and pl_["id"] not in mutated:
                        return ev3(defs_t[pl_["id"]], env, None, depth + 1)
                    return None
                if k == "MethodCall" and e["m"] in ("is_some_and", "map_or", "is_none_or") and peeks(e["recv"], sc) and e.get("args"):
                    # `chars.peek().is_some_and(|&(_, next)| next == '\n')` / `.map_or(false, |..| ..)`
                    cl_ = hir.strip(e["args"][-1])
                    if cl_.get("k") == "Closure" and (e["m"] != "map_or" or hir.lit_value(hir.strip(e["args"][0])) in (False, "false")):
                        cmps_ = [b_ for b_ in hir.nodes(cl_["body"], "Binary") if b_["op"] in ("==", "!=")]
                        lits_ = [l2["lit"].get("v") for l2 in hir.nodes(cl_["body"], "Lit") if l2["lit"].get("k") == "char"]
                        mts_ = [m2 for m2 in hir.nodes(cl_["body"], "Match") if "matches!" in (m2.get("mx") or [])]
                        if len(cmps_) == 1 and lits_ == ["\n"] and not mts_ and hir.strip(cl_["body"]) is cmps_[0] and e["m"] != "is_none_or":
                            return env["next_lf"] if cmps_[0]["op"] == "==" else (not env["next_lf"])
                    return None
                if k in ("Call", "MethodCall"):
                    # a local helper holding (part of) the condition is evaluated in place of the call
                    hb = hir.local_callee_body(prog, e)
                    if hb is None or hb["_crate"] is not c:
                        return None
                    args_ = ([e["recv"]] if k == "MethodCall" else []) + list(e.get("args") or [])
                    if len(args_) != len(hb["params"]) or any(p_.get("k") != "Binding" for p_ in hb["params"]):
                        return None
                    sc2 = {p_["id"]: (a_, sc) for p_, a_ in zip(hb["params"], args_)}
                    hbody = hir.strip(hb["body"])
                    if hbody.get("k") == "BlockExpr":
                        for st_ in hbody["b"].get("stmts") or []:
                            if st_.get("k") == "Let" and st_["pat"].get("k") == "Binding" and st_.get("init") is not None:
                                sc2[st_["pat"]["id"]] = (st_["init"], sc2)
                            else:
                                return None
                        if hbody["b"].get("expr") is None:
                            return None
                        return ev3(hbody["b"]["expr"], env, sc2, depth + 1)
                    return ev3(hbody, env, sc2, depth + 1)
                return None

            # the sites: an `if` whose then-block advances the line counter / leaves the function, or an arm of a match on the character
            # that does so directly (not inside a nested `if`, which is a site of its own).  The condition of a site is the conjunction
            # of its own condition and of every enclosing branch / arm; the conditions of all sites of one kind are joined by `or`.
            from . import charclass
            cc_eval = charclass.Eval(prog, c)

            def direct_nodes(root):
                out_ = []
                stack_ = [root]
                while stack_:
                    x_ = stack_.pop()
                    out_.append(x_)
                    for ch_ in hir.children(x_):
                        if ch_.get("k") in ("If", "Match", "Closure"):
                            continue
                        stack_.append(ch_)
                return out_

            def is_advance(a_):
                return a_.get("k") == "AssignOp" and a_["op"] == "+=" and hir.lit_value(hir.strip(a_["r"])) in ("1", 1) and "line" in (place(a_["l"]) or "")

            def arm_cond(m_, arm, env):
                """three-valued: does this arm of a match on the current character take the case env"""
                for a_ in m_["arms"]:
                    pm = cc_eval.pat_matches(a_["pat"], env["c"])
                    g_ = True if a_.get("guard") is None else ev3(a_["guard"], env)
                    if a_ is arm:
                        if pm is False or g_ is False:
                            return False
                        return True if (pm is True and g_ is True) else None
                    if pm is True and g_ is True:
                        return False
                    if pm is None or (pm is True and g_ is None):
                        # an earlier arm may or may not take the case
                        later = arm_cond_rest(m_, a_, arm, env)
                        return False if later is False else None
                return False

            def arm_cond_rest(m_, after, arm, env):
                seen_ = False
                for a_ in m_["arms"]:
                    if a_ is after:
                        seen_ = True
                        continue
                    if not seen_:
                        continue
                    pm = cc_eval.pat_matches(a_["pat"], env["c"])
                    g_ = True if a_.get("guard") is None else ev3(a_["guard"], env)
                    if a_ is arm:
                        if pm is False or g_ is False:
                            return False
                        return None
                    if pm is True and g_ is True:
                        return False
                return False

            sites = {"advance": [], "exit": []}
            for iff, parents_ in hir.walk(bb["body"]):
                if iff.get("k") == "If":
                    then_ = iff["then"]
                    is_exit = any(r_.get("k") == "Ret" for r_ in hir.nodes(then_)) and fn == "get_insertion_index"
                    advances = any(is_advance(a_) for a_ in hir.nodes(then_))
                    own = [("expr", iff["cond"], True)]
                elif iff.get("k") == "Arm" and parents_ and parents_[-1].get("k") == "Match" and is_char(parents_[-1]["scrut"], None):
                    body_ = iff["body"]
                    dn_ = direct_nodes(body_)
                    is_exit = any(r_.get("k") == "Ret" for r_ in dn_) and fn == "get_insertion_index"
                    advances = any(is_advance(a_) for a_ in dn_)
                    own = []      # (the arm itself is the last element of the chain below)
                else:
                    continue
                mentions_char = iff.get("k") == "Arm" or any((hir.path_local(x) or {}).get("id") in char_ids for x in hir.nodes(iff["cond"])) or \
                    any((hir.path_local(x) or {}).get("id") in defs_t and any((hir.path_local(y) or {}).get("id") in char_ids for y in hir.nodes(defs_t[(hir.path_local(x) or {}).get("id")]))
                        for x in hir.nodes(iff["cond"]) if hir.path_local(x))
                # the effective condition: enclosing branches and arms included
                conds = list(own)
                chain_ = list(parents_) + [iff]
                for i_, pr_ in enumerate(chain_[:-1]):
                    nx_ = chain_[i_ + 1]
                    if pr_.get("k") == "If":
                        if nx_ is pr_.get("then"):
                            conds.append(("expr", pr_["cond"], True))
                        elif pr_.get("else") is not None and nx_ is pr_["else"]:
                            conds.append(("expr", pr_["cond"], False))
                    if pr_.get("k") == "Match" and nx_.get("k") == "Arm" and is_char(pr_["scrut"], None):
                        conds.append(("arm", (pr_, nx_), True))
                        mentions_char = True
                mentions_char = mentions_char or any(
                    kd_ == "expr" and any((hir.path_local(x) or {}).get("id") in char_ids for x in hir.nodes(cd)) for kd_, cd, _ in conds)
                if not mentions_char or not (is_exit or advances):
                    continue
                if advances and not is_exit:
                    sites["advance"].append((iff, conds))
                elif is_exit:
                    sites["exit"].append((iff, conds))

            # (LSP: "\n", "\r\n" and "\r" are the line endings - the Unicode separators, NEL, VT and FF are ordinary characters of a line)
            OTHERS = ("a", "\u2028", "\u2029", "\x85", "\x0b", "\x0c", " ", "\t")

            def site_value(conds, env):
                vals = []
                for kd_, cd, pos in conds:
                    v = ev3(cd, env) if kd_ == "expr" else arm_cond(cd[0], cd[1], env)
                    vals.append(v if pos else (None if v is None else (not v)))
                if any(v is False for v in vals):
                    return False
                return True if all(v is True for v in vals) else None

            for kind_, lst in sites.items():
                if not lst:
                    continue
                tb = {}
                for ch in ("\n", "\r") + OTHERS:
                    for nl in (True, False):
                        # (the clamp exit is judged on the requested line, the line counter on every other line - on the requested
                        # line the exit comes first)
                        vs = [site_value(conds, {"c": ch, "next_lf": nl, "on_line": kind_ == "exit"}) for _, conds in lst]
                        tb[(ch, nl)] = True if any(v is True for v in vs) else (False if all(v is False for v in vs) else None)
                if kind_ == "advance":
                    want = {("\n", True): True, ("\n", False): True, ("\r", False): True, ("\r", True): False}
                    label = "the line counter advances exactly at a line feed and at a carriage return that is not followed by one"
                else:
                    want = {("\n", True): True, ("\n", False): True, ("\r", False): True, ("\r", True): True}
                    label = "a column behind the end of the line is clamped in front of the first character of the line break (LF, CR of CRLF, lone CR)"
                for o_ in OTHERS:
                    want[(o_, True)] = False
                    want[(o_, False)] = False
                undec = any(v is None for v in tb.values())
                ok_t = None if undec else tb == want
                if kind_ == "advance" and ok_t is not None:
                    table_decided.add(fn)
                bad_cases = sorted("%s%s" % ({"\n": "LF", "\r": "CR", "a": "other"}.get(k_[0], "U+%04X" % ord(k_[0])), "+LF" if k_[1] else "") for k_ in want if tb.get(k_) is not None and tb[k_] != want[k_])
                out.add("document::" + fn, label, ok_t, c.loc(lst[0][0]["sp"]),
                        "decided over {LF, CR, other} x {next is LF} (%d site(s)): wrong for %s - for an overshooting column in a CRLF line the position "
                        "lands between CR and LF (the next insertion tears the line break apart), or lines are counted differently from the client"
                        % (len(lst), ", ".join(bad_cases) or "-"), ("utf16", "eol", "table"))
        if eol_site is not None and fn not in table_decided:
            # (the syntactic form of the clause, for shapes the truth table above cannot decide; no character literal in reach of the
            # condition: undecided)
            out.add("document::" + fn, "a line ends at a line feed and at a carriage return on its own", ({"\n", "\r"} <= eol_chars) if eol_chars else None,
                    c.loc(eol_site["sp"]), "the line counter advances at %s only: in a document with lone carriage returns (one of LSP's three line "
                    "endings) every position behind the first one addresses the wrong line" % sorted(eol_chars), ("utf16", "eol"))
        # (state) a flag that carries "the previous character was .." from one iteration to the next is assigned on every path through
        # the loop body - a branch that leaves it untouched makes it say something about an older character
        for bb in bodies_:
            for loop in [x for x in hir.nodes(bb["body"]) if x.get("k") in ("While", "ForLoop", "Loop")]:
                body_ = loop.get("body")
                if body_ is None:
                    continue
                flags = {}
                for a_ in hir.nodes(body_, "Assign"):
                    pl_ = hir.path_local(hir.strip(a_["l"]))
                    if pl_ and c.tstr(hir.strip(a_["l"])["t"]) == "bool":
                        flags.setdefault(pl_["id"], pl_["name"])
                # only flags declared outside the loop (carried over)
                inner_lets = {l_["pat"]["id"] for l_ in hir.nodes(body_, "Let") if l_["pat"].get("k") == "Binding"}
                for fid, fname in sorted(flags.items()):
                    if fid in inner_lets:
                        continue

                    def evf(n_, fid=fid):
                        if n_.get("k") == "Assign" and (hir.path_local(hir.strip(n_["l"])) or {}).get("id") == fid:
                            return ("set", n_)
                        return None
                    try:
                        ps_ = flow.paths(body_, evf)
                    except OverflowError:
                        continue
                    stale = [p_ for p_ in ps_ if not any(e_[0] == "set" for e_ in p_) and not (p_ and p_[-1][0] in ("return", "break", "panic"))]
                    out.add("document::" + fn, "the carried flag `%s` is assigned on every path through the loop body" % fname, not stale, c.loc(loop["sp"]),
                            "%d of %d paths through the loop body leave `%s` as it was: after such an iteration it no longer describes the previous "
                            "character, and a later line break is counted wrongly (a lone CR, an ordinary character, then LF: the LF is swallowed)"
                            % (len(stale), len(ps_), fname), ("utf16", "eol", "state"))
        for bb, n in incs_all:
            utf16 = any(m["m"] in ("len_utf16", "encode_utf16") for m in hir.nodes(n["r"], "MethodCall"))
            one = hir.lit_value(n["r"]) == "1"
            out.add("document::" + fn, "column advances by UTF-16 code units", utf16 if (utf16 or one) else None, c.loc(n["sp"]),
                    "LSP columns count UTF-16 code units; `character += 1` per `char` is wrong for characters outside the BMP", ("utf16",))
    return out
